"""C12: regenerate the OWNERSHIP PROGRAMS of the anchored series transformers from /repo's source.

For every (file, class, method) of TARGETS the method body is translated - fail closed - into a
`stmt` of coq/C12/Model.v: which statements bind a local variable to an object that already exists
(`SAlias`: `z = check_series(Z)`, `col_view = Z[col]`, a parameter of an inlined helper), to an
object the estimator holds (`SSelfRef`: `forecaster = self.forecaster`), to a NEW object (`SFresh`:
`Z = Z.copy()`, `Z = Z.fillna(..)`, `clone(..)`, arithmetic), which write THROUGH a variable
(`SWrite`: `Z[col] = ..`, `Z.iloc[j] = ..`, `x.fit(..)`, `..inplace=True`, `rng.randint(..)`) and
which write the estimator (`SSelf`: `self.attr = ..`).  Calls of methods of the same class (or a base
class in the same module) and of functions of the same module are INLINED (their parameters become
variables bound to what is passed, e.g. the view `Z[col]`), so an in-place write inside
`_hampel_filter` is a write through the caller's `Z`.  Branch conditions, loop counts and computed
contents stay opaque (`cond k`, `cnt k`, `fn k`: universally quantified in C12/Bridge.v).

C12/Bridge.v proves `is_safe` of every generated program for ALL conditions / counts / contents, so
re-introducing an in-place write on the caller's object, or a write to the estimator in an
apply-type method, breaks a proof obligation - not only a sampled case.

The reading of pandas / numpy that is TRUSTED is exactly the tables below: PURE_METHODS return new
objects and leave the receiver alone (unless `inplace=` is given: then it is a write), VIEW
attributes / KEEP functions return (a view of) their argument, MUTATORS change their receiver,
EXT_PURE functions neither write through their arguments nor return views of them.  Anything not
in a table raises Unsupported (a broken tie).
"""
import ast
import os

from .pyz import Unsupported

# (file, class, method, self_ok): self_ok = the method may write the estimator (fit / update)
TARGETS = [
    ("sktime/transformations/series/outlier_detection.py", "HampelFilter", "transform", False),
    ("sktime/transformations/series/impute.py", "Imputer", "transform", False),
    ("sktime/transformations/series/detrend/_detrend.py", "Detrender", "fit", True),
    ("sktime/transformations/series/detrend/_detrend.py", "Detrender", "transform", False),
    ("sktime/transformations/series/detrend/_detrend.py", "Detrender", "inverse_transform", False),
    ("sktime/transformations/series/detrend/_detrend.py", "Detrender", "update", True),
    ("sktime/transformations/series/detrend/_deseasonalize.py", "Deseasonalizer", "fit", True),
    ("sktime/transformations/series/detrend/_deseasonalize.py", "Deseasonalizer", "transform", False),
    ("sktime/transformations/series/detrend/_deseasonalize.py", "Deseasonalizer",
     "inverse_transform", False),
    ("sktime/transformations/series/detrend/_deseasonalize.py", "Deseasonalizer", "update", True),
    ("sktime/transformations/series/boxcox.py", "BoxCoxTransformer", "transform", False),
    ("sktime/transformations/series/boxcox.py", "BoxCoxTransformer", "inverse_transform", False),
    ("sktime/transformations/series/boxcox.py", "LogTransformer", "transform", False),
    ("sktime/transformations/series/boxcox.py", "LogTransformer", "inverse_transform", False),
    ("sktime/transformations/series/detrend/_deseasonalize.py", "ConditionalDeseasonalizer", "fit",
     True),
    ("sktime/transformations/series/adapt.py", "TabularToSeriesAdaptor", "fit", True),
    ("sktime/transformations/series/adapt.py", "TabularToSeriesAdaptor", "transform", False),
    ("sktime/transformations/series/adapt.py", "TabularToSeriesAdaptor", "inverse_transform", False),
    ("sktime/transformations/series/compose.py", "OptionalPassthrough", "fit", True),
    ("sktime/transformations/series/compose.py", "OptionalPassthrough", "transform", False),
    ("sktime/transformations/series/compose.py", "OptionalPassthrough", "inverse_transform", False),
    ("sktime/transformations/series/acf.py", "AutoCorrelationTransformer", "transform", False),
    ("sktime/transformations/series/acf.py", "PartialAutoCorrelationTransformer", "transform", False),
    ("sktime/transformations/series/cos.py", "CosineTransformer", "transform", False),
    ("sktime/transformations/series/summarize.py", "MeanTransformer", "transform", False),
    ("sktime/transformations/base.py", "BaseTransformer", "fit", True),
]

# methods that return a NEW object and do not modify the receiver (without `inplace=`)
PURE_METHODS = {
    "fillna", "replace", "apply", "interpolate", "mean", "median", "isnull", "isna", "notnull",
    "any", "all", "dropna", "min", "max", "sum", "std", "var", "abs", "astype", "predict", "split",
    "transform", "inverse_transform", "get_params", "to_pandas", "to_absolute", "to_relative",
    "reindex", "shift", "diff", "rolling", "tolist", "items", "keys", "get", "format",
    "ppf", "bfill", "ffill", "backfill", "pad", "clip", "where", "mask", "round", "sub", "add",
    "mul", "div", "cumsum", "nunique", "unique", "flatten", "count", "isin",
}
# attribute loads / methods that return (a view of) the receiver
VIEW_ATTRS = {"iloc", "loc", "at", "iat", "values", "T", "seasonal", "array"}
VIEW_METHODS = {"to_numpy", "squeeze", "ravel", "reshape", "view", "to_frame", "head", "tail"}
# attribute loads that yield immutable metadata
META_ATTRS = {"index", "columns", "shape", "dtype", "dtypes", "name", "size", "ndim",
              "window_length", "freq", "freqstr"}
# methods that change their receiver (the result of `fit` is the receiver itself)
MUTATORS = {
    "fit", "update", "set_params", "reset", "partial_fit", "sort", "reverse", "append", "extend",
    "insert", "pop", "remove", "clear", "setdefault", "add", "discard", "fill", "put", "resize",
    "sort_index", "sort_values", "drop", "rename", "update_predict", "seed",
    # draws advance the generator
    "randint", "random", "rand", "randn", "choice", "uniform", "normal", "permutation", "shuffle",
    "random_sample", "integers", "standard_normal", "sample",
}
RETURNS_RECEIVER = {"fit", "update", "set_params"}
# functions that return their first argument itself (or a view of it)
KEEP_FUNCS = {"check_series", "check_y", "check_X", "np.asarray", "np.asanyarray", "np.array",
              "np.squeeze", "np.ravel", "np.atleast_1d", "np.atleast_2d", "pd.Series",
              "pd.DataFrame", "np.transpose"}
# functions whose result holds / yields the ELEMENTS of their arguments: the result is treated as
# (a view of) the one tracked argument (several different tracked arguments are not understood)
ELEMENT_FUNCS = {"enumerate", "zip", "list", "tuple", "sorted", "reversed", "iter", "set", "dict",
                 "next", "itertools.chain", "itertools.islice", "itertools.zip_longest",
                 "itertools.product", "itertools.repeat", "itertools.compress"}
# external functions: no write through an argument, result is a new object
EXT_PURE = {
    "int", "float", "bool", "str", "len", "range", "isinstance", "abs", "min", "max", "sum", "type",
    "callable", "round", "hasattr", "any", "all",
    "clone", "check_random_state", "check_sp", "seasonal_decompose", "boxcox", "inv_boxcox",
    "_get_duration", "_get_freq",
    "np.isnan", "np.arange", "np.nanmedian", "np.abs", "np.log", "np.exp", "np.zeros", "np.ones",
    "np.nanmean", "np.median", "np.mean", "np.sqrt", "np.where", "np.full", "np.cos",
    "warnings.warn", "acf", "pacf",
    "operator.sub", "operator.add", "operator.mul", "operator.truediv", "np.subtract", "np.add",
    "np.multiply", "np.divide", "np.true_divide", "math.floor", "math.ceil", "np.isinf",
    "itertools.count",
}
# attributes of self that hold a user-supplied callable (called like a function: no write through
# its arguments is assumed)
SELF_CALLABLE_ATTRS = {"seasonality_test_"}
# inherited methods of self that are not in the scanned module
SELF_PURE_INHERITED = {"check_is_fitted"}
MAX_INLINE_DEPTH = 5


def _u(n):
    return ast.unparse(n)


def _dotted(n):
    if isinstance(n, ast.Name):
        return n.id
    if isinstance(n, ast.Attribute):
        b = _dotted(n.value)
        return b + "." + n.attr if b else None
    return None


class Frame:
    def __init__(self, label, depth, ctx, parent=None):
        self.label = label
        self.names = {}
        self.depth = depth
        self.ctx = ctx          # the module the code of this frame lives in
        self.parent = parent    # enclosing frame of a local function (closure): read access
        self.retvar = None
        self.funcvals = {}      # local name -> set of dotted external functions it may hold
        self.selfnames = {}     # local name -> attribute of self it was bound to
        self.localfuncs = {}    # local function name -> FunctionDef (nested def)

    def get(self, name):
        """variable a name refers to here: own locals, then the enclosing frames (closure)"""
        f = self
        while f is not None:
            if name in f.names:
                return f.names[name]
            f = f.parent
        return None

    def has(self, name):
        return self.get(name) is not None or self.localfunc(name) is not None

    def localfunc(self, name):
        f = self
        while f is not None:
            if name in f.localfuncs:
                return f.localfuncs[name], f
            if name in f.names:
                return None
            f = f.parent
        return None


class ModCtx:
    """what a module defines / imports (helpers are followed wherever they live)"""
    _cache = {}

    def __init__(self, repo, rel):
        self.repo, self.rel = repo, rel
        with open(os.path.join(repo, rel)) as f:
            self.mod = ast.parse(f.read())
        mod = self.mod
        self.classes = {c.name: c for c in mod.body if isinstance(c, ast.ClassDef)}
        self.module_funcs = {f.name: f for f in mod.body if isinstance(f, ast.FunctionDef)}
        self.module_names = set()
        self.imports = {}       # local name -> (absolute dotted module, original name)
        pkg = os.path.dirname(rel).replace(os.sep, ".")
        for n in mod.body:
            if isinstance(n, (ast.Import, ast.ImportFrom)):
                for a in n.names:
                    self.module_names.add((a.asname or a.name).split(".")[0])
                if isinstance(n, ast.ImportFrom):
                    base = n.module or ""
                    if n.level:
                        up = pkg.split(".")[:len(pkg.split(".")) - (n.level - 1)]
                        base = ".".join(up + ([base] if base else []))
                    for a in n.names:
                        self.imports[a.asname or a.name] = (base, a.name)
            elif isinstance(n, (ast.ClassDef, ast.FunctionDef)):
                self.module_names.add(n.name)
            elif isinstance(n, ast.Assign):
                for t in n.targets:
                    if isinstance(t, ast.Name):
                        self.module_names.add(t.id)

    @classmethod
    def load(cls, repo, rel):
        key = (repo, rel)
        if key not in cls._cache:
            cls._cache[key] = cls(repo, rel)
        return cls._cache[key]

    @classmethod
    def of_module(cls, repo, dotted):
        """the module file of an absolute dotted sktime module name (None outside the repo)"""
        if not dotted.startswith("sktime"):
            return None
        base = os.path.join(*dotted.split("."))
        for rel in (base + ".py", os.path.join(base, "__init__.py")):
            if os.path.exists(os.path.join(repo, rel)):
                return cls.load(repo, rel)
        return None

    def resolve(self, name, depth=0):
        """(kind, node, ctx) of a module-level name: a def / class here, or followed through
        `from sktime... import name` (package re-exports included)"""
        if name in self.module_funcs:
            return "func", self.module_funcs[name], self
        if name in self.classes:
            return "class", self.classes[name], self
        if name in self.imports and depth < 4:
            modname, orig = self.imports[name]
            other = ModCtx.of_module(self.repo, modname)
            if other is not None:
                return other.resolve(orig, depth + 1)
        return None, None, None


class MethodTranslator:
    def __init__(self, rel, mod, cls, fn, self_ok, repo=None):
        self.rel, self.mod, self.cls, self.fn, self.self_ok = rel, mod, cls, fn, self_ok
        self.vars = []          # variable labels
        self.conds = []         # (source, ast node or None, in top frame)
        self.fns = []           # source of each allocation / write
        self.cnts = []          # source of each loop
        self.ninline = 0
        if repo is not None:
            self.ctx = ModCtx.load(repo, rel)
        else:                   # a bare module (unit tests): nothing to follow outside it
            self.ctx = ModCtx.__new__(ModCtx)
            self.ctx.repo, self.ctx.rel, self.ctx.mod = None, rel, mod
            self.ctx.classes = {c.name: c for c in mod.body if isinstance(c, ast.ClassDef)}
            self.ctx.module_funcs = {f.name: f for f in mod.body
                                     if isinstance(f, ast.FunctionDef)}
            self.ctx.imports = {}
            self.ctx.module_names = set()
            for n in mod.body:
                if isinstance(n, (ast.Import, ast.ImportFrom)):
                    for a in n.names:
                        self.ctx.module_names.add((a.asname or a.name).split(".")[0])
                elif isinstance(n, (ast.ClassDef, ast.FunctionDef)):
                    self.ctx.module_names.add(n.name)
                elif isinstance(n, ast.Assign):
                    for t in n.targets:
                        if isinstance(t, ast.Name):
                            self.ctx.module_names.add(t.id)
        self.stack = []         # functions being inlined (recursion is not followed)

    def bad(self, node, why):
        raise Unsupported("%s:%s.%s line %s: %s: `%s`" % (
            self.rel, self.cls.name, self.fn.name, getattr(node, "lineno", "?"), why,
            _u(node)[:80]))

    # ---- tables
    def newvar(self, fr, name, tag=""):
        v = len(self.vars)
        self.vars.append((fr.label + "." if fr.label else "") + tag + name)
        fr.names[name] = v
        return v

    def var(self, fr, name):
        # an assignment binds in the frame itself (a closure cannot rebind outer names)
        return fr.names[name] if name in fr.names else self.newvar(fr, name)

    def fn_(self, src):
        self.fns.append(src)
        return len(self.fns) - 1

    def cond_(self, node, fr):
        self.conds.append((_u(node), node, fr.depth == 0,
                           {k: v for k, v in fr.selfnames.items() if v}))
        return len(self.conds) - 1

    def cnt_(self, src):
        self.cnts.append(src)
        return len(self.cnts) - 1

    # ---- statements as tuples
    def maybe(self, pre, why):
        """statements that run zero or more times (lambda bodies, short-circuit operands)"""
        if not pre:
            return []
        return [("loop", self.cnt_("maybe: " + why), pre)]

    @staticmethod
    def oneof(kinds):
        """the value is one of several objects: collapse to a single kind where possible"""
        flat = []
        for k in kinds:
            for x in (k[1] if k[0] == "oneof" else (k,)):
                if x not in flat:
                    flat.append(x)
        tracked = [k for k in flat if k[0] != "fresh"]
        if not tracked:
            return ("fresh",)
        if len(flat) == 1:
            return flat[0]
        return ("oneof", tuple(flat))

    def choice(self, kinds, mk, node):
        """`mk(kind)` for one of the kinds, picked by a fresh opaque condition (the analysis
        joins over both outcomes: the value may be any of them)"""
        if len(kinds) == 1:
            return mk(kinds[0])
        k = len(self.conds)
        self.conds.append(("<which of the objects `%s` is>" % _u(node)[:40], None, False, {}))
        return [("if", k, mk(kinds[0]), self.choice(kinds[1:], mk, node))]

    def write_through(self, kind, node):
        if kind[0] == "oneof":
            return self.choice(list(kind[1]), lambda k: self.write_through(k, node), node)
        if kind[0] == "alias":
            return [("write", kind[1], self.fn_(_u(node)[:70]))]
        if kind[0] == "self":
            return [("selfw", self.fn_(_u(node)[:70]))]
        if kind[0] == "fresh":
            return []
        self.bad(node, "write through a value of unknown origin")

    def bind(self, fr, name, kind, node):
        x = self.var(fr, name)
        if kind[0] == "oneof":
            return self.choice(list(kind[1]), lambda k: self.bind(fr, name, k, node), node)
        if kind[0] == "alias":
            return [("alias", x, kind[1])]
        if kind[0] == "self":
            return [("selfref", x)]
        if kind[0] == "fresh":
            return [("fresh", x, self.fn_(_u(node)[:70]))]
        self.bad(node, "binding a value that may be one of several objects")

    # ---- method / function resolution
    def class_chain(self, cls, ctx):
        """the class and its base classes (breadth first), each with its module"""
        todo, seen, out = [(cls, ctx)], set(), []
        while todo:
            c, cx = todo.pop(0)
            if (cx.rel, c.name) in seen:
                continue
            seen.add((cx.rel, c.name))
            out.append((c, cx))
            for b in c.bases:
                if isinstance(b, ast.Name):
                    kind, node, bx = cx.resolve(b.id) if cx.repo else (
                        ("class", cx.classes[b.id], cx) if b.id in cx.classes else (None,) * 3)
                    if kind == "class":
                        todo.append((node, bx))
        return out

    def find_method(self, name, cls=None, ctx=None):
        """(FunctionDef, module) of a method, looked up through the class and its bases, wherever
        they live in the package"""
        for c, cx in self.class_chain(cls or self.cls, ctx or self.ctx):
            for n in c.body:
                if isinstance(n, ast.FunctionDef) and n.name == name:
                    return n, cx
        return None, None

    @staticmethod
    def decorators(fn):
        return {_dotted(d) if not isinstance(d, ast.Call) else _dotted(d.func)
                for d in fn.decorator_list}

    def inline(self, callee, call, fr, skip_self, ctx=None, closure_of=None):
        """inline a call: the callee's parameters become variables bound to what is passed.
        `ctx`: the module the callee lives in; `closure_of`: the frame a local function was
        defined in (its body reads that frame's variables)"""
        if fr.depth + 1 > MAX_INLINE_DEPTH or callee in self.stack:
            self.bad(call, "inlining too deep / recursive")
        decos = self.decorators(callee) - {None}
        if decos - {"staticmethod"}:
            self.bad(call, "callee %s is decorated (%s)" % (callee.name, sorted(decos)))
        if "staticmethod" in decos:
            skip_self = False
        a = callee.args
        if a.vararg or a.kwarg or a.posonlyargs or a.kwonlyargs:
            self.bad(call, "callee %s has *args/**kwargs/keyword-only parameters" % callee.name)
        params = [p.arg for p in a.args]
        if skip_self:
            if not params or params[0] != "self":
                self.bad(call, "method %s without self" % callee.name)
            params = params[1:]
        defaults = dict(zip([p.arg for p in a.args][len(a.args) - len(a.defaults):], a.defaults))
        self.ninline += 1
        nf = Frame("%s#%d" % (callee.name, self.ninline), fr.depth + 1,
                   ctx or (closure_of.ctx if closure_of else fr.ctx), parent=closure_of)
        given = {}
        if len(call.args) > len(params):
            self.bad(call, "too many positional arguments")
        for p, e in zip(params, call.args):
            if isinstance(e, ast.Starred):
                self.bad(call, "starred argument")
            given[p] = e
        for k in call.keywords:
            if k.arg is None or k.arg not in params or k.arg in given:
                self.bad(call, "keyword argument not understood")
            given[k.arg] = k.value
        pre = []
        for p in params:
            if p in given:
                q, kind = self.ev(given[p], fr)
                pre += q + self.bind(nf, p, kind, given[p])
            elif p in defaults:
                q, kind = self.ev(defaults[p], nf)
                pre += q + self.bind(nf, p, kind, defaults[p])
            else:
                self.bad(call, "missing argument %s" % p)
        nf.retvar = self.newvar(nf, "<return>")
        self.stack.append(callee)
        try:
            pre += self.block(callee.body, nf, "func")
        finally:
            self.stack.pop()
        return pre, ("alias", nf.retvar)

    def func_as_value(self, fn, defining, node):
        """a local function handed on as a value (e.g. to `.apply`): like a lambda, its body may
        run zero or more times, on arguments that are new values"""
        a = fn.args
        if a.vararg or a.kwarg or a.kwonlyargs or a.posonlyargs or fn.decorator_list \
                or fn in self.stack:
            self.bad(node, "local function used as a value: signature not understood")
        self.ninline += 1
        nf = Frame("%s#%d" % (fn.name, self.ninline), defining.depth + 1, defining.ctx,
                   parent=defining)
        pre = []
        for p in a.args:
            x = self.newvar(nf, p.arg)
            pre.append(("fresh", x, self.fn_("argument %s of %s" % (p.arg, fn.name))))
        nf.retvar = self.newvar(nf, "<return>")
        self.stack.append(fn)
        try:
            body = self.block(fn.body, nf, "func")
        finally:
            self.stack.pop()
        return self.maybe(pre + body, "body of the local function " + fn.name)

    # ---- expressions: (statements for the side effects, kind of the value)
    def ev_all(self, exprs, fr):
        pre, kinds = [], []
        for e in exprs:
            q, k = self.ev(e, fr)
            pre += q
            kinds.append(k)
        return pre, kinds

    def ev(self, e, fr):
        F = ("fresh",)
        if isinstance(e, (ast.Constant, ast.JoinedStr)):
            return [], F
        if isinstance(e, ast.Name):
            if e.id == "self":
                return [], ("self",)
            if fr.get(e.id) is not None:
                return [], ("alias", fr.get(e.id))
            lf = fr.localfunc(e.id)
            if lf is not None:
                return self.func_as_value(lf[0], lf[1], e), F
            if e.id in fr.ctx.module_names or e.id in EXT_PURE or e.id in ELEMENT_FUNCS or e.id in (
                    "True", "False", "None", "ValueError", "TypeError", "NotImplementedError"):
                return [], F
            self.bad(e, "name of unknown origin")
        if isinstance(e, ast.Attribute):
            d = _dotted(e)
            if d and d.split(".")[0] in fr.ctx.module_names and not fr.has(d.split(".")[0]):
                return [], F                       # np.nan, pd.DataFrame, ...
            pre, k = self.ev(e.value, fr)
            if isinstance(e.value, ast.Name) and e.value.id == "self":
                return pre, ("self",)
            if e.attr in META_ATTRS:
                return pre, F
            if e.attr in VIEW_ATTRS or k[0] in ("self", "oneof"):
                return pre, k
            if k[0] == "fresh":
                return pre, F
            self.bad(e, "attribute of a tracked object not in VIEW_ATTRS / META_ATTRS")
        if isinstance(e, ast.Subscript):
            pre, k = self.ev(e.value, fr)
            q, _ = self.ev(e.slice, fr)
            return pre + q, k
        if isinstance(e, ast.Slice):
            pre, _ = self.ev_all([x for x in (e.lower, e.upper, e.step) if x is not None], fr)
            return pre, F
        if isinstance(e, (ast.BinOp,)):
            pre, _ = self.ev_all([e.left, e.right], fr)
            return pre, F
        if isinstance(e, ast.UnaryOp):
            pre, _ = self.ev(e.operand, fr)
            return pre, F
        if isinstance(e, ast.Compare):
            pre, _ = self.ev_all([e.left] + list(e.comparators), fr)
            return pre, F
        if isinstance(e, ast.BoolOp):
            pre, _ = self.ev(e.values[0], fr)
            rest, _ = self.ev_all(e.values[1:], fr)
            return pre + self.maybe(rest, "short-circuit operand"), F
        if isinstance(e, ast.IfExp):
            pre, _ = self.ev(e.test, fr)
            qa, ka = self.ev(e.body, fr)
            qb, kb = self.ev(e.orelse, fr)
            return pre + self.maybe(qa, "conditional expression") + self.maybe(
                qb, "conditional expression"), self.oneof([ka, kb])
        if isinstance(e, (ast.List, ast.Tuple, ast.Set)):
            # a container is treated as (a view of) every tracked object it holds
            pre, kinds = self.ev_all(e.elts, fr)
            return pre, self.oneof(kinds + [F])
        if isinstance(e, ast.Dict):
            pre, kinds = self.ev_all([x for x in list(e.keys) + list(e.values) if x is not None], fr)
            return pre, self.oneof(kinds + [F])
        if isinstance(e, ast.Lambda):
            a = e.args
            if a.vararg or a.kwarg or a.kwonlyargs or a.defaults:
                self.bad(e, "lambda with defaults / *args")
            saved = dict(fr.names)
            pre = []
            for p in a.args:
                x = self.newvar(fr, p.arg, "<lambda>.")
                pre.append(("fresh", x, self.fn_("lambda argument " + p.arg)))
            q, _ = self.ev(e.body, fr)
            fr.names = saved
            return self.maybe(pre + q, "lambda body") if q else [], F
        if isinstance(e, (ast.ListComp, ast.GeneratorExp, ast.SetComp)):
            # a loop that collects NEW values (collecting tracked objects is not understood)
            saved = dict(fr.names)
            pre0, ki0 = self.ev(e.generators[0].iter, fr)
            src = {}                # comprehension variable -> kind of what it iterates over
            res = []

            def gen(gs, first):
                g = gs[0]
                if g.is_async:
                    self.bad(e, "async comprehension")
                if first:
                    pre, ki = [], ki0
                else:
                    pre, ki = self.ev(g.iter, fr)
                names = [n.id for n in ast.walk(g.target) if isinstance(n, ast.Name)]
                if ki[0] == "alias" and ki[1] in src:
                    ki = src[ki[1]]
                for nm in names:
                    fr.names.pop(nm, None)
                    src[self.newvar(fr, nm, "<comp>.")] = ki
                body = self.bind_target(fr, g.target, ki, g.iter)
                for c in g.ifs:
                    q, _ = self.ev(c, fr)
                    body += q
                if len(gs) > 1:
                    body += gen(gs[1:], False)
                else:
                    q, k = self.ev(e.elt, fr)
                    # a collection of elements of X is treated as (a view of) X
                    ks = k[1] if k[0] == "oneof" else (k,)
                    res.append(self.oneof([src[x[1]] if x[0] == "alias" and x[1] in src else x
                                           for x in ks] + [F]))
                    body += q
                return pre + [("loop", self.cnt_("comprehension over " + _u(g.iter)[:50]), body)]
            out = pre0 + gen(list(e.generators), True)
            fr.names = saved
            return out, res[0]
        if isinstance(e, ast.Call):
            return self.ev_call(e, fr)
        self.bad(e, "expression form not understood")

    def ev_args(self, call, fr, star_ok=False):
        """kinds of the arguments; `*xs` (for functions that are not inlined) counts as its
        elements = (a view of) xs"""
        args = []
        for a in call.args:
            if isinstance(a, ast.Starred):
                if not star_ok:
                    self.bad(call, "starred argument")
                a = a.value
            args.append(a)
        for k in call.keywords:
            if k.arg is None:
                self.bad(call, "**kwargs argument")
        return self.ev_all(args + [k.value for k in call.keywords], fr)

    def ev_call(self, c, fr):
        F = ("fresh",)
        f = c.func
        d = _dotted(f)
        root = d.split(".")[0] if d else None
        # ---- getattr(obj, "name"[, default]) == obj.name
        if d == "getattr" and not fr.has("getattr") and len(c.args) in (2, 3) \
                and not c.keywords:
            pre, kinds = self.ev_all(c.args, fr)
            ko = kinds[0]
            if len(c.args) == 3 and kinds[2][0] != "fresh":
                self.bad(c, "getattr default is a tracked object")
            if ko[0] != "fresh":
                return pre, ko          # conservatively: (a part of) the object itself
            return pre, F
        # ---- a local function (nested def): inlined, its body reads the defining frame
        if isinstance(f, ast.Name) and fr.get(f.id) is None and fr.localfunc(f.id) is not None:
            lfn, defining = fr.localfunc(f.id)
            return self.inline(lfn, c, fr, False, closure_of=defining)
        # ---- plain function / external dotted function / Class.helper
        if d and root != "self" and not fr.has(root):
            ctx = fr.ctx
            if d in KEEP_FUNCS or d in ELEMENT_FUNCS or d in EXT_PURE:
                pre, kinds = self.ev_args(c, fr, star_ok=True)
                if d in KEEP_FUNCS:
                    if not c.args:
                        self.bad(c, "KEEP function without positional argument")
                    return pre, kinds[0]
                if d in ELEMENT_FUNCS:
                    return pre, self.oneof(kinds + [F])
                return pre, F
            if isinstance(f, ast.Name):
                # a function of this module, or one imported from another module of the package
                kind, node, cx = ctx.resolve(f.id) if ctx.repo else (
                    ("func", ctx.module_funcs[f.id], ctx) if f.id in ctx.module_funcs
                    else (None, None, None))
                if kind == "func":
                    return self.inline(node, c, fr, False, ctx=cx)
            if isinstance(f, ast.Attribute) and isinstance(f.value, ast.Name):
                # Class.helper(..): a static helper of the class or of one of its bases
                kind, node, cx = ctx.resolve(f.value.id) if ctx.repo else (
                    ("class", ctx.classes[f.value.id], ctx) if f.value.id in ctx.classes
                    else (None, None, None))
                if kind == "class":
                    callee, mx = self.find_method(f.attr, node, cx)
                    if callee is not None and "staticmethod" in self.decorators(callee):
                        return self.inline(callee, c, fr, False, ctx=mx)
                    self.bad(c, "call through a class that is not a static helper")
            pre, kinds = self.ev_args(c, fr, star_ok=True)
            if isinstance(f, ast.Name) and f.id[:1].isupper() and f.id in ctx.module_names:
                # constructor of an imported class: the new object may keep (a view of) what it
                # is handed - treated as a view of its tracked arguments
                return pre, self.oneof(kinds + [F])
            self.bad(c, "call of a function not in KEEP_FUNCS / EXT_PURE")
        if isinstance(f, (ast.Name, ast.Subscript, ast.IfExp)):
            # dispatch through a local name / a literal table of external functions
            fv = self.func_values(f, fr)
            if fv and all(x in EXT_PURE for x in fv):
                pre0, _ = self.ev(f, fr)
                pre, _ = self.ev_args(c, fr)
                return pre0 + pre, F
        if not isinstance(f, ast.Attribute):
            self.bad(c, "call form not understood")
        m = f.attr
        # ---- method of self
        if isinstance(f.value, ast.Name) and f.value.id == "self":
            callee, mx = self.find_method(m)
            if callee is not None and m not in SELF_PURE_INHERITED:
                return self.inline(callee, c, fr, True, ctx=mx)
            pre, _ = self.ev_args(c, fr)
            if m in SELF_PURE_INHERITED or m in SELF_CALLABLE_ATTRS:
                return pre, F
            self.bad(c, "method of self that is neither in the module nor in SELF_PURE_INHERITED")
        # ---- method of an object
        pre, kr = self.ev(f.value, fr)
        q, _ = self.ev_args(c, fr)
        pre = pre + q
        inplace = [k for k in c.keywords if k.arg == "inplace"
                   and not (isinstance(k.value, ast.Constant) and k.value.value is False)]
        if inplace:
            return pre + self.write_through(kr, c), F
        if m in MUTATORS:
            w = self.write_through(kr, c)
            return pre + w, (kr if m in RETURNS_RECEIVER else F)
        if m == "copy":
            shallow = [k for k in c.keywords if k.arg == "deep"
                       and not (isinstance(k.value, ast.Constant) and k.value.value is True)]
            if shallow or c.args:
                return pre, kr
            return pre, F
        if m in VIEW_METHODS:
            return pre, kr
        if m in PURE_METHODS:
            return pre, F
        self.bad(c, "method `%s` not in PURE_METHODS / VIEW_METHODS / MUTATORS" % m)

    # ---- statements
    @staticmethod
    def _contains(stmts, types):
        """does a statement list contain one of `types`, not counting nested loops / lambdas"""
        todo = list(stmts)
        while todo:
            n = todo.pop()
            if isinstance(n, types):
                return True
            if isinstance(n, (ast.For, ast.While, ast.Lambda, ast.FunctionDef)):
                continue
            todo.extend(ast.iter_child_nodes(n))
        return False

    def ret_bind(self, fr, kind, node):
        x = fr.retvar
        if kind[0] == "oneof":
            return self.choice(list(kind[1]), lambda k: self.ret_bind(fr, k, node), node)
        if kind[0] == "alias":
            return [("alias", x, kind[1])]
        if kind[0] == "self":
            return [("selfref", x)]
        if kind[0] == "fresh":
            return [("fresh", x, self.fn_("return " + _u(node)[:60]))]
        self.bad(node, "returns one of several objects")

    def block(self, stmts, fr, tail):
        """`tail`: what ends the enclosing construct right after this block -
        "func" (the block is in tail position of the function body: `return` / `raise` end it),
        "loop" (tail position of a loop body: `continue` ends the iteration), or None.
        Guard clauses: an `if` that contains such a terminator and is followed by more statements
        is translated as `if c: body; rest  else: orelse; rest` - every path keeps exactly the
        statements it runs in the source."""
        out = []
        for i, s in enumerate(stmts):
            last = i == len(stmts) - 1
            rest = stmts[i + 1:]
            if isinstance(s, ast.Expr) and isinstance(s.value, ast.Constant):
                continue                                   # docstring
            if isinstance(s, ast.Pass):
                continue
            if isinstance(s, ast.FunctionDef):
                # a local function: nothing happens here; calls of it are inlined where they
                # are made (its free names are the variables of THIS frame)
                if any(isinstance(n, (ast.Nonlocal, ast.Global)) for n in ast.walk(s)):
                    self.bad(s, "local function with nonlocal / global")
                fr.names.pop(s.name, None)
                fr.localfuncs[s.name] = s
                continue
            if isinstance(s, ast.Raise):
                if tail == "func":
                    # the call ends here and hands nothing of the caller back
                    out.append(("fresh", fr.retvar, self.fn_("raise: no result")))
                    return out
                # elsewhere (loop bodies): over-approximation, the model carries on (it may only
                # do MORE than the code)
                continue
            if isinstance(s, ast.Continue):
                if tail != "loop":
                    self.bad(s, "continue that does not end the loop body")
                return out
            if isinstance(s, ast.Return):
                if tail != "func":
                    self.bad(s, "return inside a loop")
                if s.value is not None:
                    if isinstance(s.value, ast.IfExp):
                        return out + self.block([self.desugar_ifexp(s, s.value, None)], fr, tail)
                    pre, k = self.ev(s.value, fr)
                    out += pre + self.ret_bind(fr, k, s.value)
                else:
                    out.append(("fresh", fr.retvar, self.fn_("return None")))
                return out                                 # anything after it is dead code
            if isinstance(s, ast.If):
                enders = (ast.Return, ast.Raise) if tail == "func" else (
                    (ast.Continue,) if tail == "loop" else ())
                pre, _ = self.ev(s.test, fr)
                k = self.cond_(s.test, fr)
                if not last and enders and self._contains([s], enders):
                    a = self.block(list(s.body) + rest, fr, tail)
                    b = self.block(list(s.orelse) + rest, fr, tail)
                    return out + pre + [("if", k, a, b)]
                a = self.block(s.body, fr, tail if last else None)
                b = self.block(s.orelse, fr, tail if last else None)
                out += pre + [("if", k, a, b)]
                if last and tail == "func":
                    return out          # each branch ends the function itself (return / fall off)
                continue
            if isinstance(s, ast.For):
                if s.orelse:
                    self.bad(s, "for-else")
                pre, ki = self.ev(s.iter, fr)
                k = self.cnt_("for %s in %s" % (_u(s.target)[:20], _u(s.iter)[:50]))
                body = self.bind_target(fr, s.target, ki, s.iter) + self.block(s.body, fr, "loop")
                out += pre + [("loop", k, body)]
                continue
            if isinstance(s, ast.Assert):
                pre, _ = self.ev(s.test, fr)
                out += pre
                continue
            if isinstance(s, ast.Expr):
                pre, _ = self.ev(s.value, fr)
                out += pre
                continue
            if isinstance(s, ast.AugAssign):
                pre, _ = self.ev(s.value, fr)
                out += pre + self.assign_target(s.target, ("fresh",), s, fr, aug=True)
                continue
            if isinstance(s, ast.Assign):
                if len(s.targets) != 1:
                    self.bad(s, "chained assignment")
                if isinstance(s.value, ast.IfExp) and isinstance(s.targets[0], ast.Name):
                    # x = a if c else b   ==   if c: x = a  else: x = b
                    out += self.block([self.desugar_ifexp(s, s.value, s.targets[0])], fr, None)
                    continue
                t0 = s.targets[0]
                if isinstance(t0, (ast.Tuple, ast.List)) and isinstance(s.value, (ast.Tuple, ast.List)) \
                        and len(t0.elts) == len(s.value.elts) \
                        and not any(isinstance(x, ast.Starred) for x in t0.elts + s.value.elts):
                    # a, b = e1, e2: all right-hand sides first (temporaries), then the targets
                    tmps = []
                    for j, v in enumerate(s.value.elts):
                        pre, k = self.ev(v, fr)
                        nm = "<tmp%d>" % j
                        fr.names.pop(nm, None)
                        out += pre + self.bind(fr, nm, k, v)
                        tmps.append(("alias", fr.names[nm]))
                    for x, k in zip(t0.elts, tmps):
                        out += self.assign_target(x, k, s, fr, aug=False)
                    continue
                pre, k = self.ev(s.value, fr)
                out += pre + self.assign_target(t0, k, s, fr, aug=False)
                continue
            self.bad(s, "statement form not understood")
        if tail == "func":
            out.append(("fresh", fr.retvar, self.fn_("falls off the end: returns None")))
        return out

    @staticmethod
    def desugar_ifexp(s, e, target):
        """`x = a if c else b` / `return a if c else b` as an if statement"""
        def leaf(v):
            n = ast.Return(value=v) if target is None else ast.Assign(targets=[target], value=v)
            return ast.copy_location(n, s)
        n = ast.If(test=e.test, body=[leaf(e.body)], orelse=[leaf(e.orelse)])
        return ast.fix_missing_locations(ast.copy_location(n, s))

    def bind_target(self, fr, t, kind, node):
        """bind a loop / assignment target: a name, or a tuple of names (every element may be
        (part of) the object that is unpacked)"""
        if isinstance(t, ast.Name):
            return self.bind(fr, t.id, kind, node)
        if isinstance(t, (ast.Tuple, ast.List)):
            out = []
            for x in t.elts:
                # `*rest` collects elements of the same object
                out += self.bind_target(fr, x.value if isinstance(x, ast.Starred) else x,
                                        kind, node)
            return out
        self.bad(t, "target is not a name or a tuple of names")

    def func_values(self, e, fr):
        """dotted external functions an expression may evaluate to (None: not a function value)"""
        d = _dotted(e)
        if d and d.split(".")[0] in fr.ctx.module_names and not fr.has(d.split(".")[0]):
            return {d}
        if isinstance(e, ast.Name) and e.id in fr.funcvals:
            return set(fr.funcvals[e.id])
        if isinstance(e, ast.IfExp):
            a, b = self.func_values(e.body, fr), self.func_values(e.orelse, fr)
            return None if a is None or b is None else a | b
        if isinstance(e, ast.Dict) and e.values:
            vs = [self.func_values(v, fr) for v in e.values]
            return None if any(v is None for v in vs) else set().union(*vs)
        if isinstance(e, ast.Subscript):
            return self.func_values(e.value, fr)         # table[key]: one of the table's values
        if isinstance(e, ast.Call) and isinstance(e.func, ast.Attribute) and e.func.attr == "get" \
                and len(e.args) in (1, 2) and not e.keywords:
            t = self.func_values(e.func.value, fr)       # table.get(key[, default])
            d = self.func_values(e.args[1], fr) if len(e.args) == 2 else None
            if t is None or (len(e.args) == 2 and d is None) or len(e.args) == 1:
                return None                              # (without default the result may be None)
            return t | d
        return None

    def note_value(self, fr, name, value):
        """remember simple facts about a local: which external functions it may hold (dispatch
        tables), which attribute of self it names"""
        if value is None:
            fr.funcvals.pop(name, None)
            fr.selfnames.pop(name, None)
            return
        fv = self.func_values(value, fr)
        if fv is not None:
            fr.funcvals[name] = fr.funcvals.get(name, set()) | fv
        else:
            fr.funcvals.pop(name, None)
        if isinstance(value, ast.Attribute) and isinstance(value.value, ast.Name) \
                and value.value.id == "self" and fr.selfnames.get(name, value.attr) == value.attr:
            fr.selfnames[name] = value.attr
        else:
            fr.selfnames[name] = None

    def assign_target(self, t, kind, s, fr, aug):
        if isinstance(t, ast.Name):
            if t.id == "self":
                self.bad(s, "assignment to self")
            if aug:
                # x += ..: in place for arrays / Series
                if t.id not in fr.names:
                    self.bad(s, "augmented assignment to a name that is not a local")
                return [("write", fr.names[t.id], self.fn_(_u(s)[:70]))]
            self.note_value(fr, t.id, getattr(s, "value", None))
            return self.bind(fr, t.id, kind, s.value)
        if isinstance(t, ast.Subscript):
            pre, kc = self.ev(t.value, fr)
            q, _ = self.ev(t.slice, fr)
            return pre + q + self.write_through(kc, s)
        if isinstance(t, ast.Attribute):
            if isinstance(t.value, ast.Name) and t.value.id == "self":
                return [("selfw", self.fn_(_u(s)[:70]))]
            pre, kc = self.ev(t.value, fr)
            return pre + self.write_through(kc, s)
        if isinstance(t, (ast.Tuple, ast.List)) and not aug:
            out = []
            for x in t.elts:
                out += self.assign_target(x.value if isinstance(x, ast.Starred) else x, kind, s,
                                          fr, aug=False)
            return out
        self.bad(s, "assignment target not understood")

    def translate(self):
        a = self.fn.args
        if a.vararg or a.kwarg or a.posonlyargs or a.kwonlyargs:
            self.bad(self.fn, "*args/**kwargs/keyword-only parameters")
        params = [p.arg for p in a.args]
        if not params or params[0] != "self":
            self.bad(self.fn, "not a method")
        fr = Frame("", 0, self.ctx)
        for p in params[1:]:
            self.newvar(fr, p)            # every argument starts as the caller's object
        fr.retvar = self.newvar(fr, "<return>")
        body = self.block(self.fn.body, fr, "func")
        return body, fr.retvar


def _find(mod, cls, meth):
    for c in mod.body:
        if isinstance(c, ast.ClassDef) and c.name == cls:
            for n in c.body:
                if isinstance(n, ast.FunctionDef) and n.name == meth:
                    return c, n
    return None, None


def _coq(s, ind):
    """statement list -> Coq term"""
    if not s:
        return "SSkip"
    pad = " " * ind

    def one(t):
        k = t[0]
        if k == "alias":
            return "SAlias %d %d" % (t[1], t[2])
        if k == "selfref":
            return "SSelfRef %d" % t[1]
        if k == "fresh":
            return "SFresh %d (fn %d)" % (t[1], t[2])
        if k == "write":
            return "SWrite %d (fn %d)" % (t[1], t[2])
        if k == "selfw":
            return "SSelf (fn %d)" % t[1]
        if k == "if":
            return "SIf (cond %d)\n%s  (%s)\n%s  (%s)" % (
                t[1], pad, _coq(t[2], ind + 2), pad, _coq(t[3], ind + 2))
        if k == "loop":
            return "SLoop (cnt %d)\n%s  (%s)" % (t[1], pad, _coq(t[2], ind + 2))
        raise AssertionError(k)
    if len(s) == 1:
        return one(s[0])
    return "SSeq (%s)\n%s(%s)" % (one(s[0]), pad, _coq(s[1:], ind))


def _cs(s):
    return '"' + s.replace('"', '""').replace("\n", " ") + '"'


def extract(repo):
    """[{name, file, cls, method, self_ok, nvars, ret, body(tuples), vars, conds, fns, cnts}]"""
    out = []
    parsed = {}
    ModCtx._cache.clear()
    for rel, cls, meth, self_ok in TARGETS:
        path = os.path.join(repo, rel)
        if not os.path.exists(path):
            raise Unsupported("anchored file missing: " + rel)
        if rel not in parsed:
            with open(path) as f:
                parsed[rel] = ast.parse(f.read())
        mod = parsed[rel]
        c, fn = _find(mod, cls, meth)
        if fn is None:
            raise Unsupported("%s: %s.%s not found" % (rel, cls, meth))
        mt = MethodTranslator(rel, mod, c, fn, self_ok, repo=repo)
        body, ret = mt.translate()
        out.append({"name": "%s.%s" % (cls, meth), "file": rel, "cls": cls, "method": meth,
                    "self_ok": self_ok, "nvars": len(mt.vars), "ret": ret, "body": body,
                    "vars": mt.vars, "conds": mt.conds, "fns": mt.fns, "cnts": mt.cnts})
    return out


def eval_cond(node, params, frame, top=True, selfnames=None):
    """value of a branch condition for a concrete estimator / input container: True / False, or
    None when it depends on the data (or is not understood).  `top`: the condition belongs to the
    method's own body (only there `Z` is known to be the argument)."""
    selfnames = selfnames or {}

    def val(n):
        if isinstance(n, ast.Constant):
            return ("v", n.value)
        if isinstance(n, ast.Name) and n.id in selfnames:        # method = self.method
            a = selfnames[n.id]
            return ("v", params[a]) if a in params else None
        if isinstance(n, ast.Attribute) and isinstance(n.value, ast.Name) and n.value.id == "self":
            if n.attr in params:
                return ("v", params[n.attr])
            return None
        if isinstance(n, (ast.List, ast.Tuple)):
            xs = [val(x) for x in n.elts]
            return None if any(x is None for x in xs) else ("v", [x[1] for x in xs])
        if isinstance(n, ast.Call) and _dotted(n.func) == "isinstance" and len(n.args) == 2 \
                and top and isinstance(n.args[0], ast.Name) and n.args[0].id in ("Z", "z") \
                and _dotted(n.args[1]) in ("pd.DataFrame", "pd.Series"):
            isdf = _dotted(n.args[1]) == "pd.DataFrame"
            return ("v", frame == isdf)
        if isinstance(n, ast.UnaryOp) and isinstance(n.op, ast.Not):
            x = val(n.operand)
            return None if x is None else ("v", not x[1])
        if isinstance(n, ast.BoolOp):
            xs = [val(x) for x in n.values]
            if any(x is None for x in xs):
                return None
            r = xs[0][1]
            for x in xs[1:]:
                r = (r and x[1]) if isinstance(n.op, ast.And) else (r or x[1])
            return ("v", r)
        if isinstance(n, ast.Compare) and len(n.ops) == 1:
            a, b = val(n.left), val(n.comparators[0])
            if a is None or b is None:
                return None
            a, b = a[1], b[1]
            op = n.ops[0]
            try:
                if isinstance(op, ast.Eq):
                    return ("v", a == b)
                if isinstance(op, ast.NotEq):
                    return ("v", a != b)
                if isinstance(op, ast.In):
                    return ("v", a in b)
                if isinstance(op, ast.NotIn):
                    return ("v", a not in b)
                if isinstance(op, ast.Is):
                    return ("v", a is b)
                if isinstance(op, ast.IsNot):
                    return ("v", a is not b)
            except TypeError:
                return None
        return None
    r = val(node)
    return None if r is None else bool(r[1])


def coq_ident(name):
    return name.replace(".", "_").lower()


def translate(repo):
    ms = extract(repo)
    L = ["(* GENERATED by /verif/translator/own_c12.py from %s -- do not edit, never committed *)"
         % repo,
         "From Coq Require Import List Bool String.",
         "Require Import SkV.C12.Model.",
         "Import ListNotations.", "",
         "Section Gen.",
         "  Variable cond : nat -> buf -> list buf -> bool.   (* k-th branch condition *)",
         "  Variable fn : nat -> buf -> list buf -> buf.      (* k-th allocated / written content *)",
         "  Variable cnt : nat -> buf -> list buf -> nat.     (* k-th loop count *)", ""]
    for m in ms:
        L.append("  (* %s.%s  (%s)" % (m["cls"], m["method"], m["file"]))
        L.append("     variables: %s" % ", ".join("%d = %s" % (i, v) for i, v in enumerate(m["vars"])))
        for i, (src, _, _, _) in enumerate(m["conds"]):
            L.append("     cond %d: %s" % (i, src.replace("*)", "* )").replace("(*", "( *")[:100]))
        L.append("  *)")
        L.append("  Definition %s : method :=" % coq_ident(m["name"]))
        L.append("    {| nvars := %d; ret := %d; body :=\n      %s |}.\n" % (
            m["nvars"], m["ret"], _coq(m["body"], 6)))
    L.append("  Definition gen_methods : list method := [")
    L.append(";\n".join("    " + coq_ident(m["name"]) for m in ms))
    L.append("  ].")
    L.append("End Gen.\n")
    L.append("Open Scope string_scope.")
    L.append("Definition gen_names : list string := [")
    L.append(";\n".join("  " + _cs(m["name"]) for m in ms))
    L.append("].")
    L.append("Definition gen_self_ok : list bool := [%s]." % "; ".join(
        "true" if m["self_ok"] else "false" for m in ms))
    return {"C12/Own.v": "\n".join(L) + "\n"}
