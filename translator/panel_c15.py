"""C15: regenerate the panel-container conversions of sktime/utils/data_processing.py as Gallina.

Every statement of the listed functions is translated (fail-closed: any statement, expression,
call, keyword or argument shape that is not in the tables below raises Unsupported, which the
harness reports as a broken tie).  One numpy / pandas call = one primitive of coq/C15/Prims.v with
the call's arguments translated from the source, Python control flow (assignments, if / is None
tests, raise, for loops over range / enumerate / iteritems, list comprehensions, return) becomes
let / if / match / Err / fold_left / map.  The output is build/coq/C15/Gen.v; the committed
coq/C15/Bridge.v proves every generated function equal to the hand model of coq/C15/Model.v, so an
edit of a conversion (another axis order, range bound, argument, branch, a dropped step, ...) either
stops the translator or breaks a Bridge lemma.

Static typing: every Python value has one of the types below; isinstance / `is None` / `.ndim`
tests on values whose Python type is fixed by this typing are decided at translation time and the
dead branch is dropped (it is still required to parse).  What the Coq containers do not carry
(row / time index labels, index level names, labels of 2-D DataFrames, column labels of the long
table) is not translated: statements that only assign variables listed in a function's `ignore`
entry are skipped, and listed in the header of Gen.v.
"""
import ast
import os

from .pyz import Unsupported, cname

SRC = "sktime/utils/data_processing.py"

COQTY = {
    "nat": "nat", "bool": "bool", "name": "name", "names": "list name",
    "onames": "option (list name)", "arr3": "arr3 V", "tab2": "tab2 V", "arr1": "list V",
    "ser1": "list V", "rows2": "list (list V)", "kind": "cellkind", "ncell": "@ncell V",
    "ncells": "list (@ncell V)", "cellrows": "list (list (@ncell V))", "dfb": "@dfb V",
    "nested": "nested V", "mi": "mi V", "long": "long V", "zlist": "list Z", "z": "Z",
    "olevel": "option nat", "frame": "frame V", "cell": "cell V", "boolframe": "boolframe",
    "bools": "list bool", "kser": "@kser V", "kwargs": "bool", "olabel": "option name",
    "tblock": "@tblock V", "kblock": "@kblock V", "keys": "list (Z * Z)", "col1": "list V",
    "idframe": "list (Z * Z)", "flat": "list V",
}


def coqty(t):
    if isinstance(t, tuple) and t[0] == "res":
        return "res (%s)" % coqty(t[1])
    if isinstance(t, tuple) and t[0] == "list":
        return "list (%s)" % coqty(t[1])
    if isinstance(t, tuple) and t[0] == "tuple":
        return "(%s)" % " * ".join(coqty(x) for x in t[1])
    if t in COQTY:
        return COQTY[t]
    raise Unsupported("no Coq type for %r" % (t,))


def u(n):
    return ast.unparse(n)


def need(c, what, node=None):
    if not c:
        raise Unsupported(what + ((": " + u(node)) if node is not None else ""))


def is_static(ty):
    return isinstance(ty, tuple) and ty[0] == "static"


def lty(elt):
    """type of a list with elements of type elt (canonical names for lists of names / bools)"""
    return {"name": "names", "bool": "bools"}.get(elt, ("list", elt))


def is_res(ty):
    return isinstance(ty, tuple) and ty[0] == "res"


# (python name, gallina name, [(param, type)], return type, raises, ignore set)
#   Only the PUBLIC functions are listed (looked up by name: the API); every private helper they
#   call is found through the call graph and translated in place, so helpers may be extracted,
#   renamed, merged or removed freely.
#   param type "none": the argument is not passed (None) at the modelled call sites
#   param type ("role", k): a column of the long table, by role (0 instance, 1 time, 2 dim, 3 value)
FUNCS = [
    dict(py="are_columns_nested", params=[("X", "frame")], ret="bools"),
    dict(py="is_nested_dataframe", params=[("X", "frame")], ret="bool"),
    dict(py="from_3d_numpy_to_2d_array", params=[("X", "arr3")], ret="tab2"),
    dict(py="from_3d_numpy_to_nested",
         params=[("X", "arr3"), ("column_names", "onames"), ("cells_as_numpy", "bool")],
         ret="nested", raises=True),
    dict(py="from_2d_array_to_nested",
         params=[("X", "tab2"), ("index", "none"), ("columns", "none"), ("time_index", "none"),
                 ("cells_as_numpy", "bool")],
         ret="nested", raises=True),
    dict(py="from_multi_index_to_3d_numpy",
         params=[("X", "mi"), ("instance_index", "olevel"), ("time_index", "olevel")],
         ret="arr3", raises=True),
    dict(py="from_multi_index_to_nested",
         params=[("multi_ind_dataframe", "mi"), ("instance_index", "olevel"),
                 ("cells_as_numpy", "bool")],
         ret="nested", raises=True),
    dict(py="from_long_to_nested",
         params=[("X_long", "long"), ("instance_column_name", ("role", 0)),
                 ("time_column_name", ("role", 1)), ("dimension_column_name", ("role", 2)),
                 ("value_column_name", ("role", 3)), ("column_names", "onames")],
         ret="nested", raises=True),
    dict(py="from_nested_to_2d_array", params=[("X", "nested"), ("return_numpy", "bool")],
         ret="tab2", raises=True),
    dict(py="from_nested_to_multi_index",
         params=[("X", "nested"), ("instance_index", "olabel"), ("time_index", "olabel")],
         ret="mi", raises=True),
    dict(py="from_3d_numpy_to_multi_index",
         params=[("X", "arr3"), ("instance_index", "labels"), ("time_index", "labels"),
                 ("column_names", "onames")],
         ret="mi", raises=True),
    dict(py="from_nested_to_long",
         params=[("X", "nested"), ("instance_column_name", "labels"),
                 ("time_column_name", "labels"), ("dimension_column_name", "labels")],
         ret="long", raises=True),
    dict(py="from_nested_to_3d_numpy", params=[("X", "nested")], ret="arr3", raises=True),
]
for _f in FUNCS:
    _f["coq"] = "gen_" + _f["py"].lstrip("_")
BY_PY = {f["py"]: f for f in FUNCS}


# ---------------------------------------------------------------------------------------------
# Which statements only compute LABELS the Coq containers do not carry (index level names, labels
# of 2-D DataFrames, column labels of the long table, exception messages)?  Decided by data flow,
# not by variable names: a local variable is a label variable iff every use of it is (a) in a label
# sink - `rename(columns=)`, `rename_axis(index=)`, `from_product(names=)`, `pd.Series(name=)`, the
# arguments of a raised exception, `.columns = ` / `.index = ` of a frame whose labels are not
# modelled - or (b) in the definition of another label variable / the test of an `if` or the
# iterable of a `for` that only contains such definitions.  Statements defining label variables must
# be side-effect free (calls from the pure tables below, mutators only on label variables).

SINK_KW = {"rename": "columns", "rename_axis": "index", "from_product": "names", "Series": "name"}
PURE_FUNCS = {"hasattr", "len", "range", "enumerate", "zip", "str", "isinstance", "list", "dict",
              "tuple", "type", "repr", "int", "bool", "np.arange", "pd.RangeIndex"}
PURE_METHODS = {"items", "iteritems", "join", "format", "keys", "values", "get", "copy", "tolist",
                "to_numpy", "unique", "get_level_values"}
MUTATORS = {"append", "extend", "update", "setdefault", "insert"}


class Retry(Exception):
    pass


class Cellify(Exception):
    pass


def _base(x):
    while isinstance(x, (ast.Subscript, ast.Attribute)):
        x = x.value
    return x


def _targets(st):
    tg = st.targets if isinstance(st, ast.Assign) else [st.target]
    out = []
    for t in tg:
        out += list(t.elts) if isinstance(t, ast.Tuple) else [t]
    return out


def _sink_free_loads(e):
    """names loaded in e outside the label sinks"""
    out = set()

    def go(n):
        if isinstance(n, ast.Call):
            fname = n.func.attr if isinstance(n.func, ast.Attribute) else getattr(n.func, "id", None)
            go(n.func)
            for a in n.args:
                go(a)
            for k in n.keywords:
                if not (fname in SINK_KW and k.arg == SINK_KW[fname]):
                    go(k.value)
            return
        if isinstance(n, ast.Name) and isinstance(n.ctx, ast.Load):
            out.add(n.id)
        for c in ast.iter_child_nodes(n):
            go(c)
    go(e)
    return out


def _self_rename(st):
    """x = x.rename(columns=E) / x = x.rename_axis(index=E): returns (x, method) or None"""
    if isinstance(st, ast.Assign) and len(st.targets) == 1 and isinstance(st.targets[0], ast.Name) \
            and isinstance(st.value, ast.Call) and isinstance(st.value.func, ast.Attribute) \
            and isinstance(st.value.func.value, ast.Name) \
            and st.value.func.value.id == st.targets[0].id and not st.value.args \
            and len(st.value.keywords) == 1 \
            and SINK_KW.get(st.value.func.attr) == st.value.keywords[0].arg \
            and st.value.func.attr in ("rename", "rename_axis"):
        return st.targets[0].id, st.value.func.attr
    return None


def _helper_pure(name, module, depth=0):
    fn = module.get(name)
    if fn is None or depth > 3:
        return False
    locs = {t.id for n in ast.walk(fn) if isinstance(n, (ast.Assign, ast.AugAssign))
            for t in _targets(n) if isinstance(t, ast.Name)}
    for n in ast.walk(fn):
        if isinstance(n, (ast.Assign, ast.AugAssign)) and \
                not all(isinstance(t, ast.Name) for t in _targets(n)):
            return False
        if isinstance(n, (ast.Global, ast.Nonlocal, ast.Delete, ast.With, ast.While)):
            return False
    return all(_pure(n, locs, module, depth + 1) for n in ast.walk(fn) if isinstance(n, ast.Call))


def _pure(e, cand, module, depth=0):
    for n in ast.walk(e):
        if not isinstance(n, ast.Call):
            continue
        f = n.func
        src = u(f)
        if src in PURE_FUNCS:
            continue
        if isinstance(f, ast.Name) and f.id in module and _helper_pure(f.id, module, depth):
            continue
        if isinstance(f, ast.Attribute):
            if f.attr in PURE_METHODS:
                continue
            if f.attr in MUTATORS and isinstance(f.value, ast.Name) and f.value.id in cand:
                continue
        return False
    return True


def infer_labels(fn, label_params, module, real_sinks):
    """(label variables, ids of the label-only statements, ids of the attribute-assignment sinks)"""
    params = {a.arg for a in fn.args.args}
    assigned = set()
    for n in ast.walk(fn):
        if isinstance(n, (ast.Assign, ast.AugAssign)):
            for t in _targets(n):
                b = _base(t)
                if isinstance(b, ast.Name) and isinstance(t, ast.Name):
                    assigned.add(b.id)
        elif isinstance(n, ast.For):
            for t in ast.walk(n.target):
                if isinstance(t, ast.Name):
                    assigned.add(t.id)
    cand = (assigned - params) | set(label_params)
    labels, sinks = set(), set()

    def leaf(st):
        if isinstance(st, ast.Expr) and isinstance(st.value, ast.Constant):
            return True
        if isinstance(st, (ast.Assign, ast.AugAssign)):
            if _self_rename(st):
                return True
            tg = _targets(st)
            bases = [_base(t) for t in tg]
            if len(tg) == 1 and isinstance(tg[0], ast.Attribute) and tg[0].attr in ("columns", "index") \
                    and isinstance(bases[0], ast.Name) and bases[0].id not in cand:
                if id(st) in real_sinks:
                    return False
                if _pure(st.value, cand, module):
                    sinks.add(id(st))
                    return True
                return False
            return all(isinstance(b, ast.Name) and b.id in cand for b in bases) \
                and _pure(st.value, cand, module)
        if isinstance(st, ast.Expr) and isinstance(st.value, ast.Call) \
                and isinstance(st.value.func, ast.Attribute) and st.value.func.attr in MUTATORS \
                and isinstance(st.value.func.value, ast.Name) and st.value.func.value.id in cand:
            return _pure(st.value, cand, module)
        return False

    def label_only(st):
        if isinstance(st, ast.If):
            return all(label_only(x) for x in st.body + st.orelse) \
                and _pure(st.test, cand, module)
        if isinstance(st, ast.For):
            tn = [t.id for t in ast.walk(st.target) if isinstance(t, ast.Name)]
            return not st.orelse and all(t in cand for t in tn) \
                and all(label_only(x) for x in st.body) and _pure(st.iter, cand, module)
        return leaf(st)

    def real_uses(st, out, kill):
        """names used for real by st (which is not label-only), and label candidates it defines"""
        if label_only(st):
            return
        if isinstance(st, ast.If):
            out |= _sink_free_loads(st.test)
            for x in st.body + st.orelse:
                real_uses(x, out, kill)
        elif isinstance(st, ast.For):
            out |= _sink_free_loads(st.iter)
            kill |= {t.id for t in ast.walk(st.target) if isinstance(t, ast.Name)}
            for x in st.body:
                real_uses(x, out, kill)
        elif isinstance(st, ast.Try):
            for x in st.body + st.orelse + st.finalbody + [y for h in st.handlers for y in h.body]:
                real_uses(x, out, kill)
        elif isinstance(st, ast.Raise):
            pass                                   # exception arguments: a label sink
        elif isinstance(st, ast.Assert):
            out |= _sink_free_loads(st.test)       # the message: a label sink
        else:
            if isinstance(st, (ast.Assign, ast.AugAssign)):
                for t in _targets(st):
                    b = _base(t)
                    if isinstance(b, ast.Name):
                        kill.add(b.id)
                    if not isinstance(t, ast.Name):
                        out |= _sink_free_loads(t)
                out |= _sink_free_loads(st.value)
            else:
                out |= _sink_free_loads(st)
    while True:
        out, kill = set(), set()
        sinks.clear()
        for st in fn.body:
            real_uses(st, out, kill)
        new = cand - out - kill
        if new == cand:
            break
        cand = new
    sinks.clear()

    def collect(stmts):
        for st in stmts:
            if label_only(st) and not (isinstance(st, ast.Expr) and isinstance(st.value, ast.Constant)):
                labels.add(id(st))
            elif isinstance(st, (ast.If, ast.For, ast.Try)):
                collect(st.body + getattr(st, "orelse", []))
    collect(fn.body)
    return cand, labels, set(sinks)


class Fn:
    """Translates one function definition."""

    def __init__(self, node, cfg, notes):
        self.node = node
        self.cfg = cfg
        self.ignore = set()      # label variables (inferred by data flow, see infer_labels)
        self.label_stmts = set()
        self.sink_stmts = set()
        self.notes = notes
        self.mi_levels = {}      # python variable -> (role of level 0, role of level 1)
        self.mi_level_names = {}  # python variable -> (name of level 0, name of level 1)
        self.fresh = 0
        self.pending = []        # raising sub-expressions hoisted in front of the statement
        self.suffix = ""         # appended to the locals of an inlined helper (no capture)
        self.frames = []         # return frames of the helpers being inlined
        self.loop_k = []         # end-of-body continuations of the enclosing loops
        self.inlined = 0

    def lname(self, n):
        # locals are primed: no Python identifier contains a prime, so a local can never capture a
        # Coq global (`cell`, `name`, `frame`, ...) or a function parameter
        return n + "'" + self.suffix

    def raising(self):
        return self.frames[-1]["raising"] if self.frames else bool(self.cfg.get("raises"))

    # ------------------------------------------------------------------------------ expressions
    def expr(self, e, env):
        m = getattr(self, "e_" + type(e).__name__, None)
        need(m is not None, "expression kind " + type(e).__name__, e)
        return m(e, env)

    # function values: a lambda, operator.attrgetter / methodcaller, a module-level function used
    # as a value, a conditional expression of these.  Represented by the expression they build
    # from their arguments (substitution), translated where they are applied.
    @staticmethod
    def subst(node, mapping):
        import copy

        class S(ast.NodeTransformer):
            def visit_Name(self, n):
                return copy.deepcopy(mapping[n.id]) if n.id in mapping else n
        return S().visit(copy.deepcopy(node))

    def e_Lambda(self, e, env):
        a = e.args
        need(not a.vararg and not a.kwarg and not a.kwonlyargs and not a.defaults
             and not a.posonlyargs, "lambda signature", e)
        names = [x.arg for x in a.args]

        def make(args):
            need(len(args) == len(names), "lambda arity", e)
            return self.subst(e.body, dict(zip(names, args)))
        return None, ("fn", make)

    def fn_value(self, e, env):
        """the function value denoted by e, or None"""
        if isinstance(e, ast.Name) and e.id not in env and e.id in self.cfg.get("module", {}):
            name = e.id
            return lambda args: ast.Call(func=ast.Name(id=name, ctx=ast.Load()), args=list(args),
                                         keywords=[])
        try:
            t, ty = self.expr(e, env)
        except Unsupported:
            return None
        return ty[1] if isinstance(ty, tuple) and ty[0] == "fn" else None

    def e_Constant(self, e, env):
        v = e.value
        if isinstance(v, bool):
            return ("true" if v else "false"), ("static", v)
        if isinstance(v, int):
            return "%d%%nat" % v if v >= 0 else None, ("static", v)
        if v is None:
            return "None", ("static", None)
        if isinstance(v, str):
            return None, ("str", v)
        raise Unsupported("constant %r" % (v,))

    def e_Name(self, e, env):
        if e.id in env:
            return env[e.id]
        if e.id in self.cfg.get("consts", {}):      # a simple module-level constant: its value
            return self.expr(self.cfg["consts"][e.id], {})
        raise Unsupported("unbound name " + e.id)

    def val(self, e, env, allow_res=False):
        """expression as a run-time value: static ints / bools are materialised; a raising
        sub-expression is bound in front of the enclosing statement"""
        t, ty = self.expr(e, env)
        return self.finish(t, ty, e, allow_res)

    def finish(self, t, ty, e, allow_res=False):
        if is_res(ty) and not allow_res:
            need(self.raising() and self.pending is not None,
                 "raising call inside an expression", e)
            v = "r%d_" % self.fresh
            self.fresh += 1
            self.pending.append((v, t))
            return v, ty[1]
        if is_static(ty):
            v = ty[1]
            if isinstance(v, bool):
                return ("true" if v else "false"), "bool"
            if isinstance(v, int) and v >= 0:
                return "%d%%nat" % v, "nat"
            if v is None:
                return "None", "none"
            raise Unsupported("static value %r used at run time in %s" % (v, u(e)))
        return t, ty

    def e_Attribute(self, e, env):
        src = u(e)
        if src == "np.array":
            return "KArray", "kind"
        if src == "pd.Series":
            return "KSeries", "kind"
        t, ty = self.expr(e.value, env)
        a = e.attr
        if a == "shape":
            if ty == "arr3":
                return "(np_shape3 %s)" % t, ("tuple", ("nat", "nat", "nat"))
            if ty == "tab2":
                return "(np_shape2 %s)" % t, ("tuple", ("nat", "nat"))
            if ty in ("nested", "mi"):
                return t, ("shape_of", ty)
        if a == "ndim":
            if ty in ("arr3", "tab2", "nested", "mi"):
                return None, ("static", {"arr3": 3, "tab2": 2, "nested": 2, "mi": 2}[ty])
        if a == "values":
            if ty == "mi":
                return "(mi_values %s)" % t, "rows2"
            if ty == "bools":
                return t, "bools"
            if isinstance(ty, tuple) and ty[0] == "xs":
                return "(kser_xs_values %s %s %s)" % ty[1:], "arr1"
        if a == "columns":
            if ty == "mi":
                return "(mi_columns %s)" % t, "names"
            if ty == "dfb":
                return "(dfb_columns %s)" % t, "names"
            if ty == "nested":
                return "(n_cols %s)" % t, "names"
        if a == "index" and ty == "mi":
            return t, ("mi_index",)
        if a == "index" and ty == "nested":
            return t, ("nested_index",)
        if a == "names" and ty == ("nested_index",):
            return None, ("default_index_names",)
        if a == "index" and ty == "tblock":
            return "(block_index %s)" % t, "zlist"
        if a == "loc" and ty == "nested":
            return t, ("loc", "nested")
        if a == "iloc" and ty in ("tblock", "mi"):
            return t, ("iloc", ty)
        if a == "nlevels" and ty == ("mi_index",):
            return "(mi_nlevels %s)" % t, "nat"
        if a == "iloc" and ty == "nested":
            return t, ("iloc", "nested")
        raise Unsupported("attribute .%s of a value of type %r" % (a, ty), e)

    def e_Subscript(self, e, env):
        t, ty = self.expr(e.value, env)
        sl = e.slice
        if isinstance(ty, tuple) and ty[0] == "tuple" and isinstance(sl, ast.Constant) \
                and isinstance(sl.value, int) and 0 <= sl.value < len(ty[1]):
            k, n = sl.value, len(ty[1])
            proj = t
            for _ in range(n - 1 - k):
                proj = "(fst %s)" % proj
            if k > 0:
                proj = "(snd %s)" % proj
            return proj, ty[1][k]
        if isinstance(ty, tuple) and ty[0] == "shape_of" and isinstance(sl, ast.Constant) \
                and sl.value == 1:
            return "(%s_shape1 %s)" % (ty[1], t), "nat"
        if isinstance(sl, ast.Tuple):
            full = [isinstance(x, ast.Slice) and x.lower is None and x.upper is None
                    and x.step is None for x in sl.elts]
            if ty == "arr3" and full == [False, False, True]:
                a, b = self.nat(sl.elts[0], env), self.nat(sl.elts[1], env)
                return "(np_get3 %s %s %s)" % (t, a, b), "arr1"
            if ty == "tab2" and full == [False, True]:
                return "(np_get2 %s %s)" % (t, self.nat(sl.elts[0], env)), "arr1"
            if ty == ("iloc", "nested") and full == [True, False]:
                return t, ("nested_col", self.nat(sl.elts[1], env))
            if ty == ("iloc", "tblock") and full == [True, False]:
                return "(block_col %s %s)" % (t, self.nat(sl.elts[1], env)), "col1"
            if ty == ("iloc", "mi") and full == [True, False]:
                return t, ("mi_col", self.nat(sl.elts[1], env))
            if ty == ("loc", "nested") and full == [False, True]:
                i, ti = self.val(sl.elts[0], env)
                need(ti == "z", "row label of type %r" % (ti,), e)
                return t, ("locrow", i)
        raise Unsupported("subscript of a value of type %r" % (ty,), e)

    def nat(self, e, env):
        t, ty = self.val(e, env)
        need(ty == "nat", "expected an int, found %r" % (ty,), e)
        return t

    def boolean(self, e, env):
        t, ty = self.val(e, env)
        need(ty in ("bool", "kwargs"), "expected a bool, found %r" % (ty,), e)
        return t

    def e_UnaryOp(self, e, env):
        if isinstance(e.op, ast.Not):
            t, ty = self.expr(e.operand, env)
            if is_static(ty):
                return None, ("static", not ty[1])
            need(ty == "bool", "not of %r" % (ty,), e)
            return "(negb %s)" % t, "bool"
        if isinstance(e.op, ast.USub) and isinstance(e.operand, ast.Constant):
            return None, ("static", -e.operand.value)
        raise Unsupported("unary operator", e)

    def e_BoolOp(self, e, env):
        isand = isinstance(e.op, ast.And)
        v0 = e.values[0]
        if len(e.values) >= 2 and isinstance(v0, ast.Compare) and len(v0.ops) == 1 \
                and isinstance(v0.left, ast.Name) and v0.left.id in env \
                and env[v0.left.id][1] in ("onames", "olevel") \
                and isinstance(v0.ops[0], ast.IsNot if isand else ast.Is) \
                and isinstance(v0.comparators[0], ast.Constant) and v0.comparators[0].value is None \
                and any(isinstance(n, ast.Name) and n.id == v0.left.id
                        for w in e.values[1:] for n in ast.walk(w)):
            # the remaining operands are evaluated only when the argument is not None
            _, _, e_some, _, _ = self.branches(("none", v0.left.id, False), env)
            rest = e.values[1:]
            sub = ast.BoolOp(op=e.op, values=rest) if len(rest) > 1 else rest[0]
            t, ty = self.expr(sub, e_some)
            if is_static(ty):
                t, ty = self.finish(t, ty, e)
            need(ty == "bool", "boolean operator on %r" % (ty,), e)
            return "(match %s with Some %s => %s | None => %s end)" % (
                env[v0.left.id][0], self.lname(v0.left.id), t, "false" if isand else "true"), "bool"
        parts = [self.expr(v, env) for v in e.values]
        dyn = []
        for t, ty in parts:
            if is_static(ty):
                need(isinstance(ty[1], bool), "static non-bool in a boolean operator", e)
                if ty[1] != isand:          # False in `and`, True in `or`: decides the whole
                    return None, ("static", ty[1])
                continue
            need(ty == "bool", "boolean operator on %r" % (ty,), e)
            dyn.append(t)
        if not dyn:
            return None, ("static", isand)
        if len(dyn) == 1:
            return dyn[0], "bool"
        return "(" + (" && " if isand else " || ").join(dyn) + ")", "bool"

    def e_Compare(self, e, env):
        need(len(e.ops) == 1, "chained comparison", e)
        op, rhs = e.ops[0], e.comparators[0]
        if isinstance(op, (ast.Is, ast.IsNot)):
            need(isinstance(rhs, ast.Constant) and rhs.value is None, "`is` other than None", e)
            t, ty = self.expr(e.left, env)
            neg = isinstance(op, ast.IsNot)
            if ty in ("none",) or ty == ("static", None):
                return None, ("static", not neg)
            if ty in ("labels",):
                return None, ("static", neg)
            need(ty in ("onames", "olevel", "olabel"), "`is None` on a value of type %r" % (ty,), e)
            return ("(negb (is_none %s))" if neg else "(is_none %s)") % t, "bool"
        a, ta = self.expr(e.left, env)
        b, tb = self.expr(rhs, env)
        if isinstance(op, ast.In) and tb == ("default_index_names",) and ta in ("olabel", "name"):
            # the modelled nested frames have the default, unnamed RangeIndex: names == [None]
            return None, ("static", False)
        if is_static(ta) and is_static(tb):
            x, y = ta[1], tb[1]
            r = {ast.Eq: x == y, ast.NotEq: x != y}.get(type(op))
            need(r is not None, "static comparison", e)
            return None, ("static", r)
        a, ta = self.val(e.left, env)
        b, tb = self.val(rhs, env)
        if ta == "nat" and tb == "nat":
            tab = {ast.Eq: "(Nat.eqb %s %s)", ast.NotEq: "(negb (Nat.eqb %s %s))",
                   ast.Lt: "(Nat.ltb %s %s)", ast.LtE: "(Nat.leb %s %s)"}
            if type(op) in tab:
                return tab[type(op)] % (a, b), "bool"
            if isinstance(op, ast.Gt):
                return "(Nat.ltb %s %s)" % (b, a), "bool"
            if isinstance(op, ast.GtE):
                return "(Nat.leb %s %s)" % (b, a), "bool"
        if ta == "names" and tb == "names" and isinstance(op, ast.Eq):
            return "(names_eqb %s %s)" % (a, b), ("eqmask",)
        raise Unsupported("comparison of %r and %r" % (ta, tb), e)

    def e_IfExp(self, e, env):
        f1, f2 = self.fn_value(e.body, env), self.fn_value(e.orelse, env)
        if f1 and f2:
            test = e.test
            return None, ("fn", lambda args: ast.IfExp(test=test, body=f1(args), orelse=f2(args)))
        cnd = self.cond(e.test, env)
        if cnd[0] == "none":
            h1, h2, e1, e2, end = self.branches(cnd, env)
            a, ta = self.val(e.body, e1)
            b, tb = self.val(e.orelse, e2)
            need(ta == tb, "conditional expression of types %r / %r" % (ta, tb), e)
            return "(%s %s %s %s%s)" % (h1, a, h2, b, end), ta
        c, tc = self.expr(e.test, env)
        if is_static(tc):
            return self.expr(e.body if tc[1] else e.orelse, env)
        need(tc == "bool", "conditional expression test", e)
        a, ta = self.val(e.body, env)
        b, tb = self.val(e.orelse, env)
        if {ta, tb} == {"arr1", "ser1"}:         # either kind of 1-D container: a cell
            a = "(mk_cell %s %s)" % ("KArray" if ta == "arr1" else "KSeries", a)
            b = "(mk_cell %s %s)" % ("KArray" if tb == "arr1" else "KSeries", b)
            ta = tb = "ncell"
        if {ta, tb} == {"ncell", "ser1"}:        # a cell known to be a Series, used as a Series
            a = a if ta == "ser1" else "(cell_values %s)" % a
            b = b if tb == "ser1" else "(cell_values %s)" % b
            ta = tb = "ser1"
        need(ta == tb, "conditional expression of types %r / %r" % (ta, tb), e)
        return "(if %s then %s else %s)" % (c, a, b), ta

    def fmt_term(self, text, arg, env, e):
        i = self.nat(arg, env)
        codes = "; ".join(str(ord(ch)) for ch in text)
        return "(fstr [%s] %s)" % (codes, i), "name"

    def e_BinOp(self, e, env):
        if isinstance(e.op, ast.Mod) and isinstance(e.left, ast.Constant) \
                and isinstance(e.left.value, str) and e.left.value[-2:] in ("%d", "%s", "%i") \
                and "%" not in e.left.value[:-2] and not isinstance(e.right, ast.Tuple):
            return self.fmt_term(e.left.value[:-2], e.right, env, e)
        if isinstance(e.op, ast.Mult):
            a, ta = self.val(e.left, env)
            if ta == "names" and isinstance(e.left, ast.List) and len(e.left.elts) == 1:
                lab = self.val(e.left.elts[0], env)[0]
                return "(repeat %s %s)" % (lab, self.nat(e.right, env)), "names"
        raise Unsupported("binary operator", e)

    def e_Dict(self, e, env):
        keys = []
        for k, v in zip(e.keys, e.values):
            need(isinstance(k, ast.Constant) and isinstance(k.value, str), "dict key", e)
            self.expr(v, env)       # must be a known value
            keys.append(k.value)
        need(keys in ([], ["index"]), "keyword dict other than {} / {'index': ...}", e)
        return ("true" if keys else "false"), "kwargs"

    def e_JoinedStr(self, e, env):
        need(len(e.values) == 2 and isinstance(e.values[0], ast.Constant)
             and isinstance(e.values[1], ast.FormattedValue)
             and e.values[1].conversion == -1 and e.values[1].format_spec is None,
             "f-string other than f'<text>{int}'", e)
        return self.fmt_term(e.values[0].value, e.values[1].value, env, e)

    def e_Tuple(self, e, env):
        parts = [self.val(x, env) for x in e.elts]
        need(len(parts) >= 2 and all(t is not None for t, _ in parts), "tuple of deferred values", e)
        for _, ty in parts:
            coqty(ty)
        return "(%s)" % ", ".join(t for t, _ in parts), ("tuple", tuple(ty for _, ty in parts))

    def e_List(self, e, env):
        if len(e.elts) == 1 and isinstance(e.elts[0], ast.Starred):
            return self.expr(e.elts[0].value, env)
        if not e.elts:
            return "[]", ("list", "?")
        parts = [self.val(x, env) for x in e.elts]
        if len(parts) == 1 and parts[0][1] == "z":
            return "[%s]" % parts[0][0], "zlist"
        if len(parts) == 1 and parts[0][1] == "name":
            return "[%s]" % parts[0][0], "names"
        if len(parts) == 2 and [ty for _, ty in parts] == ["zlist", "zlist"]:
            return None, ("zlists", parts[0][0], parts[1][0])
        if parts and all(ty == ("role_v",) or (isinstance(ty, tuple) and ty[0] == "role")
                         for _, ty in parts):
            return None, ("roles", tuple(ty[1] for _, ty in parts))
        raise Unsupported("list literal", e)

    def bind_target(self, tgt, ty, env):
        """pattern text and extended env for a loop / comprehension target of element type ty"""
        env = dict(env)
        if isinstance(tgt, ast.Name):
            env[tgt.id] = (self.lname(tgt.id), ty)
            return self.lname(tgt.id), env
        if isinstance(tgt, ast.Tuple) and isinstance(ty, tuple) and ty[0] == "tuple" \
                and len(tgt.elts) == len(ty[1]) and all(isinstance(x, ast.Name) for x in tgt.elts):
            for x, t in zip(tgt.elts, ty[1]):
                env[x.id] = (self.lname(x.id), t)
            return "'(%s)" % ", ".join(self.lname(x.id) for x in tgt.elts), env
        raise Unsupported("loop target %s over elements of type %r" % (u(tgt), ty))

    def iterable(self, e, env):
        t, ty = self.val(e, env)
        if ty == "zlist":
            return t, "z"
        if ty == "names":
            return t, "name"
        if ty == "bools":
            return t, "bool"
        if isinstance(ty, tuple) and ty[0] == "list":
            return t, ty[1]
        raise Unsupported("iteration over a value of type %r" % (ty,), e)

    def e_GeneratorExp(self, e, env):
        need(len(e.generators) == 1 and not e.generators[0].ifs
             and not e.generators[0].is_async, "generator shape", e)
        g = e.generators[0]
        it, ety = self.iterable(g.iter, env)
        pat, env2 = self.bind_target(g.target, ety, env)
        saved, self.pending = self.pending, None
        b, tb = self.expr(e.elt, env2)
        self.pending = saved
        need(not is_res(tb), "raising generator element", e)
        return None, ("gen", pat, it, b, tb)

    def e_ListComp(self, e, env):
        need(len(e.generators) == 1 and not e.generators[0].ifs
             and not e.generators[0].is_async, "comprehension shape", e)
        g = e.generators[0]
        gt = self.expr(g.iter, env)[1] if isinstance(g.iter, ast.Name) else None
        if isinstance(gt, tuple) and gt[0] == "gen":
            # [f(s) for s in (h(i) for i in it)]  ==  [f(h(i)) for i in it]; a generator is
            # exhausted by its first consumer
            need(isinstance(g.target, ast.Name), "target of a comprehension over a generator", e)
            if len(gt) == 5:
                env[g.iter.id] = (None, ("consumed generator",))
            pat, it, gb, gtb = gt[1:5]
            env2 = dict(env)
            env2[g.target.id] = (gb, gtb)
        else:
            it, ety = self.iterable(g.iter, env)
            pat, env2 = self.bind_target(g.target, ety, env)
        saved, self.pending = self.pending, None      # nothing may be hoisted out of the body
        b, tb = self.val(e.elt, env2, allow_res=True)
        self.pending = saved
        if b is None and isinstance(tb, tuple) and not is_res(tb) and not is_static(tb):
            return None, ("gen", pat, it, b, tb, "list")
        if is_res(tb):
            return "(rmapM (fun %s => %s) %s)" % (pat, b, it), ("res", ("list", tb[1]))
        return "(map (fun %s => %s) %s)" % (pat, b, it), lty(tb)

    # coercions between the typed views of the same Python object
    def coerce(self, t, ty, want, what):
        if ty == want:
            return t
        if want == "frame" and ty == "nested":
            return "(frame_of_nested %s)" % t
        if want == "nested" and ty == "dfb":
            return "(df_finish %s)" % t
        if want == "ncells":
            if ty == ("list", "ncell"):
                return t
            if ty == ("list", "arr1"):
                return "(map (mk_cell KArray) %s)" % t
            if ty == ("list", "ser1"):
                return "(map (mk_cell KSeries) %s)" % t
        if want == "names" and ty == ("list", "name"):
            return t
        if want == "bools" and ty == ("list", "bool"):
            return t
        if want == "onames" and ty == "none":
            return "None"
        if want in ("olevel", "olabel") and ty == "none":
            return "None"
        if want == "olabel" and isinstance(ty, tuple) and ty[0] == "str":
            return "(Some (NStr [%s]))" % "; ".join(str(ord(ch)) for ch in ty[1])
        if want == "labels" and (ty in ("labels", "none") or
                                 (isinstance(ty, tuple) and ty[0] == "str")):
            return None
        raise Unsupported("%s: expected %r, found %r" % (what, want, ty))

    def call_args(self, call, names):
        """positional + keyword arguments of a call as a dict over the given parameter names"""
        need(len(call.args) <= len(names), "too many arguments", call)
        out = {}
        for n, a in zip(names, call.args):
            need(not isinstance(a, ast.Starred), "starred argument", call)
            out[n] = a
        for kw in call.keywords:
            need(kw.arg is not None and kw.arg in names and kw.arg not in out,
                 "keyword argument %s" % kw.arg, call)
            out[kw.arg] = kw.value
        return out

    def e_Call(self, e, env):
        f = e.func
        src = u(f)
        # --- translated functions of the same module
        if isinstance(f, ast.Name) and f.id in BY_PY:
            return self.call_translated(e, BY_PY[f.id], env)
        if isinstance(f, ast.Name) and f.id in self.cfg.get("module", {}) and f.id not in env:
            return self.inline(e, self.cfg["module"][f.id], env)
        # --- container(...) : np.array / pd.Series chosen at run time
        if isinstance(f, ast.Name) and f.id in env and env[f.id][1] == "kind":
            need(len(e.args) == 1, "container call arity", e)
            a, ta = self.val(e.args[0], env)
            need(ta == "arr1", "container of %r" % (ta,), e)
            if not e.keywords:
                return "(mk_cell %s %s)" % (env[f.id][0], a), "ncell"
            need(len(e.keywords) == 1 and e.keywords[0].arg is None, "container keywords", e)
            k, tk = self.val(e.keywords[0].value, env)
            need(tk == "kwargs", "**%r" % (tk,), e)
            return "(call_container %s %s %s)" % (env[f.id][0], k, a), ("res", "ncell")
        if src in ("attrgetter", "operator.attrgetter"):
            need(len(e.args) == 1 and not e.keywords and isinstance(e.args[0], ast.Constant)
                 and isinstance(e.args[0].value, str) and "." not in e.args[0].value,
                 "attrgetter arguments", e)
            attr = e.args[0].value
            return None, ("fn", lambda args: ast.Attribute(value=args[0], attr=attr, ctx=ast.Load()))
        if src in ("methodcaller", "operator.methodcaller"):
            need(e.args and isinstance(e.args[0], ast.Constant)
                 and isinstance(e.args[0].value, str), "methodcaller arguments", e)
            meth, margs, mkw = e.args[0].value, e.args[1:], e.keywords
            return None, ("fn", lambda args: ast.Call(
                func=ast.Attribute(value=args[0], attr=meth, ctx=ast.Load()),
                args=list(margs), keywords=list(mkw)))
        if isinstance(f, ast.Name) and f.id in env and isinstance(env[f.id][1], tuple) \
                and env[f.id][1][0] == "fn":
            need(not e.keywords, "keywords in the call of a function value", e)
            return self.expr(env[f.id][1][1](list(e.args)), env)
        if src in ("all", "any") and len(e.args) == 1 and not e.keywords:
            t, ty = self.val(e.args[0], env)
            need(ty in ("bools", ("list", "bool")), "%s of %r" % (src, ty), e)
            return "(bools_%s %s)" % (src, t), "bool"
        if src == "zip" and len(e.args) == 2 and not e.keywords:
            a, ea = self.iterable(e.args[0], env)
            b, eb = self.iterable(e.args[1], env)
            return "(combine %s %s)" % (a, b), ("list", ("tuple", (ea, eb)))
        if src == "list" and not e.args and not e.keywords:
            return "[]", ("list", "?")
        if src == "range":
            need(len(e.args) == 1 and not e.keywords, "range arity", e)
            return "(py_range %s)" % self.nat(e.args[0], env), ("list", "nat")
        if src == "enumerate":
            need(len(e.args) == 1 and not e.keywords, "enumerate arity", e)
            it, ety = self.iterable(e.args[0], env)
            return "(py_enumerate %s)" % it, ("list", ("tuple", ("nat", ety)))
        if src == "len":
            need(len(e.args) == 1 and not e.keywords, "len arity", e)
            t, ty = self.val(e.args[0], env)
            need(ty in ("names", "bools", "zlist", "ncells", "idframe", "keys") or
                 (isinstance(ty, tuple) and ty[0] == "list"), "len of %r" % (ty,), e)
            return "(length %s)" % t, "nat"
        if src == "isinstance":
            return self.isinstance_(e, env)
        if src == "np.arange":
            need(len(e.args) == 1, "np.arange arity", e)
            self.nat(e.args[0], env)
            return None, "labels"
        if src in ("np.stack", "np.hstack"):
            need(len(e.args) == 1 and not e.keywords, src + " arity", e)
            t, ty = self.val(e.args[0], env)
            if src == "np.stack" and ty == ("list", "ncell"):
                return "(map cell_values %s)" % t, "rows2"      # 1-D arrays -> 2-D
            if src == "np.stack" and ty == ("list", "rows2"):
                return t, "arr3"                                  # 2-D arrays -> 3-D
            if src == "np.hstack" and ty == ("list", "rows2"):
                return "(np_hstack %s)" % t, "tab2"
            raise Unsupported("%s of %r" % (src, ty), e)
        if src == "pd.DataFrame":
            if not e.args and not e.keywords:
                return "pd_DataFrame_empty", "dfb"
            if len(e.args) == 1 and isinstance(e.args[0], ast.Dict) \
                    and [k.arg for k in e.keywords] == ["index"]:
                d = e.args[0]
                need(len(d.keys) == 1 and isinstance(d.keys[0], ast.Constant), "DataFrame dict", e)
                v, tv = self.val(d.values[0], env)
                i, ti = self.val(e.keywords[0].value, env)
                need(tv == "flat" and isinstance(ti, tuple) and ti[0] == "index3",
                     "DataFrame({..: %r}, index=%r)" % (tv, ti), e)
                return "(mk_series3 %s %s)" % (i, v), ("series3", ti[1])
            need(len(e.args) == 1 and not e.keywords, "pd.DataFrame arguments", e)
            t, ty = self.val(e.args[0], env)
            if ty in ("dfb", "tab2"):
                return t, ty
            if ty == "ncells":
                return "(df_of_cells %s)" % t, "dfb"
            raise Unsupported("pd.DataFrame of %r" % (ty,), e)
        if src == "pd.Series":
            need(len(e.args) == 1, "pd.Series arguments", e)
            kws = sorted(k.arg or "**" for k in e.keywords)
            t, ty = self.val(e.args[0], env)
            if ty == "ncell" and kws == ["name"]:        # a Series from an ndarray cell
                return "(cell_values %s)" % t, "ser1"
            if ty == "names" and kws == ["dtype"] and u(e.keywords[0].value) == "object":
                return t, "names"
            need(not kws, "pd.Series keywords", e)
            return self.coerce(t, ty, "ncells", "pd.Series(...)"), "ncells"
        if src == "pd.concat":
            need(len(e.args) == 1, "pd.concat arguments", e)
            kws = {k.arg: k.value for k in e.keywords}
            t, ty = self.val(e.args[0], env)
            if ty in (("list", "ser1"), "ncells") and list(kws) == ["axis"] \
                    and self.expr(kws["axis"], env)[1] == ("static", 1):
                if ty == "ncells":
                    t = "(map cell_values %s)" % t
                return "(pd_concat_axis1 %s)" % t, "tblock"
            if ty == ("list", "kblock") and not kws:
                return "(pd_concat_rows %s)" % t, "kblock"
            if ty == ("list", "long") and list(kws) == ["ignore_index"] \
                    and self.expr(kws["ignore_index"], env)[1] == ("static", True):
                return "(long_concat %s)" % t, "long"
            raise Unsupported("pd.concat of %r" % (ty,), e)
        if src == "pd.MultiIndex.from_product":
            need(len(e.args) == 1 and [k.arg for k in e.keywords] == ["names"], "from_product", e)
            lst = e.args[0]
            if isinstance(lst, ast.List) and len(lst.elts) == 3:
                parts = [self.val(x, env) for x in lst.elts]
                need(all(ty == ("list", "nat") for _, ty in parts), "from_product levels", e)
                nm = e.keywords[0].value
                need(isinstance(nm, ast.List) and len(nm.elts) == 3
                     and all(isinstance(x, ast.Constant) and isinstance(x.value, str)
                             for x in nm.elts), "from_product names", e)
                names = tuple(x.value for x in nm.elts)
                need(len(set(names)) == 3, "from_product names", e)
                return "(mi_from_product3 %s %s %s)" % tuple(t for t, _ in parts), ("index3", names)
            lv = self.expr(lst, env)[1]
            need(isinstance(lv, tuple) and lv[0] == "zlists", "from_product levels", e)
            nm = e.keywords[0].value
            need((isinstance(nm, ast.Name) and nm.id in self.ignore) or
                 (isinstance(nm, ast.List) and all(isinstance(x, ast.Name) and x.id in self.ignore
                                                   for x in nm.elts)), "from_product names", e)
            return "(mi_from_product2 %s %s)" % lv[1:], "keys"
        if isinstance(f, ast.Attribute):
            return self.method(e, env)
        raise Unsupported("call of " + src, e)

    def inline(self, e, fn, env):
        try:
            return self.inline1(e, fn, env, False)
        except Cellify:
            return self.inline1(e, fn, env, True)

    def inline1(self, e, fn, env, cellify):
        """a call of another function of the module: its body, translated in place with the
        parameters bound to the (translated) arguments; locals get a fresh suffix"""
        need(len(self.frames) < 4, "helper calls nested too deeply", e)
        a = fn.args
        need(not a.vararg and not a.kwarg and not a.kwonlyargs and not a.posonlyargs,
             "signature of helper " + fn.name, e)
        pnames = [x.arg for x in a.args]
        args = self.call_args(e, pnames)
        defaults = dict(zip(pnames[len(pnames) - len(a.defaults):], a.defaults))
        env2 = {}
        for p_ in pnames:
            if p_ in args:
                t0, ty0 = self.expr(args[p_], env)
                env2[p_] = (t0, ty0) if is_static(ty0) else self.finish(t0, ty0, args[p_])
            else:
                need(p_ in defaults, "missing argument %s of %s" % (p_, fn.name), e)
                env2[p_] = self.expr(defaults[p_], {})
        self.inlined += 1
        frame = {"raising": self.has_raise(fn.body), "type": None, "name": fn.name,
                 "cellify": cellify}
        need(not frame["raising"] or self.raising(), "raising helper in a total function", e)
        saved = (self.suffix, self.ignore, self.pending, self.label_stmts, self.sink_stmts)
        lab = [p_ for p_ in pnames if env2[p_][1] == "labels"]
        ign, lst, _sk = infer_labels(fn, lab, self.cfg.get("module", {}), {
            id(n) for n in ast.walk(fn) if isinstance(n, ast.Assign)})
        self.suffix, self.ignore, self.pending = "_h%d" % self.inlined, ign, []
        self.label_stmts, self.sink_stmts = self.label_stmts | lst, set()
        self.frames.append(frame)

        def fell_off(_env):
            raise Unsupported("helper %s can fall off its end" % fn.name)
        try:
            text = self.seq(list(fn.body), env2, fell_off, 0)
        finally:
            self.frames.pop()
            self.suffix, self.ignore, self.pending, self.label_stmts, self.sink_stmts = saved
        need(frame["type"] is not None, "helper %s returns nothing" % fn.name, e)
        text = "(%s)" % " ".join(text.split())
        return text, (("res", frame["type"]) if frame["raising"] else frame["type"])

    def isinstance_(self, e, env):
        need(len(e.args) == 2 and not e.keywords, "isinstance arity", e)
        t, ty = self.expr(e.args[0], env)
        a1 = e.args[1]
        if isinstance(a1, ast.Name) and a1.id not in env and a1.id in self.cfg.get("consts", {}):
            a1 = self.cfg["consts"][a1.id]          # module-level constant tuple of types
        tys = a1.elts if isinstance(a1, ast.Tuple) else [a1]
        names = [u(x) for x in tys]
        known = {"pd.Series": "TySeries", "np.ndarray": "TyNdarray", "pd.DataFrame": "TyDataFrame"}
        need(all(n in known for n in names), "isinstance against " + ", ".join(names), e)
        if ty == "cell":
            return "(isinstance_cell %s [%s])" % (t, "; ".join(known[n] for n in names)), "bool"
        if ty == "ncell" and names == ["pd.Series"]:
            return "(cell_is_series %s)" % t, "bool"
        python_type = {"frame": "pd.DataFrame", "nested": "pd.DataFrame", "mi": "pd.DataFrame",
                       "arr3": "np.ndarray", "tab2": "np.ndarray"}.get(ty)
        need(python_type is not None, "isinstance of a value of type %r" % (ty,), e)
        return None, ("static", python_type in names)

    def call_translated(self, e, cfg, env):
        pnames = [p for p, _ in cfg["params"]]
        args = self.call_args(e, pnames)
        fn_node = cfg["node"]
        defaults = dict(zip([a.arg for a in fn_node.args.args][-len(fn_node.args.defaults):]
                            if fn_node.args.defaults else [], fn_node.args.defaults))
        out = []
        mi_arg_levels = mi_arg_names = None
        for p, pty in cfg["params"]:
            node = args.get(p, defaults.get(p))
            need(node is not None, "missing argument %s of %s" % (p, cfg["py"]), e)
            t, ty = self.val(node, env)
            if pty == "mi" and isinstance(node, ast.Name):
                mi_arg_levels = self.mi_levels.get(node.id)
                mi_arg_names = self.mi_level_names.get(node.id)
            if pty == "labels":
                self.coerce(t, ty, "labels", "argument %s of %s" % (p, cfg["py"]))
                continue
            if pty == "olevel" and isinstance(ty, tuple) and ty[0] == "str":
                need(mi_arg_names is not None and ty[1] in mi_arg_names,
                     "cannot resolve index level named %r" % (ty[1],), e)
                out.append("(Some %d%%nat)" % mi_arg_names.index(ty[1]))
                continue
            if pty == "none":
                need(ty == "none", "argument %s of %s is modelled as None only" % (p, cfg["py"]), e)
                continue
            if isinstance(pty, tuple) and pty[0] == "role":
                need(ty == pty, "column role of argument %s" % p, e)
                continue
            if pty == "olevel" and isinstance(ty, tuple) and ty[0] == "role":
                need(mi_arg_levels is not None and ty[1] in mi_arg_levels,
                     "cannot resolve index level named by %s" % u(node), e)
                out.append("(Some %d%%nat)" % mi_arg_levels.index(ty[1]))
                continue
            out.append(self.coerce(t, ty, pty, "argument %s of %s" % (p, cfg["py"])))
        text = "(%s %s)" % (cfg["coq"], " ".join(out))
        rty = cfg["ret"]
        if cfg["py"] == "from_nested_to_multi_index":
            # level names of the result: the given names, else the callee's defaults
            dflt = default_level_names(fn_node)
            given = []
            for k, p in enumerate(("instance_index", "time_index")):
                node = args.get(p, defaults.get(p))
                if isinstance(node, ast.Constant) and isinstance(node.value, str):
                    given.append(node.value)
                elif isinstance(node, ast.Constant) and node.value is None:
                    given.append(dflt[k])
                else:
                    given.append(None)
            rty = ("mi_names", tuple(given))
        return text, (("res", rty) if cfg.get("raises") else rty)

    def method(self, e, env):
        f = e.func
        t, ty = self.expr(f.value, env)
        m = f.attr
        A = e.args
        kw = {k.arg: k.value for k in e.keywords}
        need(None not in kw, "** in a method call", e)
        if m == "format" and isinstance(ty, tuple) and ty[0] == "str" and len(A) == 1 and not kw \
                and ty[1].endswith("{}") and "{" not in ty[1][:-2]:
            return self.fmt_term(ty[1][:-2], A[0], env, e)
        if m in METHOD_SIG and not (m == "count" and ty == "bools"):
            # positional and keyword forms of the same call are the same call
            sig, npos = METHOD_SIG[m]
            need(len(A) <= len(sig) and all(k in sig for k in kw), "arguments of ." + m, e)
            bound = dict(zip(sig, A))
            need(not (set(bound) & set(kw)), "argument given twice to ." + m, e)
            bound.update(kw)
            A = [bound.pop(n) for n in sig[:npos] if n in bound]
            kw = bound
        if m == "reshape" and ty == "arr3" and not kw and len(A) == 2:
            a = self.nat(A[0], env)
            need(self.expr(A[1], env)[1] == ("static", -1), "reshape(n, -1) expected", e)
            return "(np_reshape_rows %s (np_ravel3 %s))" % (a, t), "tab2"
        if m == "reshape" and ty == "rows2" and not kw and len(A) == 3:
            a, b, c = (self.nat(x, env) for x in A)
            return "(np_reshape3 %s %s %s (np_ravel2 %s))" % (a, b, c, t), "arr3"
        if m == "flatten" and ty == "arr3" and not A and not kw:
            return "(np_ravel3 %s)" % t, "flat"
        if m == "unstack" and isinstance(ty, tuple) and ty[0] == "series3" and not A \
                and list(kw) == ["level"]:
            lv = self.expr(kw["level"], env)[1]
            need(isinstance(lv, tuple) and lv[0] == "str" and lv[1] in ty[1], "unstack level", e)
            return "(unstack3 %d%%nat %s)" % (ty[1].index(lv[1]), t), "mi"
        if m == "swapaxes" and ty == "arr3" and not kw and len(A) == 2:
            return "(np_swapaxes3 %s %s %s)" % (self.nat(A[0], env), self.nat(A[1], env), t), "arr3"
        if m == "groupby" and ty == "mi" and not A and list(kw) == ["level"]:
            return "(mi_level_unique %s %s)" % (t, self.level(kw["level"], env)), "zlist"
        if m == "get_level_values" and ty == ("mi_index",) and len(A) == 1 and not kw:
            return t, ("levelvals", t, self.level(A[0], env))
        if m == "unique" and isinstance(ty, tuple) and ty[0] == "levelvals" and not A and not kw:
            return "(mi_level_unique %s %s)" % ty[1:], "zlist"
        if m == "iteritems" and ty == "mi" and not A and not kw:
            return "(mi_items %s)" % t, ("list", ("tuple", ("name", "kser")))
        if m == "xs" and ty == "kser" and len(A) == 1 and list(kw) == ["level"]:
            lab, tl = self.val(A[0], env)
            need(tl == "z", "xs label of type %r" % (tl,), e)
            return None, ("xs", t, lab, self.level(kw["level"], env))
        if m == "rename_axis" and isinstance(ty, tuple) and ty[0] == "xs" and len(A) == 1 \
                and not kw and self.expr(A[0], env)[1] == ("static", None):
            return "(kser_xs_values %s %s %s)" % ty[1:], "ser1"
        if m in ("applymap", "apply") and len(A) == 1 and ty in ("frame", "nested", "cellrows"):
            fv = self.fn_value(A[0], env)
            need(fv is not None, "function argument of ." + m, e)
            self.fresh += 1
            x = "x%d_" % self.fresh
            elt = {"frame": "cell", "nested": "ncell", "cellrows": ("list", "ncell")}[ty]
            need((m == "applymap" and not kw and ty != "cellrows") or
                 (m == "apply" and ty == "cellrows" and list(kw) == ["axis"]
                  and self.expr(kw["axis"], env)[1] == ("static", 1)), "arguments of ." + m, e)
            env2 = dict(env)
            env2[x] = (x, elt)
            saved, self.pending = self.pending, None
            b, tb = self.val(fv([ast.Name(id=x, ctx=ast.Load())]), env2)
            self.pending = saved
            if ty == "frame":
                need(tb == "bool", "applymap of a %r-valued function on a frame" % (tb,), e)
                return "(frame_applymap (fun %s => %s) %s)" % (x, b, t), "boolframe"
            if ty == "nested":
                need(tb == "ncell", "applymap of a %r-valued function" % (tb,), e)
                return "(map (map (fun %s => %s)) (nested_cells %s))" % (x, b, t), "cellrows"
            return "(map (fun %s => %s) %s)" % (x, b, t), ("list", tb)
        if m == "to_numpy" and not A and not kw:
            if isinstance(ty, tuple) and ty[0] == "list":
                return t, ty                    # Series of arrays -> object array of arrays
            if ty == "ncell":
                return "(cell_to_numpy %s)" % t, "ncell"
            if ty == "tab2":
                return t, "tab2"
        if m == "any" and not A and not kw:
            if ty == "boolframe":
                return "(bf_any %s)" % t, "bools"
            if ty == "bools":
                return "(bools_any %s)" % t, "bool"
        if m == "all" and not A and not kw and ty == ("eqmask",):
            return t, "bool"
        if m == "count" and ty == "bools" and len(A) == 1 and not kw \
                and self.expr(A[0], env)[1] == ("static", True):
            return "(count_true %s)" % t, "nat"
        if m == "tolist" and isinstance(ty, tuple) and ty[0] == "nested_col" and not A and not kw:
            return "(nested_col_tolist %s %s)" % (t, ty[1]), "rows2"
        if m == "get_level_values" and ty == ("nested_index",) and len(A) == 1 and not kw:
            a0 = self.expr(A[0], env)[1]
            need(a0 == ("static", -1) or a0 in ("olabel", "name"), "level of a nested frame", e)
            return t, ("nlevelvals",)
        if m == "unique" and ty == ("nlevelvals",) and not A and not kw:
            return "(nested_index_unique %s)" % t, "zlist"
        if m == "iteritems" and isinstance(ty, tuple) and ty[0] == "locrow" and not A and not kw:
            return "(nested_loc_row_items %s %s)" % (t, ty[1]), ("list", ("tuple", ("name", "ncell")))
        if m == "ffill" and ty == "col1" and not A and not kw:
            return "(col_ffill %s)" % t, "col1"
        if m == "to_frame" and ty == ("mi_index",) and not A and list(kw) == ["index"] \
                and self.expr(kw["index"], env)[1] == ("static", False):
            return "(mi_index_frame %s)" % t, "idframe"
        if m == "to_numpy" and isinstance(ty, tuple) and ty[0] == "mi_col" and not A and not kw:
            return "(mi_col_values %s %s)" % (t, ty[1]), "arr1"
        if m == "assign" and ty == "idframe" and not A and list(kw) == ["column", "value"]:
            lab, tl = self.val(kw["column"], env)
            v, tv = self.val(kw["value"], env)
            need(tl == "names" and tv == "arr1", "assign(column=%r, value=%r)" % (tl, tv), e)
            return "(ids_assign %s %s %s)" % (t, lab, v), "long"
        if m == "pivot" and ty == "long" and not A and sorted(kw) == ["columns", "index", "values"]:
            idx = self.expr(kw["index"], env)[1]
            need(isinstance(idx, tuple) and idx[0] == "roles" and len(idx[1]) == 2
                 and set(idx[1]) <= {0, 1}, "pivot index", e)
            need(self.expr(kw["columns"], env)[1] == ("role", 2), "pivot columns", e)
            need(self.expr(kw["values"], env)[1] == ("role", 3), "pivot values", e)
            return "(long_pivot_by %d%%nat %d%%nat %s)" % (idx[1][0], idx[1][1], t), \
                ("mi_levels", idx[1])
        raise Unsupported("method .%s on a value of type %r" % (m, ty), e)

    def level(self, e, env):
        t, ty = self.val(e, env)
        if ty == "olevel":
            return "(opt_get %s)" % t
        if ty == "nat":
            return t
        raise Unsupported("index level given by a value of type %r" % (ty,), e)

    # ------------------------------------------------------------------------------ statements
    def assigned(self, stmts):
        out = []

        def add(n):
            if n not in out:
                out.append(n)
        for st in stmts:
            if isinstance(st, (ast.Assign, ast.AugAssign)):
                for tg in (st.targets if isinstance(st, ast.Assign) else [st.target]):
                    for x in ([tg] if not isinstance(tg, ast.Tuple) else tg.elts):
                        while isinstance(x, (ast.Subscript, ast.Attribute)):
                            x = x.value
                        need(isinstance(x, ast.Name), "assignment target", st)
                        add(x.id)
            elif isinstance(st, ast.If):
                for n in self.assigned(st.body) + self.assigned(st.orelse):
                    add(n)
            elif isinstance(st, ast.For):
                for n in self.assigned(st.body):
                    add(n)
            elif isinstance(st, ast.Try):
                for n in self.assigned(st.body):
                    add(n)
            elif isinstance(st, ast.Expr) and isinstance(st.value, ast.Call) \
                    and isinstance(st.value.func, ast.Attribute) \
                    and isinstance(st.value.func.value, ast.Name):
                add(st.value.func.value.id)
        return out

    def has_raise(self, stmts):
        """a raise / assert, a call of a translated function that may raise, or container(**kw)"""
        for st in stmts:
            for n in ast.walk(st):
                if isinstance(n, (ast.Raise, ast.Assert)):
                    return True
                if isinstance(n, ast.Call):
                    if isinstance(n.func, ast.Name) and BY_PY.get(n.func.id, {}).get("raises"):
                        return True
                    if any(k.arg is None for k in n.keywords):
                        return True
        return False

    def terminal(self, stmts):
        if not stmts:
            return False
        last = stmts[-1]
        if isinstance(last, (ast.Return, ast.Raise, ast.Continue)):
            return True
        if isinstance(last, ast.If) and last.orelse:
            return self.terminal(last.body) and self.terminal(last.orelse)
        return False

    def only_ignored(self, st, env):
        """a statement that only computes labels (infer_labels); a relabelling
        `x = x.rename(columns=...)` inside it must be of a long table / multi-index frame"""
        if id(st) not in self.label_stmts:
            return False
        for n in ast.walk(st):
            if id(n) in self.sink_stmts:
                b = _base(n.targets[0])
                if env.get(b.id, (None, None))[1] != "tab2":
                    raise Retry(id(n))   # assumed to be a label sink, but the frame is modelled
            r = _self_rename(n) if isinstance(n, ast.Assign) else None
            if r:
                need(r[0] in env and (env[r[0]][1], r[1]) in (("long", "rename"), ("mi", "rename_axis")),
                     "relabelling of a value of type %r" % (env.get(r[0], (None, None))[1],), n)
        return True

    @staticmethod
    def merge_appends(st):
        """`if c: x.append(a) else: x.append(b)` is `x.append(a if c else b)`"""
        def app(b):
            if len(b) == 1 and isinstance(b[0], ast.Expr) and isinstance(b[0].value, ast.Call) \
                    and isinstance(b[0].value.func, ast.Attribute) \
                    and b[0].value.func.attr == "append" \
                    and isinstance(b[0].value.func.value, ast.Name) \
                    and len(b[0].value.args) == 1 and not b[0].value.keywords:
                return b[0].value.func.value.id, b[0].value.args[0]
            return None
        x, y = app(st.body), app(st.orelse)
        if x and y and x[0] == y[0]:
            call = ast.Call(func=ast.Attribute(value=ast.Name(id=x[0], ctx=ast.Load()),
                                               attr="append", ctx=ast.Load()),
                            args=[ast.IfExp(test=st.test, body=x[1], orelse=y[1])], keywords=[])
            return ast.copy_location(ast.Expr(value=call), st)
        return st

    def ret(self, t, ty, node):
        want = self.cfg["ret"]
        if is_res(ty):
            need(self.raising(), "raising call in a total function", node)
            if ty[1] == want or (isinstance(ty[1], tuple) and ty[1][0] in ("mi_levels", "mi_names")
                                 and want == "mi"):
                return t
            return "(rbind %s (fun r_ => Ok %s))" % (t, self.coerce("r_", ty[1], want, "return"))
        if isinstance(ty, tuple) and ty[0] in ("mi_levels", "mi_names"):
            ty = "mi"
        t = self.coerce(t, ty, want, "return value")
        return ("Ok %s" % t) if self.cfg.get("raises") else t

    def tuple_pat(self, names):
        if len(names) == 1:
            return self.lname(names[0])
        return "'(%s)" % ", ".join(self.lname(n) for n in names)

    def tuple_val(self, names, env):
        if len(names) == 1:
            return env[names[0]][0]
        return "(%s)" % ", ".join(env[n][0] for n in names)

    def seq(self, stmts, env, k, ind):
        """Gallina for the statements followed by the continuation k(env)."""
        if not stmts:
            return k(env)
        saved, self.pending = self.pending, []
        out = self.seq1(stmts, env, k, ind)
        pend, self.pending = self.pending, saved
        for v, t in reversed(pend):
            out = "%srbind %s (fun %s =>\n%s)" % (" " * ind, t, v, out)
        return out

    def seq1(self, stmts, env, k, ind):
        st, rest = stmts[0], stmts[1:]
        pad = " " * ind
        go = lambda env2: self.seq(rest, env2, k, ind)     # noqa: E731
        if isinstance(st, ast.Expr) and isinstance(st.value, ast.Constant) \
                and isinstance(st.value.value, str):
            return go(env)
        if self.only_ignored(st, env):
            self.notes.append("%s: not modelled (labels only): %s"
                              % (self.cfg["py"], u(st).split("\n")[0][:90]))
            return go(env)
        if isinstance(st, ast.Return):
            need(not rest, "statements after return", st)
            need(st.value is not None, "bare return", st)
            if self.frames:
                fr = self.frames[-1]
                t, ty = self.val(st.value, env)
                if ty in (("list", "ncell"), ("list", "arr1"), ("list", "ser1")):
                    t, ty = self.coerce(t, ty, "ncells", "returned list of cells"), "ncells"
                if fr.get("cellify") and ty in ("arr1", "ser1"):
                    t = "(mk_cell %s %s)" % ("KArray" if ty == "arr1" else "KSeries", t)
                    ty = "ncell"
                if fr["type"] not in (None, ty) and {fr["type"], ty} <= {"arr1", "ser1", "ncell"}:
                    raise Cellify()
                need(fr["type"] in (None, ty), "helper %s returns %r and %r"
                     % (fr["name"], fr["type"], ty), st)
                coqty(ty)
                fr["type"] = ty
                return pad + (("Ok %s" % t) if fr["raising"] else t)
            t, ty = self.val(st.value, env, allow_res=True)
            return pad + self.ret(t, ty, st)
        if isinstance(st, ast.Continue):
            # the rest of the loop body is skipped: allowed where the current continuation IS the
            # end of the innermost loop body
            need(not rest, "statements after continue", st)
            need(self.loop_k and self.loop_k[-1] is not None and k is self.loop_k[-1],
                 "continue inside a construct that joins values", st)
            return k(env)
        if isinstance(st, ast.Raise):
            need(not rest, "statements after raise", st)
            need(self.raising(), "raise in a total function", st)
            return pad + "Err"
        if isinstance(st, ast.Assert):
            need(self.raising(), "assert in a total function", st)
            c = self.boolean(st.test, env)
            return "%sif negb %s then Err else\n%s" % (pad, c, go(env))
        if isinstance(st, ast.Try):
            need(len(st.handlers) == 1 and u(st.handlers[0].type) == "KeyError"
                 and not st.orelse and not st.finalbody, "try statement shape", st)
            self.notes.append("%s: `except KeyError` branch not modelled (1x1 frame holding a "
                              "1-point series with a non-zero-based index)" % self.cfg["py"])
            return self.seq(list(st.body) + rest, env, k, ind)
        if isinstance(st, ast.Expr) and isinstance(st.value, ast.Call) \
                and isinstance(st.value.func, ast.Attribute) and st.value.func.attr == "append" \
                and isinstance(st.value.func.value, ast.Name) and len(st.value.args) == 1 \
                and not st.value.keywords:
            d = st.value.func.value.id
            need(d in env and isinstance(env[d][1], tuple) and env[d][1][0] == "list",
                 "append to %s" % d, st)
            t, ty = self.val(st.value.args[0], env)
            need(env[d][1][1] in ("?", ty), "append of %r to a list of %r" % (ty, env[d][1][1]), st)
            env = dict(env)
            old_text = env[d][0]
            env[d] = (self.lname(d), ("list", ty))
            return "%slet %s := (%s ++ [%s]) in\n%s" % (pad, self.lname(d), old_text, t, go(env))
        if isinstance(st, ast.Assign):
            need(len(st.targets) == 1, "chained assignment", st)
            return self.assign(st.targets[0], st.value, env, go, ind, st)
        if isinstance(st, ast.If):
            st = self.merge_appends(st)
        if isinstance(st, ast.Expr) and isinstance(st.value, ast.Call) and st is not stmts[0]:
            return self.seq1([st] + rest, env, k, ind)
        if isinstance(st, ast.If):
            return self.if_(st, rest, env, k, ind)
        if isinstance(st, ast.For):
            return self.for_(st, env, go, ind)
        raise Unsupported("statement " + type(st).__name__, st)

    def let(self, pat, t, ty, go, env, ind):
        pad = " " * ind
        if is_res(ty):
            need(self.raising(), "raising call in a total function")
            return "%srbind %s (fun %s =>\n%s)" % (pad, t, pat, go(env))
        return "%slet %s := %s in\n%s" % (pad, pat, t, go(env))

    def assign(self, tg, value, env, go, ind, st):
        env = dict(env)
        if isinstance(tg, ast.Name):
            t0, ty0 = self.expr(value, env)
            if is_static(ty0) or ty0 == ("list", "?") or (
                    isinstance(ty0, tuple) and ty0[0] in (
                        "fn", "gen", "xs", "locrow", "nested_col", "mi_col", "levelvals", "nlevelvals",
                        "mi_index", "nested_index", "iloc", "loc", "shape_of")):
                env[tg.id] = (t0, ty0)      # no let: the name stands for the value
                return go(env)
            t, ty = self.finish(t0, ty0, value, allow_res=True)
            inner = ty[1] if is_res(ty) else ty
            if isinstance(inner, tuple) and inner[0] == "mi_levels":
                self.mi_levels[tg.id] = inner[1]
                inner = "mi"
            if isinstance(inner, tuple) and inner[0] == "mi_names":
                self.mi_level_names[tg.id] = inner[1]
                inner = "mi"
                ty = ("res", "mi") if is_res(ty) else "mi"
            if inner == "labels" or inner == "none":
                env[tg.id] = (None, inner)
                return go(env)
            if inner in (("list", "ncell"), ("list", "arr1"), ("list", "ser1")):
                need(not is_res(ty), "raising list of cells", st)
                t = self.coerce(t, inner, "ncells", "list of cells")   # 1-D arrays / Series as cells
                inner = ty = "ncells"
            if inner != ("list", "?") and not (isinstance(inner, tuple)
                                               and inner[0] in ("index3", "series3")):
                coqty(inner)        # must be a run-time type
            env[tg.id] = (self.lname(tg.id), inner)
            return self.let(self.lname(tg.id), t, ty, go, env, ind)
        if isinstance(tg, ast.Tuple):
            t, ty = self.val(value, env)
            need(isinstance(ty, tuple) and ty[0] == "tuple" and len(ty[1]) == len(tg.elts)
                 and all(isinstance(x, ast.Name) for x in tg.elts), "tuple assignment", st)
            for x, xt in zip(tg.elts, ty[1]):
                env[x.id] = (self.lname(x.id), xt)
            return self.let("'(%s)" % ", ".join(self.lname(x.id) for x in tg.elts), t, ty, go, env,
                            ind)
        if isinstance(tg, ast.Subscript) and isinstance(tg.value, ast.Name):
            d = tg.value.id
            need(d in env and env[d][1] == "dfb", "item assignment into %s" % d, st)
            lab, tl = self.val(tg.slice, env)
            need(tl == "name", "column label of type %r" % (tl,), st)
            t, ty = self.val(value, env)
            t = self.coerce(t, ty, "ncells", "column assigned to %s[...]" % d)
            return self.let(env[d][0], "(df_setcol %s %s %s)" % (env[d][0], lab, t), "dfb", go,
                            env, ind)
        if isinstance(tg, ast.Subscript) and isinstance(tg.value, ast.Attribute) \
                and tg.value.attr == "iloc" and isinstance(tg.value.value, ast.Name):
            d = tg.value.value.id
            need(d in env and env[d][1] == "tblock" and isinstance(tg.slice, ast.Tuple)
                 and len(tg.slice.elts) == 2 and u(tg.slice.elts[0]) == ":",
                 "positional column assignment", st)
            j = self.nat(tg.slice.elts[1], env)
            t, ty = self.val(value, env)
            need(ty == "col1", "column of type %r" % (ty,), st)
            return self.let(env[d][0], "(block_set_col %s %s %s)" % (env[d][0], j, t), "tblock",
                            go, env, ind)
        if isinstance(tg, ast.Attribute) and isinstance(tg.value, ast.Name) \
                and tg.attr in ("columns", "index"):
            d = tg.value.id
            need(d in env, "unbound " + d, st)
            dn, dty = env[d]
            if dty != "tab2" and id(st) in self.sink_stmts:
                raise Retry(id(st))      # assumed to be a label sink, but the frame is modelled
            if dty == "tab2":            # labels of a 2-D DataFrame are not modelled
                self.expr(value, env) if tg.attr == "index" and u(value) != "X.index" else None
                self.notes.append("%s: not modelled (labels only): %s" % (self.cfg["py"], u(st)))
                return go(env)
            if dty == "tblock" and tg.attr == "index":
                t, ty = self.val(value, env)
                need(ty == "keys", "index of type %r" % (ty,), st)
                env[d] = (dn, "kblock")
                return self.let(dn, "(block_set_index %s %s)" % (dn, t), "kblock", go, env, ind)
            need(tg.attr == "columns", "assignment to .index of %r" % (dty,), st)
            t, ty = self.val(value, env)
            if dty == "kblock":
                t = self.coerce(t, ty, "names", "column labels")
                env[d] = (dn, "mi")
                return self.let(dn, "(mi_of_rows %s %s)" % (dn, t), "mi", go, env, ind)
            t = self.coerce(t, ty, "names", "column labels")
            if dty == "nested":
                return self.let(dn, "(nested_set_columns %s %s)" % (dn, t), dty, go, env, ind)
            if dty == "mi":
                return self.let(dn, "(mi_set_columns %s %s)" % (dn, t), dty, go, env, ind)
        raise Unsupported("assignment", st)

    def cond(self, test, env):
        """('static', bool) | ('none', var, is_none_branch_first) | ('bool', text)"""
        if isinstance(test, ast.Compare) and len(test.ops) == 1 \
                and isinstance(test.ops[0], (ast.Is, ast.IsNot)) \
                and isinstance(test.left, ast.Name) and test.left.id in env \
                and env[test.left.id][1] in ("onames", "olevel", "olabel"):
            return ("none", test.left.id, isinstance(test.ops[0], ast.Is))
        t, ty = self.expr(test, env)
        if is_static(ty):
            need(isinstance(ty[1], bool), "static non-boolean test", test)
            return ("static", ty[1])
        need(ty == "bool", "test of type %r" % (ty,), test)
        return ("bool", t)

    def branches(self, c, env):
        """[(header text, env)] for the true and the false branch"""
        if c[0] == "bool":
            ct = c[1] if c[1].startswith("(") else "(%s : bool)" % c[1]    # a bare variable
            return "if %s then" % ct, "else", dict(env), dict(env), ""
        v = c[1]
        vn, vty = env[v]
        bn = self.lname(v)          # binder of the Some branch (vn may be an inlined argument)
        env_some = dict(env)
        env_some[v] = (bn, {"onames": "names", "olevel": "nat", "olabel": "name"}[vty])
        none_first = c[2]
        if none_first:
            return ("match %s with None =>" % vn, "| Some %s =>" % bn, dict(env), env_some, " end")
        return ("match %s with Some %s =>" % (vn, bn), "| None =>", env_some, dict(env), " end")

    def if_(self, st, rest, env, k, ind):
        pad = " " * ind
        c = self.cond(st.test, env)
        body, orelse = list(st.body), list(st.orelse)
        if c[0] == "static":
            dead = orelse if c[1] else body
            if dead:
                self.notes.append("%s: branch decided by the static types: `%s` is %s"
                                  % (self.cfg["py"], u(st.test), c[1]))
            return self.seq((body if c[1] else orelse) + rest, env, k, ind)
        h1, h2, e1, e2, end = self.branches(c, env)
        tb, to = self.terminal(body), self.terminal(orelse)
        if tb or to:
            b1 = self.seq(body + ([] if tb else rest), e1, k, ind + 2)
            b2 = self.seq(orelse + ([] if to else rest), e2, k, ind + 2)
            need(not (tb and to and rest), "statements after a terminal if", st)
            return "%s%s\n%s\n%s%s\n%s%s" % (pad, h1, b1, pad, h2, b2, end)
        names = [n for n in self.assigned(body + orelse) if n not in self.ignore]
        both = [n for n in names if n in self.assigned(body) and n in self.assigned(orelse)]
        names = [n for n in names if n in both or n in env]
        need(names, "if statement without effect", st)
        raising = self.has_raise(body + orelse)
        types = {}

        def kk(env2):
            for n in names:
                need(n in env2, "variable %s not defined on every path" % n, st)
                ty = env2[n][1]
                need(types.setdefault(n, ty) == ty,
                     "variable %s has types %r / %r" % (n, types.get(n), ty), st)
            v = self.tuple_val(names, env2)
            return " " * (ind + 2) + (("Ok %s" % v) if raising else v)
        b1 = self.seq(body, e1, kk, ind + 2)
        b2 = self.seq(orelse, e2, kk, ind + 2)
        env3 = dict(env)
        for n in names:
            env3[n] = (self.lname(n), types[n])
        pat = self.tuple_pat(names)
        tail = self.seq(rest, env3, k, ind)
        if b1.strip() == b2.strip():
            # both branches compute the same thing: the test does not matter
            if raising:
                return "%srbind (\n%s) (fun %s =>\n%s)" % (pad, b1, pat, tail)
            return "%slet %s := (\n%s) in\n%s" % (pad, pat, b1, tail)
        if raising:
            return "%srbind (%s\n%s\n%s%s\n%s%s) (fun %s =>\n%s)" % (
                pad, h1, b1, pad, h2, b2, end, pat, tail)
        return "%slet %s := (%s\n%s\n%s%s\n%s%s) in\n%s" % (pad, pat, h1, b1, pad, h2, b2, end, tail)

    def for_(self, st, env, go, ind):
        pad = " " * ind
        need(not st.orelse, "for-else", st)
        sbody = list(st.body)
        if isinstance(sbody[-1], ast.If):
            sbody[-1] = self.merge_appends(sbody[-1])
        need(not self.has_raise(sbody), "raise inside a loop", st)
        it, ety = self.iterable(st.iter, env)
        pat, env2 = self.bind_target(st.target, ety, env)
        acc = [n for n in self.assigned(sbody) if n in env and n not in self.ignore]
        need(acc, "loop without effect", st)
        types = {}
        last = sbody[-1]
        if len(acc) == 1 and env[acc[0]][1] == ("list", "?") and isinstance(last, ast.Expr) \
                and isinstance(last.value, ast.Call) and isinstance(last.value.func, ast.Attribute) \
                and last.value.func.attr == "append" and isinstance(last.value.func.value, ast.Name) \
                and last.value.func.value.id == acc[0] and len(last.value.args) == 1 \
                and not last.value.keywords and acc[0] not in self.assigned(sbody[:-1]) \
                and not any(isinstance(n, ast.Name) and n.id == acc[0]
                            for b in sbody[:-1] for n in ast.walk(b)) \
                and not any(isinstance(n, ast.Name) and n.id == acc[0]
                            for n in ast.walk(last.value.args[0])):
            # `acc = []; for x in it: ...; acc.append(e)` is `acc = [e for x in it]`
            a = acc[0]
            ety2 = {}

            def ke(env3):
                saved, self.pending = self.pending, None
                t, ty = self.val(last.value.args[0], env3)
                self.pending = saved
                ety2["ty"] = ty
                return " " * (ind + 4) + t
            self.loop_k.append(None)        # no `continue` in a loop read as a comprehension
            try:
                body = self.seq(list(sbody[:-1]), env2, ke, ind + 4)
            finally:
                self.loop_k.pop()
            env4 = dict(env)
            env4[a] = (env[a][0], ("list", ety2["ty"]))
            env4[a] = (self.lname(a), lty(ety2["ty"]))
            return "%slet %s := (map (fun %s =>\n%s)\n%s  %s) in\n%s" % (
                pad, self.lname(a), pat, body, pad, it, go(env4))

        for n in acc:
            env2[n] = (self.lname(n), env[n][1])    # inside the loop: the accumulator binder

        def kk(env3):
            for n in acc:
                types[n] = env3[n][1]
                need(env3[n][1] == env[n][1] or env[n][1] == ("list", "?"),
                     "loop changes the type of %s" % n, st)
            return " " * (ind + 4) + self.tuple_val(acc, env3)
        self.loop_k.append(kk)
        try:
            body = self.seq(list(sbody), env2, kk, ind + 4)
        finally:
            self.loop_k.pop()
        apat = self.tuple_pat(acc)
        env4 = dict(env)
        for n in acc:
            env4[n] = (self.lname(n), types[n])
        text = "%slet %s := fold_left (fun %s %s =>\n%s)\n%s  %s %s in\n" % (
            pad, apat, apat, pat, body, pad, it, self.tuple_val(acc, env))
        return text + go(env4)

    # ------------------------------------------------------------------------------ function
    def translate(self):
        cfg, fn = self.cfg, self.node
        a = fn.args
        need(not a.vararg and not a.kwarg and not a.kwonlyargs and not a.posonlyargs,
             "signature of " + cfg["py"])
        need([x.arg for x in a.args] == [p for p, _ in cfg["params"]],
             "parameters of %s are %s" % (cfg["py"], [x.arg for x in a.args]))
        env = {}
        binders = []
        for p, ty in cfg["params"]:
            if ty in ("none", "labels"):
                env[p] = (None, ty)
            elif isinstance(ty, tuple) and ty[0] == "role":
                env[p] = (None, ty)
            else:
                env[p] = (cname(p), ty)
                binders.append("(%s : %s)" % (cname(p), coqty(ty)))
        rty = coqty(("res", cfg["ret"]) if cfg.get("raises") else cfg["ret"])

        def fell_off(_env):
            raise Unsupported("%s can fall off its end" % cfg["py"])
        label_params = [p for p, ty in cfg["params"] if ty == "labels"]
        real_sinks = set()
        for _ in range(30):
            self.ignore, self.label_stmts, self.sink_stmts = infer_labels(
                fn, label_params, cfg.get("module", {}), real_sinks)
            n_notes = len(self.notes)
            try:
                body = self.seq(list(fn.body), dict(env), fell_off, 2)
                break
            except Retry as r:
                real_sinks.add(r.args[0])
                del self.notes[n_notes:]
        else:
            raise Unsupported("label inference does not settle for " + cfg["py"])
        return "Definition %s %s : %s :=\n%s.\n" % (cfg["coq"], " ".join(binders), rty, body)


METHOD_SIG = {      # method -> (parameter names, how many the handlers below take positionally)
    "xs": (["key", "axis", "level"], 1),
    "unstack": (["level"], 0), "get_level_values": (["level"], 1),
    "groupby": (["by", "axis", "level"], 0), "rename_axis": (["mapper"], 1),
    "apply": (["func", "axis"], 1), "applymap": (["func"], 1), "to_frame": (["index"], 0),
    "pivot": (["index", "columns", "values"], 0),
}


def default_level_names(fn_node):
    """the level names from_nested_to_multi_index gives its result when its two level-name
    arguments are None.  By role: the two variables in `names=[a, b]` of the
    MultiIndex.from_product call that builds the result index; for each, the string that reaches
    it on the `<parameter> is None` side (assignment under an if, or a conditional expression)."""
    params = {a.arg for a in fn_node.args.args}
    calls = [n for n in ast.walk(fn_node) if isinstance(n, ast.Call)
             and u(n.func).endswith("from_product")
             and any(k.arg == "names" for k in n.keywords)]
    need(len(calls) == 1, "the from_product call naming the index levels")
    nm = [k.value for k in calls[0].keywords if k.arg == "names"][0]
    if isinstance(nm, ast.Name):            # the list is built first and passed by name
        defs = [n.value for n in ast.walk(fn_node) if isinstance(n, ast.Assign)
                and len(n.targets) == 1 and isinstance(n.targets[0], ast.Name)
                and n.targets[0].id == nm.id]
        need(len(defs) == 1, "definition of the level names list", nm)
        nm = defs[0]
    need(isinstance(nm, ast.List) and len(nm.elts) == 2, "level names list", nm)

    def when_none(v):
        if isinstance(v, ast.Constant) and isinstance(v.value, str):
            return [v.value]
        if isinstance(v, ast.Name) and v.id in params:
            return []                   # the value on the `is not None` side
        if isinstance(v, ast.IfExp) and isinstance(v.test, ast.Compare) and len(v.test.ops) == 1 \
                and isinstance(v.test.left, ast.Name) and v.test.left.id in params \
                and isinstance(v.test.comparators[0], ast.Constant) \
                and v.test.comparators[0].value is None:
            if isinstance(v.test.ops[0], ast.Is):
                return when_none(v.body)
            if isinstance(v.test.ops[0], ast.IsNot):
                return when_none(v.orelse)
        raise Unsupported("level name given by " + u(v))
    out = []
    for x in nm.elts:
        if isinstance(x, ast.Name):
            vals = []
            for n in ast.walk(fn_node):
                if isinstance(n, ast.Assign) and len(n.targets) == 1 \
                        and isinstance(n.targets[0], ast.Name) and n.targets[0].id == x.id:
                    vals += when_none(n.value)
        else:
            vals = when_none(x)
        need(len(vals) == 1, "default name of an index level", x)
        out.append(vals[0])
    return out[0], out[1]


HEADER = """(* GENERATED by /verif/translator/panel_c15.py from %s -- do not edit, never committed *)
From Coq Require Import ZArith List Bool.
Require Import SkV.Lib.Base SkV.C15.Model SkV.C15.Prims.
Import ListNotations.

"""


def translate(repo):
    with open(os.path.join(repo, SRC)) as f:
        mod = ast.parse(f.read())
    top = {n.name: n for n in mod.body if isinstance(n, ast.FunctionDef)}
    # module-level constants: names assigned exactly once at module level (and nowhere rebound by
    # `global`) to a literal / dotted name / tuple or list of these
    def simple(v):
        if isinstance(v, ast.Constant):
            return True
        if isinstance(v, (ast.Tuple, ast.List)):
            return all(simple(x) for x in v.elts)
        return isinstance(v, ast.Attribute) and isinstance(v.value, ast.Name)
    counts, consts = {}, {}
    for n in mod.body:
        if isinstance(n, ast.Assign):
            for t in n.targets:
                for x in ast.walk(t):
                    if isinstance(x, ast.Name):
                        counts[x.id] = counts.get(x.id, 0) + 1
            if len(n.targets) == 1 and isinstance(n.targets[0], ast.Name) and simple(n.value):
                consts[n.targets[0].id] = n.value
    globals_ = {x for n in ast.walk(mod) if isinstance(n, ast.Global) for x in n.names}
    consts = {k: v for k, v in consts.items() if counts.get(k) == 1 and k not in globals_
              and k not in top}
    notes, defs = [], []
    for cfg in FUNCS:
        if cfg["py"] not in top:
            raise Unsupported("missing function " + cfg["py"])
        cfg["node"] = top[cfg["py"]]
    for cfg in FUNCS:
        cfg["module"] = top
        cfg["consts"] = consts
        try:
            defs.append(Fn(cfg["node"], cfg, notes).translate())
        except Unsupported as ex:
            raise Unsupported("%s: %s" % (cfg["py"], ex))
    seen, uniq = set(), []
    for n in notes:
        if n not in seen:
            seen.add(n)
            uniq.append(n)
    text = HEADER % SRC
    text += "(* statements outside the Coq containers, decided statically or skipped:\n"
    text += "".join("   - %s\n" % n.replace("*)", "* )").replace("(*", "( *") for n in uniq) + "*)\n\n"
    text += "Section Gen.\n  Context {V : Type}.\n\n" + "\n".join(defs) + "End Gen.\n"
    return {"C15/Gen.v": text}


if __name__ == "__main__":
    import sys
    print(translate(sys.argv[1] if len(sys.argv) > 1 else "/repo")["C15/Gen.v"])
