"""Path normal form of a Python function (used by translator/tsformat.py for its source pins).

A fragment of the source that the hand model of C18 was written against used to be pinned by its
`ast.unparse` text: any clean-up (a helper extracted, a guard clause instead of a nested `if`, a
temporary introduced, an `enumerate` instead of `range(len(..))`) broke the tie although nothing
the model describes had changed.  The pin is now taken of a NORMAL FORM that is invariant under
such rewrites and still determined by what the code does:

  the function is executed symbolically along EVERY path; a path is the set of the atomic
  conditions it decided (with their outcome), the sequence of its effects (calls made for their
  effect: append / write / ...; item assignments on objects; statements outside the vocabulary, by
  their text), how it ends (next iteration / return value / raise) and, for a loop body, the new
  values of the loop-carried variables.  Expressions are values, not names: temporaries are
  substituted, helper functions of the same file are inlined with argument binding, conditions are
  split into atoms (`a and b` == nested ifs, `x is False` == `not x`), guard clauses with
  `continue` / `return` are the same paths as if/else nesting, comprehension variables are
  anonymous, `xs[: len(xs) - k]` is `xs[:-k]`, `xs[: len(xs)]` is `xs`, `for i in range(len(xs))`
  with `xs[i]`, `for i, x in enumerate(xs)` and `for x in xs` are the same loop, a loop over a
  literal tuple is unrolled, `sep.join(v for v in xs)` is `sep.join(xs)`, `str(<a string>)` is the
  string, `f(*(<a>, <b>), c)` is `f(a, b, c)`.

What is NOT normalised (and therefore still breaks the tie): the ORDER in which independent
conditions are tested, the order of effects, arithmetic / boolean identities other than the ones
above, loops rewritten as comprehensions with effects, helpers defined in other modules.
Statements outside the vocabulary (try, while, nested def, ...) are kept as opaque effects with
their exact text: they are pinned as before and act as barriers for substitution.
"""
import ast
import copy

# callables that only iterate their argument once: a list comprehension and a generator expression
# given to them are the same thing
CONSUMERS = {"join", "extend", "list", "tuple", "sorted", "sum", "any", "all", "min", "max", "set",
             "enumerate", "zip", "Series", "DataFrame", "asarray", "array"}
PURE_FUNCS = {"float", "int", "str", "len", "range", "enumerate", "zip", "list", "tuple", "sorted",
              "isinstance", "bool", "min", "max", "repr", "type"}
PURE_PREFIXES = ("pd.", "np.", "os.path.", "itertools.", "textwrap.", "math.")
PURE_NAMES = {"load_from_tsfile_to_dataframe", "load_from_arff_to_dataframe",
              "load_from_ucr_tsv_to_dataframe", "_list_downloaded_datasets"}
EFFECT_METHODS = {"append", "extend", "insert", "pop", "remove", "clear", "update", "add", "write",
                  "writelines", "close", "sort", "reverse", "setdefault", "drop", "rename"}
STRING_METHODS = {"strip", "lstrip", "rstrip", "lower", "upper", "replace", "join", "format",
                  "to_string", "title", "capitalize"}


class Unsupported(Exception):
    pass


def _u(n):
    return ast.unparse(n)


class Path:
    def __init__(self, env=None, conds=None, effects=None, assigned=None, reads=None):
        self.env = dict(env or {})
        self.conds = list(conds or [])
        self.effects = list(effects or [])
        self.assigned = list(assigned or [])
        self.reads = set(reads or ())
        self.exit = None
        self.nnew = 0          # fresh objects created on this path so far
        self.nloop = 0         # loops entered on this path so far (identifies a loop)

    def fork(self):
        p = Path(self.env, self.conds, self.effects, self.assigned, self.reads)
        p.nnew, p.nloop = self.nnew, self.nloop
        return p


class Exec:
    def __init__(self, module, splice=True, assume_false=()):
        self.splice = splice          # splice multi-path helpers called at statement level
        # variables whose truth is outside the model's quantifier: the branch where one of them is
        # true is not explored (the test itself stays in the normal form, decided False)
        self.assume_false = set(assume_false)
        self.funcs = {n.name: n for n in module.body if isinstance(n, ast.FunctionDef)}
        self.depth = 0
        self.ntmp = 0
        self.len_inv = []             # proved length invariants of the enclosing loops
        self.fn_stack = []

    # ---------------------------------------------------------------- expressions
    def ev(self, e, p, bound=()):
        if isinstance(e, ast.Constant):
            return ("K", repr(e.value))
        if isinstance(e, ast.Name):
            for d, (nm, val) in enumerate(reversed(bound)):
                if nm == e.id:
                    return val
            if e.id in p.env:
                return p.env[e.id]
            p.reads.add(e.id)
            return ("S", e.id)
        if isinstance(e, ast.Attribute):
            return ("A", self.ev(e.value, p, bound), e.attr)
        if isinstance(e, (ast.Tuple, ast.List)):
            items = []
            for x in e.elts:
                if isinstance(x, ast.Starred):
                    v = self.ev(x.value, p, bound)
                    if v[0] in ("T", "L"):
                        items += list(v[1])
                    else:
                        items.append(("STAR", v))
                else:
                    items.append(self.ev(x, p, bound))
            if isinstance(e, ast.List) and not items and isinstance(e.ctx, ast.Load):
                p.nnew += 1                       # an empty list is an OBJECT (it will be appended to)
                return ("NEWLIST", p.nnew)
            return ("T" if isinstance(e, ast.Tuple) else "L", tuple(items))
        if isinstance(e, ast.Dict):
            return ("D", tuple((self.ev(k, p, bound) if k is not None else ("K", "**"),
                                self.ev(v, p, bound)) for k, v in zip(e.keys, e.values)))
        if isinstance(e, ast.UnaryOp):
            v = self.ev(e.operand, p, bound)
            if isinstance(e.op, ast.Not):
                return self.neg(v)
            return ("UN", type(e.op).__name__, v)
        if isinstance(e, ast.BoolOp):
            return ("AND" if isinstance(e.op, ast.And) else "OR",
                    tuple(self.ev(v, p, bound) for v in e.values))
        if isinstance(e, ast.BinOp):
            a, b = self.ev(e.left, p, bound), self.ev(e.right, p, bound)
            if isinstance(e.op, ast.Add) and _fparts(a) is not None and _fparts(b) is not None:
                return _fstr(_fparts(a) + _fparts(b))          # "dim_" + str(k) is f"dim_{k}"
            if isinstance(e.op, ast.Mod) and a[0] == "K" and a[1][:1] in "'\"":
                t = ast.literal_eval(a[1])
                args = list(b[1]) if b[0] == "T" else [b]
                if isinstance(t, str) and t.count("%s") == len(args) == t.count("%"):
                    pieces = t.split("%s")                      # "dim_%s" % k
                    parts = [("K", repr(pieces[0]))]
                    for x, rest in zip(args, pieces[1:]):
                        parts += [("FMT", x, -1, None), ("K", repr(rest))]
                    return _fstr(parts)
            if isinstance(e.op, ast.Add) and a[0] == "K" and b[0] == "K" \
                    and a[1][:1] in "'\"" and b[1][:1] in "'\"":
                return ("K", repr(ast.literal_eval(a[1]) + ast.literal_eval(b[1])))
            if isinstance(e.op, ast.Add) and a[0] == "BIN" and a[1] == "Add" and a[3][0] == "K" \
                    and b[0] == "K" and a[3][1][:1] in "'\"" and b[1][:1] in "'\"":
                # (x + "lit") + "lit": string concatenation is associative
                return ("BIN", "Add", a[2],
                        ("K", repr(ast.literal_eval(a[3][1]) + ast.literal_eval(b[1]))))
            return ("BIN", type(e.op).__name__, a, b)
        if isinstance(e, ast.Compare):
            left = self.ev(e.left, p, bound)
            out = []
            for op, c in zip(e.ops, e.comparators):
                right = self.ev(c, p, bound)
                out.append(self.compare(op, left, right))
                left = right
            return out[0] if len(out) == 1 else ("AND", tuple(out))
        if isinstance(e, ast.IfExp):
            return ("IFEXP", self.ev(e.test, p, bound), self.ev(e.body, p, bound),
                    self.ev(e.orelse, p, bound))
        if isinstance(e, ast.JoinedStr):
            parts = []
            for v in e.values:
                if isinstance(v, ast.Constant):
                    parts.append(("K", repr(v.value)))
                else:
                    parts.append(("FMT", self.ev(v.value, p, bound), v.conversion,
                                  None if v.format_spec is None else _u(v.format_spec)))
            return _fstr(parts)
        if isinstance(e, ast.Subscript):
            return self.subscript(e, p, bound)
        if isinstance(e, (ast.ListComp, ast.GeneratorExp, ast.SetComp)):
            return self.comp(e, p, bound)
        if isinstance(e, ast.Call):
            return self.call(e, p, bound)
        if isinstance(e, ast.Starred):
            return ("STAR", self.ev(e.value, p, bound))
        if isinstance(e, ast.Slice):
            return ("SLICE",) + tuple(None if x is None else self.ev(x, p, bound)
                                      for x in (e.lower, e.upper, e.step))
        raise Unsupported("expression " + type(e).__name__)

    @staticmethod
    def neg(v):
        if v[0] == "NOT":
            return v[1]
        return ("NOT", v)

    def compare(self, op, a, b):
        # emptiness tests of a sized container: len(x) == 0 is `not x`, len(x) > 0 / != 0 / >= 1 is `x`
        if a[0] == "C" and a[1] == ("S", "len") and len(a[2]) == 1 and not a[3] and b[0] == "K":
            x = a[2][0]
            if b[1] == "0" and isinstance(op, ast.Eq):
                return self.neg(x)
            if (b[1] == "0" and isinstance(op, (ast.Gt, ast.NotEq))) or \
                    (b[1] == "1" and isinstance(op, ast.GtE)):
                return x
            if b[1] == "1" and isinstance(op, ast.Lt):
                return self.neg(x)
        if isinstance(op, (ast.Is, ast.Eq)) and b in (("K", "False"), ("K", "True")):
            return a if b == ("K", "True") else self.neg(a)
        if isinstance(op, (ast.IsNot, ast.NotEq)) and b in (("K", "False"), ("K", "True")):
            return self.neg(a) if b == ("K", "True") else a
        if isinstance(op, ast.IsNot):
            return self.neg(("CMP", "Is", a, b))
        if isinstance(op, ast.NotIn):
            return self.neg(("CMP", "In", a, b))
        if isinstance(op, ast.NotEq):
            return self.neg(("CMP", "Eq", a, b))
        return ("CMP", type(op).__name__, a, b)

    def subscript(self, e, p, bound):
        base = self.ev(e.value, p, bound)
        s = e.slice
        if isinstance(s, ast.Slice):
            lo = None if s.lower is None else self.ev(s.lower, p, bound)
            hi = None if s.upper is None else self.ev(s.upper, p, bound)
            st = None if s.step is None else self.ev(s.step, p, bound)
            ln = ("C", ("S", "len"), (base,), ())
            if hi == ln:
                hi = None
            elif hi is not None and hi[0] == "BIN" and hi[1] == "Sub" and hi[2] == ln:
                hi = ("UN", "USub", hi[3])
            if lo == ("K", "0"):
                lo = None
            if lo is None and hi is None and st is None:
                return base                                   # xs[:len(xs)] / xs[:] read as xs
            if _is_pair(base) and st is None:
                # a slice of a pair is a tuple of known elements
                two = (("IDX", base, ("K", "0")), ("IDX", base, ("K", "1")))
                if lo == ("K", "1") and hi is None:
                    return ("T", two[1:])
                if lo is None and hi == ("K", "1"):
                    return ("T", two[:1])
            return ("SL", base, lo, hi, st)
        idx = self.ev(s, p, bound)
        # xs[n] when the path has decided len(xs) - 1 == n is the last element, xs[-1]
        last = ("BIN", "Sub", ("C", ("S", "len"), (base,), ()), ("K", "1"))
        if idx == last or any(pol and a[0] == "CMP" and a[1] == "Eq" and
                              ((a[2] == idx and a[3] == last) or (a[3] == idx and a[2] == last))
                              for a, pol in p.conds):
            idx = ("K", "-1")
        if idx == ("UN", "USub", ("K", "1")):
            idx = ("K", "-1")
        # xs[i] inside `for i in range(len(xs))` is the element of that loop
        if idx[0] == "IX" and idx[2] == base:
            return ("EL", idx[1], base)
        if base[0] in ("T", "L") and idx[0] == "K" and idx[1].lstrip("-").isdigit():
            k = int(idx[1])
            if -len(base[1]) <= k < len(base[1]):
                return base[1][k]
        return ("IDX", base, idx)

    def comp(self, e, p, bound):
        if len(e.generators) != 1:
            raise Unsupported("nested comprehension")
        g = e.generators[0]
        it = self.ev(g.iter, p, bound)
        depth = len(bound)
        b2 = bound
        if isinstance(g.target, ast.Name):
            b2 = bound + ((g.target.id, ("B", depth)),)
        elif isinstance(g.target, ast.Tuple) and all(isinstance(t, ast.Name) for t in g.target.elts):
            for k, t in enumerate(g.target.elts):
                b2 = b2 + ((t.id, ("IDX", ("B", depth), ("K", str(k)))),)
        else:
            raise Unsupported("comprehension target")
        elt = self.ev(e.elt, p, b2)
        ifs = tuple(self.ev(c, p, b2) for c in g.ifs)
        if elt == ("B", depth) and not ifs:
            return it                                         # (v for v in xs) read as xs
        return ("COMP", type(e).__name__, elt, it, ifs)

    def is_string(self, v):
        return (v[0] == "K" and v[1][:1] in "'\"") or v[0] == "FSTR" or (
            v[0] == "M" and v[1] in STRING_METHODS)

    def call(self, e, p, bound):
        args = []
        for a in e.args:
            if isinstance(a, ast.Starred):
                v = self.ev(a.value, p, bound)
                if v[0] in ("T", "L"):
                    args += list(v[1])
                else:
                    args.append(("STAR", v))
            else:
                args.append(self.ev(a, p, bound))
        kwargs = tuple(sorted((k.arg or "**", self.ev(k.value, p, bound)) for k in e.keywords))
        f = e.func
        if isinstance(f, ast.Name) and f.id in self.funcs and f.id not in p.env:
            v = self.inline(self.funcs[f.id], args, dict(kwargs), p)
            if v is not None:
                return v
        if isinstance(f, ast.Attribute):
            recv = self.ev(f.value, p, bound)
            if f.attr == "format" and recv[0] == "K" and recv[1][:1] in "'\"" and not kwargs:
                t = ast.literal_eval(recv[1])
                if isinstance(t, str) and t.count("{}") == len(args) \
                        and "{" not in t.replace("{}", "") and "}" not in t.replace("{}", ""):
                    pieces = t.split("{}")                      # "dim_{}".format(k)
                    parts = [("K", repr(pieces[0]))]
                    for x, rest in zip(args, pieces[1:]):
                        parts += [("FMT", x, -1, None), ("K", repr(rest))]
                    return _fstr(parts)
            if f.attr in CONSUMERS:
                args = [_anon_comp(a) for a in args]
            # methods of a string literal are computed
            if recv[0] == "K" and recv[1][:1] in "'\"" and not args and not kwargs \
                    and f.attr in ("upper", "lower", "strip", "lstrip", "rstrip", "title"):
                return ("K", repr(getattr(ast.literal_eval(recv[1]), f.attr)()))
            # os.path.join(os.path.join(a, b), c) is os.path.join(a, b, c)
            if f.attr == "join" and recv == ("A", ("S", "os"), "path") and args \
                    and args[0][:3] == ("M", "join", recv) and not args[0][4] and not kwargs:
                args = list(args[0][3]) + args[1:]
            return ("M", f.attr, recv, tuple(args), kwargs)
        fn = self.ev(f, p, bound)
        if fn[0] == "S" and fn[1] in CONSUMERS:
            args = [_anon_comp(a) for a in args]
        if fn == ("S", "str") and len(args) == 1 and not kwargs and self.is_string(args[0]):
            return args[0]
        if fn == ("S", "range") and len(args) == 2 and args[0] == ("K", "0") and not kwargs:
            args = args[1:]                                   # range(0, n) is range(n)
        return ("C", fn, tuple(args), kwargs)

    def inline(self, fn, args, kwargs, p):
        """value of a call to a helper of the same file whose body is straight-line and pure;
        None when the helper has effects or several paths (then the call stays a call)"""
        a = fn.args
        if a.vararg or a.kwarg or a.kwonlyargs or a.posonlyargs or self.depth > 5:
            return None
        if fn.decorator_list:
            return None               # a decorator (a cache!) makes the call more than its body
        params = [x.arg for x in a.args]
        if len(args) > len(params):
            return None
        env = dict(zip(params, args))
        for k, v in kwargs.items():
            if k not in params or k in env:
                return None
            env[k] = v
        for prm, d in zip(params[len(params) - len(a.defaults):], a.defaults):
            if prm not in env:
                env[prm] = self.ev(d, Path())
        if set(env) != set(params):
            return None
        self.depth += 1
        self.fn_stack.append(fn)
        try:
            paths = self.block(list(fn.body), Path(env), in_loop=False)
        except Unsupported:
            return None
        finally:
            self.depth -= 1
            self.fn_stack.pop()
        if len(paths) != 1 or paths[0].effects or paths[0].conds:
            return None
        ex = paths[0].exit
        if ex is None or ex[0] != "return":
            return None
        p.reads |= paths[0].reads - set(params)
        return ex[1]

    def helper_call(self, e, p):
        """is e a direct call of an undecorated same-file helper that does NOT reduce to a value?"""
        if not self.splice:
            return False
        if not (isinstance(e, ast.Call) and isinstance(e.func, ast.Name)
                and e.func.id in self.funcs and e.func.id not in p.env):
            return False
        fn = self.funcs[e.func.id]
        a = fn.args
        if fn.decorator_list or a.vararg or a.kwarg or a.kwonlyargs or a.posonlyargs \
                or self.depth > 5 or any(isinstance(x, ast.Starred) for x in e.args) \
                or any(k.arg is None for k in e.keywords) or fn in self.fn_stack:
            return False
        probe = p.fork()
        v = self.ev(e, probe)
        return v[0] == "C" and v[1] == ("S", fn.name)      # the value-level inliner gave up

    def nested_helper_call(self, s, p):
        """the first call, nested inside the expressions of statement s and evaluated exactly once,
        of a same-file helper that does not reduce to a value"""
        found = []

        def walk(n):
            if found:
                return
            if isinstance(n, (ast.ListComp, ast.GeneratorExp, ast.SetComp, ast.DictComp,
                              ast.Lambda, ast.IfExp, ast.BoolOp)):
                return                         # evaluated zero or several times: not hoisted
            if isinstance(n, ast.Call) and n is not getattr(s, "value", None) \
                    and self.helper_call(n, p):
                found.append(n)
                return
            for c in ast.iter_child_nodes(n):
                walk(c)
        walk(s)
        return found[0] if found else None

    def call_paths(self, e, p):
        fn = self.funcs[e.func.id]
        params = [x.arg for x in fn.args.args]
        env = {}
        for prm, a in zip(params, e.args):
            env[prm] = self.ev(a, p)
        for k in e.keywords:
            if k.arg not in params or k.arg in env:
                raise Unsupported("call of helper " + fn.name)
            env[k.arg] = self.ev(k.value, p)
        for prm, d in zip(params[len(params) - len(fn.args.defaults):], fn.args.defaults):
            if prm not in env:
                env[prm] = self.ev(d, Path())
        if set(env) != set(params):
            raise Unsupported("call of helper " + fn.name)
        callee = p.fork()
        callee.env = env
        callee.assigned = []
        self.depth += 1
        self.fn_stack.append(fn)
        try:
            paths = self.block(list(fn.body), callee, in_loop=False)
        finally:
            self.depth -= 1
            self.fn_stack.pop()
        out = []
        for q in paths:
            rv = q.exit[1] if q.exit is not None and q.exit[0] == "return" else ("K", "None")
            q.env = dict(p.env)
            q.assigned = list(p.assigned)
            out.append((q, rv))
        return out

    # ---------------------------------------------------------------- statements
    def is_effect_call(self, v):
        if v[0] == "M":
            return v[1] in EFFECT_METHODS or not self.pure_value(v)
        return not self.pure_value(v)

    def pure_value(self, v):
        """no call in v is known to have an effect / unknown"""
        if not isinstance(v, tuple):
            return True
        if v and v[0] == "C":
            fn = v[1]
            name = self.dotted(fn)
            if name is None or not (name in PURE_FUNCS or name in PURE_NAMES
                                    or name.startswith(PURE_PREFIXES)):
                return False
        if v and v[0] == "M" and v[1] in EFFECT_METHODS:
            return False
        return all(self.pure_value(x) for x in v[1:] if isinstance(x, tuple))

    def dotted(self, v):
        if v[0] == "S":
            return v[1]
        if v[0] == "A":
            b = self.dotted(v[1])
            return None if b is None else b + "." + v[2]
        return None

    def assign(self, t, v, p):
        if isinstance(t, ast.Name):
            p.env[t.id] = v
            if t.id not in p.assigned:
                p.assigned.append(t.id)
        elif isinstance(t, (ast.Tuple, ast.List)):
            stars = [k for k, x in enumerate(t.elts) if isinstance(x, ast.Starred)]
            if stars:
                self.assign_starred(t, stars, v, p)
                return
            literal = v[0] in ("T", "L") and len(v[1]) == len(t.elts)
            if not literal and not (_is_pair(v) and len(t.elts) == 2) and not (
                    v[0] == "M" and v[1] in ("partition", "rpartition") and len(t.elts) == 3):
                # unpacking a value of unknown length raises unless it has exactly that many
                # elements: `a, b = v` is not `a = v[0]; b = v[1]`
                p.effects.append(("UNPACK", v, len(t.elts)))
            for k, x in enumerate(t.elts):
                if literal:
                    self.assign(x, v[1][k], p)
                else:
                    self.assign(x, ("IDX", v, ("K", str(k))), p)
        elif isinstance(t, (ast.Subscript, ast.Attribute)):
            # an item / attribute store is an EFFECT on the object (wherever the object is bound:
            # local, parameter of a helper, variable of an enclosing loop) ...
            p.effects.append(("STORE", self.ev_target(t, p), v))
            # ... and, when the object is a value built by pure code that this scope has a name
            # for, later reads through that name see the update
            if isinstance(t, ast.Subscript) and isinstance(t.value, ast.Name) \
                    and t.value.id in p.env and self.pure_value(p.env[t.value.id]) \
                    and p.env[t.value.id][0] not in ("S", "NEWLIST", "LS", "AFTER", "R"):
                key = self.ev(t.slice, p)
                p.env[t.value.id] = ("SETITEM", p.env[t.value.id], key, v)
        else:
            raise Unsupported("assignment target " + type(t).__name__)

    def assign_starred(self, t, stars, v, p):
        """`a, *rest, z = v`: the fixed targets are v[0].. / v[-1].., the starred one the LIST of
        what is between; read as items / a slice of v only when v is known to be a list that is
        long enough (a literal, or the result of str.split(sep): a list with at least one element) -
        otherwise the unpacking may raise, or `rest` differs from the slice in type"""
        if len(stars) != 1:
            raise Unsupported("two starred assignment targets")
        k0 = stars[0]
        after = len(t.elts) - k0 - 1
        fixed = len(t.elts) - 1
        if v[0] == "L" and len(v[1]) >= fixed:
            n = len(v[1])
            vals = list(v[1][:k0]) + [("L", tuple(v[1][k0:n - after]))] + list(v[1][n - after:])
            for x, w in zip(t.elts, vals):
                self.assign(x.value if isinstance(x, ast.Starred) else x, w, p)
            return
        if not (v[0] == "M" and v[1] == "split" and len(v[3]) >= 1 and v[3][0][0] == "K"
                and fixed <= 1):       # split(<literal separator>): never an empty list
            raise Unsupported("star-unpacking of a value not known to be a long enough list")
        for k, x in enumerate(t.elts):
            if k < k0:
                self.assign(x, ("IDX", v, ("K", str(k))), p)
            elif k == k0:
                lo = ("K", str(k0)) if k0 else None
                hi = ("UN", "USub", ("K", str(after))) if after else None
                self.assign(x.value, v if lo is None and hi is None else ("SL", v, lo, hi, None), p)
            else:
                self.assign(x, ("IDX", v, ("K", str(k - len(t.elts)))), p)

    def ev_target(self, t, p):
        if isinstance(t, ast.Subscript):
            return ("IDX", self.ev(t.value, p), self.ev(t.slice, p))
        return ("A", self.ev(t.value, p), t.attr)

    def atoms(self, v):
        """a condition as a decision over atoms: yields nested (atom, then, else) structure through
        `decide`"""
        return v

    def decide(self, v, p, k_true, k_false):
        """fork path p on condition value v; k_true / k_false: continuations taking a path"""
        if v[0] == "NOT":
            return self.decide(v[1], p, k_false, k_true)
        if v[0] == "AND":
            def chain(i, q):
                if i == len(v[1]):
                    return k_true(q)
                return self.decide(v[1][i], q, lambda r: chain(i + 1, r), k_false)
            return chain(0, p)
        if v[0] == "OR":
            def chain(i, q):
                if i == len(v[1]):
                    return k_false(q)
                return self.decide(v[1][i], q, k_true, lambda r: chain(i + 1, r))
            return chain(0, p)
        if v == ("K", "True"):
            return k_true(p)
        if v in (("K", "False"), ("K", "None")):
            return k_false(p)
        for a, pol in p.conds:
            if a == v:
                return k_true(p) if pol else k_false(p)
        if v[0] in ("S", "LS", "AFTER") and v[-1] in self.assume_false:
            pf = p.fork()
            pf.conds.append((v, False))
            return k_false(pf)
        pt, pf = p.fork(), p.fork()
        pt.conds.append((v, True))
        pf.conds.append((v, False))
        return k_true(pt) + k_false(pf)

    def block(self, stmts, p, in_loop):
        """all completed paths of executing stmts from path p"""
        for k, s in enumerate(stmts):
            rest = stmts[k + 1:]
            if isinstance(s, ast.Expr) and isinstance(s.value, ast.Constant):
                continue
            if isinstance(s, ast.Pass):
                continue
            if isinstance(s, (ast.Assign, ast.AugAssign, ast.Expr, ast.Return)):
                ie = _first_ifexp(s)
                if ie is not None:
                    # `x = a if c else b` is `if c: x = a else: x = b`
                    v = self.ev(ie.test, p)
                    return self.decide(
                        v, p,
                        lambda q: self.block([_replace_node(s, ie, ie.body)] + rest, q, in_loop),
                        lambda q: self.block([_replace_node(s, ie, ie.orelse)] + rest, q, in_loop))
            if isinstance(s, ast.Expr) and isinstance(s.value, ast.Call) \
                    and isinstance(s.value.func, ast.Attribute) and s.value.func.attr == "extend" \
                    and len(s.value.args) == 1 and not s.value.keywords \
                    and isinstance(s.value.args[0], (ast.ListComp, ast.GeneratorExp)) \
                    and len(s.value.args[0].generators) == 1 \
                    and not s.value.args[0].generators[0].ifs:
                # xs.extend(e for v in it) is `for v in it: xs.append(e)`
                c = s.value.args[0]
                g = c.generators[0]
                app = ast.Expr(value=ast.Call(
                    func=ast.Attribute(value=s.value.func.value, attr="append", ctx=ast.Load()),
                    args=[c.elt], keywords=[]))
                loop = ast.For(target=g.target, iter=g.iter, body=[app], orelse=[])
                ast.copy_location(loop, s)
                ast.fix_missing_locations(loop)
                return self.block([loop] + rest, p, in_loop)
            if isinstance(s, (ast.Assign, ast.AugAssign, ast.Expr, ast.Return)) \
                    and s.value is not None and not self.helper_call(s.value, p):
                inner = self.nested_helper_call(s, p)
                if inner is not None:
                    # f(g(x)) with g a branching helper: `t = g(x); f(t)` (the temporary is dead
                    # afterwards and does not show in the normal form)
                    self.ntmp += 1
                    tmp = "__h%d" % self.ntmp
                    first = ast.Assign(targets=[ast.Name(id=tmp, ctx=ast.Store())], value=inner)
                    second = _replace_node(s, inner, ast.Name(id=tmp, ctx=ast.Load()))
                    ast.copy_location(first, s)
                    ast.fix_missing_locations(first)
                    return self.block([first, second] + rest, p, in_loop)
            if isinstance(s, (ast.Assign, ast.Expr, ast.Return)) and self.helper_call(s.value, p):
                # a helper of the same file with several paths / effects, called at statement
                # level: its paths are spliced into the caller's
                out = []
                for q, rv in self.call_paths(s.value, p):
                    if q.exit is not None and q.exit[0] == "raise":
                        out.append(q)
                        continue
                    q.exit = None
                    if isinstance(s, ast.Return):
                        q.exit = ("return", rv)
                        out.append(q)
                        continue
                    if isinstance(s, ast.Assign):
                        for t in s.targets:
                            self.assign(t, rv, q)
                    out += self.block(rest, q, in_loop)
                return out
            if isinstance(s, ast.Assign):
                v = self.ev(s.value, p)
                if not self.pure_value(v):
                    p.effects.append(("CALL", v))
                    v = ("R", len(p.effects))
                for t in s.targets:
                    self.assign(t, v, p)
                continue
            if isinstance(s, ast.AugAssign) and isinstance(s.target, ast.Name):
                old = self.ev(ast.Name(id=s.target.id, ctx=ast.Load()), p)
                self.assign(s.target, ("BIN", type(s.op).__name__, old, self.ev(s.value, p)), p)
                continue
            if isinstance(s, ast.Expr):
                p.effects.append(("CALL", self.ev(s.value, p)))
                continue
            if isinstance(s, ast.If):
                v = self.ev(s.test, p)
                return self.decide(v, p,
                                   lambda q: self.block(list(s.body) + rest, q, in_loop),
                                   lambda q: self.block(list(s.orelse) + rest, q, in_loop))
            if isinstance(s, ast.Return):
                p.exit = ("return", ("K", "None") if s.value is None else self.ev(s.value, p))
                return [p]
            if isinstance(s, ast.Raise):
                p.exit = ("raise", None if s.exc is None else self.ev(s.exc, p))
                return [p]
            if isinstance(s, ast.Continue) and in_loop:
                p.exit = ("next",)
                return [p]
            if isinstance(s, ast.Break) and in_loop:
                p.exit = ("break",)
                return [p]
            if isinstance(s, ast.For) and not s.orelse:
                out = []
                for q in self.loop(s, p):
                    out += self.block(rest, q, in_loop)
                return out
            if isinstance(s, ast.With) and len(s.items) == 1:
                it = s.items[0]
                v = self.ev(it.context_expr, p)
                p.effects.append(("WITH", v))
                if it.optional_vars is not None:
                    self.assign(it.optional_vars, ("R", len(p.effects)), p)
                return self.block(list(s.body) + [ast.Expr(value=ast.Constant(value="end-with"))]
                                  + rest, p, in_loop)
            if isinstance(s, ast.Try) and not _contains(
                    s.body + s.orelse + s.finalbody + [x for h in s.handlers for x in h.body],
                    (ast.Return, ast.Continue, ast.Break, ast.Yield)):
                # try / except / else / finally without jumps out of it: a structured effect whose
                # blocks are normal forms themselves (values, not names); what the blocks assign is
                # unknown afterwards
                def sub(stmts):
                    q = Path(p.env)
                    q.nloop, q.nnew = p.nloop, p.nnew
                    return self.normal(self.block(list(stmts), q, in_loop))
                handlers = tuple((None if h.type is None else self.ev(h.type, p), sub(h.body))
                                 for h in s.handlers)
                p.effects.append(("TRY", sub(s.body), handlers, sub(s.orelse), sub(s.finalbody)))
                for nm in sorted(_stored_names([s])):
                    p.env[nm] = ("AFTERSTMT", len(p.effects), nm)
                    if nm not in p.assigned:
                        p.assigned.append(nm)
                continue
            # outside the vocabulary: pinned by its text, a barrier for substitution
            p.effects.append(("STMT", _u(s)))
            for n in ast.walk(s):
                if isinstance(n, ast.Name) and isinstance(n.ctx, ast.Store):
                    p.env[n.id] = ("AFTERSTMT", len(p.effects), n.id)
                    if n.id not in p.assigned:
                        p.assigned.append(n.id)
        if p.exit is None:
            p.exit = ("next",) if in_loop else ("return", ("K", "None"))
        return [p]

    def loop(self, s, p):
        it = self.ev(s.iter, p)
        # a loop over a tuple / list with known elements is unrolled (each round may branch)
        if it[0] in ("T", "L") and not any(x[0] == "STAR" for x in it[1]) \
                and not _contains(s.body, (ast.Continue, ast.Break)):
            paths = [p]
            for x in it[1]:
                nxt = []
                for q in paths:
                    if q.exit is not None:                   # returned / raised in an earlier round
                        nxt.append(q)
                        continue
                    self.assign_loop_target(s.target, x, q.env)
                    for r in self.block(list(s.body), q, in_loop=True):
                        if r.exit == ("next",):
                            r.exit = None
                        nxt.append(r)
                paths = nxt
            return paths
        p.nloop += 1
        k = p.nloop
        body_env = dict(p.env)
        tgt = s.target
        ln = lambda xs: ("C", ("S", "len"), (xs,), ())                     # noqa: E731
        rng = None
        if it[0] == "C" and it[1] == ("S", "range") and len(it[2]) == 1 and not it[3] \
                and isinstance(tgt, ast.Name):
            n = it[2][0]
            if n[0] == "C" and n[1] == ("S", "len") and len(n[2]) == 1:
                rng = ("RANGE", ln(n[2][0]))
                body_env[tgt.id] = ("IX", k, n[2][0])
            else:
                rng = ("RANGE", n)
                body_env[tgt.id] = ("IX", k, None)
        elif it[0] == "C" and it[1] == ("S", "enumerate") and len(it[2]) == 1 and not it[3] \
                and isinstance(tgt, ast.Tuple) and len(tgt.elts) == 2 \
                and all(isinstance(x, ast.Name) for x in tgt.elts):
            xs = it[2][0]
            rng = ("RANGE", ln(xs))
            body_env[tgt.elts[0].id] = ("IX", k, xs)
            body_env[tgt.elts[1].id] = ("EL", k, xs)
        elif _zip_args(it) is not None and isinstance(tgt, (ast.Tuple, ast.List)) \
                and len(tgt.elts) == len(_zip_args(it)[1]):
            # for a, b in zip(A, B): a, b are the elements of A and B at the same position
            kind, seqs = _zip_args(it)
            rng = ("RANGE", (kind, tuple(ln(x) for x in seqs)))
            for t_, x in zip(tgt.elts, seqs):
                self.assign_loop_target(t_, (kind, k, x), body_env)
            # zip(L, D) is the index loop `for i in range(n)` over L[i], D[i] when a PROVED loop
            # invariant of an enclosing loop gives len(L) == n and the path knows len(D) >= n
            n = self.known_length(p, seqs[0]) if kind == "ELZ" else None
            if n is not None and all(self.at_least(p, x, n) for x in seqs[1:]):
                rng = ("RANGE", n)
                # (the same symbols as for `for i in range(n)`: when n is the length of one of
                # the sequences, i indexes that sequence)
                whose = next((x for x in seqs if n == ln(x)), None)
                ix = ("IX", k, whose)
                for t_, x in zip(tgt.elts, seqs):
                    self.assign_loop_target(t_, ("EL", k, x) if x == whose else ("IDX", x, ix),
                                            body_env)
        else:
            rng = ("RANGE", ln(it))
            self.assign_loop_target(tgt, ("EL", k, it), body_env)
        # iterating xs[:n] when the path knows len(xs) >= n is the index loop `for i in range(n)`
        # over xs[i]
        sl = it[2][0] if (it[0] == "C" and it[1] == ("S", "enumerate") and len(it[2]) == 1) else it
        if sl[0] == "SL" and sl[2] is None and sl[4] is None and sl[3] is not None \
                and sl[3][0] == "UN" and sl[3][1] == "USub" and sl[3][2][0] == "K" \
                and sl[3][2][1].isdigit():
            # xs[:-c] has len(xs) - c elements (when that is not negative: an index loop over a
            # negative range is empty as well)
            sl = ("SL", sl[1], None, ("BIN", "Sub", ln(sl[1]), sl[3][2]), None)
            if it[0] == "SL":
                it = sl
        if sl[0] == "SL" and sl[2] is None and sl[4] is None and sl[3] is not None \
                and self.at_least(p, sl[1], sl[3]):
            rng = ("RANGE", sl[3])
            el = ("IDX", sl[1], ("IX", k, None))
            if sl is it:
                self.assign_loop_target(tgt, el, body_env)
            else:
                body_env[tgt.elts[0].id] = ("IX", k, None)
                body_env[tgt.elts[1].id] = el
        assigned = sorted(_stored_names(s.body) - _target_names(tgt))
        for nm in assigned:
            body_env[nm] = ("LS", k, nm) if nm in p.env or True else None
        def run_body():
            body = Path(body_env)
            body.nloop, body.nnew = p.nloop, p.nnew
            return self.block(list(s.body), body, in_loop=True)
        paths = run_body()
        inv = self.length_invariants(k, paths, p, assigned)
        if inv:
            # second pass: the proved facts `flag false => len(list) == counter` are available to
            # the loops inside the body
            self.len_inv.append((k, inv))
            try:
                paths = run_body()
            finally:
                self.len_inv.pop()
        p.nloop = max([p.nloop] + [q.nloop for q in paths])
        # loop-carried / live-out variables: read at the start of an iteration, or read anywhere in
        # the function outside this loop; the other names assigned in the body are temporaries
        outside = _loaded_names(self.fn_stack[-1], skip=s) if self.fn_stack else set(assigned)
        carried = {nm for nm in assigned
                   if nm in outside or any(_mentions(q, ("LS", k, nm)) for q in paths)}
        state = [nm for nm in assigned if nm in carried]
        p.effects.append(("FOREACH", k, rng, self.normal(paths, state=state, loop=k)))
        for q in paths:
            p.reads |= {r for r in q.reads if r not in body_env}
        for nm in assigned:
            p.env[nm] = ("AFTER", k, nm)
            if nm not in p.assigned:
                p.assigned.append(nm)
        return [p]

    def known_length(self, p, xs):
        """n such that len(xs) == n follows from a proved invariant of an enclosing loop: xs is a list
        object, the invariant's flag is false on this path, n is the current value of its counter"""
        for k, inv in self.len_inv:
            if xs in inv:
                flag, counter = inv[xs]
                off = p.env.get(flag) == ("K", "False") or any(
                    a == ("LS", k, flag) and not pol for a, pol in p.conds)
                if off and counter in p.env:
                    return p.env[counter]
        return None

    def length_invariants(self, k, paths, p, assigned):
        """{list object: (flag, counter)} such that, by induction over the iterations of loop k,
        `flag is False  =>  len(object) == counter` holds at the start and at every point of an
        iteration after the flag has been cleared.  Proof obligations checked on the body paths:
        the object is empty before the loop and the flag True; a path that grows the object does so
        by exactly m appends, requires the flag True, clears it and sets the counter to m; every
        other path leaves the flag and the counter alone and does not change the object's length;
        the object escapes nowhere."""
        out = {}
        objs = {v for v in p.env.values() if isinstance(v, tuple) and v and v[0] == "NEWLIST"}
        for obj in sorted(objs):
            if any(_has(e, obj) for e in p.effects):
                continue                                        # touched before the loop
            growth, ok = [], True
            for q in paths:
                g = []
                for e in q.effects:
                    if e[0] == "CALL" and e[1][:3] == ("M", "append", obj) and len(e[1][3]) == 1 \
                            and not _has(e[1][3], obj):
                        g.append(("K", "1"))
                    elif e[0] == "FOREACH" and e[2][0] == "RANGE" and len(e[3]) == 1 \
                            and not e[3][0][0] and not e[3][0][3] and len(e[3][0][1]) == 1 \
                            and e[3][0][1][0][0] == "CALL" \
                            and e[3][0][1][0][1][:3] == ("M", "append", obj) \
                            and not _has(e[3][0][1][0][1][3], obj) and not _has(e[2], obj):
                        g.append(e[2][1])
                    elif _has(_strip_reads(e, obj), obj):
                        ok = False                              # any other use of the object itself
                if _has(_strip_reads((tuple(q.conds), q.exit), obj), obj) or len(g) > 1:
                    ok = False
                growth.append(g[0] if g else None)
            if not ok or not any(g is not None for g in growth):
                continue
            flags = [nm for nm in assigned if p.env.get(nm) == ("K", "True")]
            for flag in flags:
                for counter in assigned:
                    if counter == flag:
                        continue
                    good = True
                    for q, g in zip(paths, growth):
                        if q.exit is not None and q.exit[0] == "raise":
                            continue
                        if g is None:
                            good &= q.env.get(flag) == ("LS", k, flag) and \
                                q.env.get(counter) == ("LS", k, counter)
                        else:
                            good &= (("LS", k, flag), True) in q.conds and \
                                q.env.get(flag) == ("K", "False") and q.env.get(counter) == g
                    if good:
                        out[obj] = (flag, counter)
        return out

    @staticmethod
    def at_least(p, xs, n):
        """do the conditions of path p entail len(xs) >= n?  (n is len(xs) - c, or the path decided
        len(xs) - c == n, for a literal c >= 0)"""
        ln = ("C", ("S", "len"), (xs,), ())

        def short(v):
            if v == ln:
                return True
            return v[0] == "BIN" and v[1] == "Sub" and v[2] == ln and v[3][0] == "K" \
                and v[3][1].isdigit()
        if short(n):
            return True
        for a, pol in p.conds:
            if pol and a[0] == "CMP" and a[1] == "Eq" and (
                    (a[2] == n and short(a[3])) or (a[3] == n and short(a[2]))):
                return True
        return False

    def assign_loop_target(self, tgt, v, env):
        if isinstance(tgt, ast.Name):
            env[tgt.id] = v
        elif isinstance(tgt, (ast.Tuple, ast.List)):
            for i, x in enumerate(tgt.elts):
                self.assign_loop_target(x, ("IDX", v, ("K", str(i))), env)
        else:
            raise Unsupported("loop target")

    # ---------------------------------------------------------------- normal form
    def normal(self, paths, state=(), loop=None):
        out = []
        for q in paths:
            # (text, outcome, the atom itself): the atom is carried for the fact extractors, the text
            # is what is sorted and printed
            conds = tuple(sorted(set((repr(a), pol, a) for a, pol in q.conds),
                                 key=lambda c: (c[0], c[1])))
            sets = tuple((nm, q.env[nm]) for nm in state
                         if nm in q.env and q.env[nm] != ("LS", loop, nm))
            out.append((conds, tuple(q.effects), q.exit, sets))
        out.sort(key=repr)
        return tuple(out)

    def function(self, fn):
        self.fn_stack = [fn]
        paths = self.block(list(fn.body), Path(), in_loop=False)
        return self.normal(paths)


def _has(v, x):
    if v == x:
        return True
    if isinstance(v, (tuple, list)):
        return any(_has(y, x) for y in v)
    return False


def _strip_reads(v, obj):
    """v with the harmless uses of list object obj removed: its elements and its length"""
    if isinstance(v, tuple):
        if v[:2] == ("IDX", obj) or (len(v) == 3 and v[0] in ("EL", "ELZ", "ELL") and v[2] == obj) \
                or v == ("C", ("S", "len"), (obj,), ()):
            return "READ"
        return tuple(_strip_reads(x, obj) for x in v)
    if isinstance(v, list):
        return [_strip_reads(x, obj) for x in v]
    return v


def _zip_args(it):
    """('ELZ' | 'ELL', sequences) when `it` is zip(...) / itertools.zip_longest(...) without keywords"""
    if it[0] == "C" and it[1] == ("S", "zip") and not it[3] and len(it[2]) >= 2:
        return "ELZ", it[2]
    if it[0] == "M" and it[1] == "zip_longest" and it[2] == ("S", "itertools") and not it[4] \
            and len(it[3]) >= 2:
        return "ELL", it[3]
    if it[0] == "C" and it[1] == ("S", "zip_longest") and not it[3] and len(it[2]) >= 2:
        return "ELL", it[2]
    return None


def _is_pair(v):
    """is v known to be a 2-tuple? (an element of DataFrame.iterrows() / dict.items() / enumerate())"""
    if v[0] in ("EL", "ELZ", "ELL") and isinstance(v[2], tuple):
        src = v[2]
        if src[0] == "M" and src[1] in ("iterrows", "items", "iteritems") and not src[3]:
            return True
        if src[0] == "C" and src[1] == ("S", "enumerate"):
            return True
    return False


def _fparts(v):
    """the pieces of a string-valued term, or None when v is not known to be a string"""
    if v[0] == "K" and v[1][:1] in "'\"":
        return [v]
    if v[0] == "FSTR":
        return list(v[1])
    if v[0] == "C" and v[1] == ("S", "str") and len(v[2]) == 1 and not v[3]:
        return [("FMT", v[2][0], -1, None)]
    return None


def _fstr(parts):
    """the format term of a string built from literal pieces and formatted values: f-string, `+`
    with str(..), %-format and str.format all give the same term; `{x!s}` and `{str(x)}` are `{x}`"""
    out = []
    for x in parts:
        if x[0] == "FMT":
            val, conv, spec = x[1], x[2], x[3]
            if conv == 115:
                conv = -1
            if spec is None and val[0] == "C" and val[1] == ("S", "str") and len(val[2]) == 1 \
                    and not val[3]:
                val = val[2][0]
            inner = _fparts(val) if spec is None and conv == -1 else None
            if inner is not None and val[0] != "C":
                out += inner                                   # a string formatted into a string
                continue
            x = ("FMT", val, conv, spec)
        if x[0] == "K" and out and out[-1][0] == "K":
            out[-1] = ("K", repr(ast.literal_eval(out[-1][1]) + ast.literal_eval(x[1])))
        elif x[0] == "K" and ast.literal_eval(x[1]) == "":
            continue
        else:
            out.append(x)
    if not out:
        return ("K", "''")
    if len(out) == 1 and out[0][0] == "K":
        return out[0]
    return ("FSTR", tuple(out))


def _anon_comp(v):
    if isinstance(v, tuple) and v and v[0] == "COMP":
        return ("COMP", "Comp") + v[2:]
    return v


def _first_ifexp(s):
    """the first conditional expression of a simple statement that is evaluated once (not inside a
    comprehension / lambda body)"""
    found = []

    def walk(n):
        if found:
            return
        if isinstance(n, (ast.ListComp, ast.GeneratorExp, ast.SetComp, ast.DictComp)):
            for g in n.generators[:1]:
                walk(g.iter)
            return
        if isinstance(n, ast.Lambda):
            return
        if isinstance(n, ast.IfExp):
            found.append(n)
            return
        for c in ast.iter_child_nodes(n):
            walk(c)
    walk(s)
    return found[0] if found else None


def _replace_node(s, node, by):
    """a deep copy of statement s in which `node` is replaced by (a copy of) `by`"""
    node._pn_mark = True
    try:
        s2 = copy.deepcopy(s)
    finally:
        del node._pn_mark

    class R(ast.NodeTransformer):
        def visit(self, n):
            if getattr(n, "_pn_mark", False):
                return copy.deepcopy(by)
            return self.generic_visit(n)
    return ast.fix_missing_locations(R().visit(s2))


def _contains(stmts, kinds):
    return any(isinstance(n, kinds) for s in stmts for n in ast.walk(s))


def _stored_names(stmts):
    """names assigned by the statements (comprehension variables are local to the comprehension)"""
    out = set()

    def walk(n):
        if isinstance(n, (ast.ListComp, ast.GeneratorExp, ast.SetComp, ast.DictComp, ast.Lambda,
                          ast.FunctionDef)):
            return
        if isinstance(n, ast.Name) and isinstance(n.ctx, ast.Store):
            out.add(n.id)
        for c in ast.iter_child_nodes(n):
            walk(c)
    for s in stmts:
        walk(s)
    return out


def _loaded_names(fn, skip):
    """names read anywhere in fn outside the subtree `skip`"""
    out = set()

    def walk(n):
        if n is skip:
            # the loop's own iterable is evaluated outside the body
            walk(skip.iter)
            return
        if isinstance(n, ast.Name) and isinstance(n.ctx, ast.Load):
            out.add(n.id)
        for c in ast.iter_child_nodes(n):
            walk(c)
    walk(fn)
    return out


def _mentions(q, sym):
    def has(v):
        if v == sym:
            return True
        if isinstance(v, (tuple, list)):
            return any(has(x) for x in v)
        return False
    return has(tuple(q.conds)) or has(tuple(q.effects)) or has(q.exit) or \
        has(tuple(v for k_, v in q.env.items() if v != sym))


def _target_names(t):
    return {n.id for n in ast.walk(t) if isinstance(n, ast.Name)}


def _fmt(v, ind=0):
    """readable, deterministic text of a normal form (what is pinned)"""
    pad = "  " * ind
    if isinstance(v, tuple) and v and all(isinstance(x, tuple) and len(x) == 4 and isinstance(
            x[0], tuple) and isinstance(x[1], tuple) for x in v):
        lines = []
        for conds, effects, ex, sets in v:
            lines.append(pad + "PATH " + (" & ".join(("" if c[1] else "not ") + c[0] for c in conds)
                                          or "always"))
            for e in effects:
                if e[0] == "FOREACH":
                    lines.append(pad + "  FOREACH#%d %r" % (e[1], e[2]))
                    lines.append(_fmt(e[3], ind + 2))
                else:
                    lines.append(pad + "  " + repr(e))
            for nm, val in sets:
                lines.append(pad + "  SET %s := %r" % (nm, val))
            lines.append(pad + "  EXIT %r" % (ex,))
        return "\n".join(lines)
    return pad + repr(v)


# ---------------------------------------------------------------- names of locals are not semantic

def _is_nf(v):
    return isinstance(v, tuple) and len(v) > 0 and all(
        isinstance(x, tuple) and len(x) == 4 and isinstance(x[0], tuple) and isinstance(x[1], tuple)
        and isinstance(x[3], tuple) for x in v)


def _rename(v, naming):
    """v with every local-variable symbol renamed; nested normal forms are re-sorted"""
    if _is_nf(v):
        out = []
        for conds, effects, ex, sets in v:
            atoms = sorted(((repr(_rename(c[2], naming)), c[1], _rename(c[2], naming))
                            for c in conds), key=lambda c: (c[0], c[1]))
            out.append((tuple(atoms), tuple(_rename(e, naming) for e in effects),
                        _rename(ex, naming),
                        tuple(sorted((naming.get(nm, nm), _rename(val, naming)) for nm, val in sets))))
        out.sort(key=repr)
        return tuple(out)
    if isinstance(v, tuple):
        if len(v) == 3 and v[0] in ("LS", "AFTER", "AFTERSTMT") and isinstance(v[2], str):
            return (v[0], v[1], naming.get(v[2], v[2]))
        return tuple(_rename(x, naming) for x in v)
    return v


def _local_names(v, out):
    if _is_nf(v):
        for conds, effects, ex, sets in v:
            for c in conds:
                _local_names(c[2], out)
            _local_names(effects, out)
            _local_names(ex, out)
            for nm, val in sets:
                out.add(nm)
                _local_names(val, out)
    elif isinstance(v, tuple):
        if len(v) == 3 and v[0] in ("LS", "AFTER", "AFTERSTMT") and isinstance(v[2], str):
            out.add(v[2])
        else:
            for x in v:
                _local_names(x, out)


def _elements(v, out):
    """the small pieces of a normal form in which names occur: atoms, effects (nested normal forms
    replaced by their own pieces), exits, new state"""
    for conds, effects, ex, sets in v:
        for c in conds:
            out.append(("cond", c[1], c[2]))
        for e in effects:
            if e[0] == "FOREACH":
                out.append(("foreach", e[2]))
                _elements(e[3], out)
            elif e[0] == "TRY":
                for sub in (e[1], e[3], e[4]) + tuple(h[1] for h in e[2]):
                    _elements(sub, out)
            else:
                out.append(("effect", e))
        out.append(("exit", ex))
        for nm, val in sets:
            out.append(("set", ("LS", 0, nm), val))


def alpha_normal(nf, rounds=3):
    """rename the locals of a normal form canonically: a name is replaced by a colour computed from
    HOW the variable is used (colour refinement over the pieces it occurs in), so that renaming a
    local in the source changes nothing, while two variables used differently never share a name"""
    import hashlib
    names = set()
    _local_names(nf, names)
    if not names:
        return nf
    pieces = []
    _elements(nf, pieces)
    occurs = {}
    for el in pieces:
        inside = set()
        _local_names(el, inside)
        for n in inside:
            occurs.setdefault(n, []).append(el)
    naming = {n: "v" for n in names}
    for _ in range(rounds):
        nxt = {}
        for n in sorted(names):
            marked = dict(naming)
            marked[n] = "SELF"
            texts = sorted(repr(_rename(el, marked)) for el in occurs.get(n, []))
            nxt[n] = "v" + hashlib.sha1("\n".join(texts).encode()).hexdigest()[:10]
        naming = nxt
    return _rename(nf, naming)


def normal_form_text(module, fn, **options):
    """the pinned text for function `fn` of `module` (an ast.Module)"""
    return _fmt(alpha_normal(Exec(module, **options).function(fn)))
