"""Path normal form of a Python function (used by translator/tsformat.py for its source pins).

A fragment of the source that the hand model of C18 was written against used to be pinned by its
`ast.unparse` text: any clean-up (a helper extracted, a guard clause instead of a nested `if`, a
temporary introduced, an `enumerate` instead of `range(len(..))`) broke the tie although nothing
the model describes had changed.  The pin is now taken of a NORMAL FORM that is invariant under
such rewrites and still determined by what the code does:

  the function is executed symbolically along EVERY path; a path is the set of the atomic
  conditions it decided (with their outcome), the sequence of its effects (calls made for their
  effect: append / write / ...; item assignments on objects; statements outside the vocabulary, by
  their text), how it ends (next iteration / return value / raise) and, for a loop body, the new
  values of the loop-carried variables.  Expressions are values, not names: temporaries are
  substituted, helper functions of the same file are inlined with argument binding, conditions are
  split into atoms (`a and b` == nested ifs, `x is False` == `not x`), guard clauses with
  `continue` / `return` are the same paths as if/else nesting, comprehension variables are
  anonymous, `xs[: len(xs) - k]` is `xs[:-k]`, `xs[: len(xs)]` is `xs`, `for i in range(len(xs))`
  with `xs[i]`, `for i, x in enumerate(xs)` and `for x in xs` are the same loop, a loop over a
  literal tuple is unrolled, `sep.join(v for v in xs)` is `sep.join(xs)`, `str(<a string>)` is the
  string, `f(*(<a>, <b>), c)` is `f(a, b, c)`.

What is NOT normalised (and therefore still breaks the tie): the ORDER in which independent
conditions are tested, the order of effects, arithmetic / boolean identities other than the ones
above, loops rewritten as comprehensions with effects, helpers defined in other modules.
Statements outside the vocabulary (try, while, nested def, ...) are kept as opaque effects with
their exact text: they are pinned as before and act as barriers for substitution.
"""
import ast
import copy

# callables that only iterate their argument once: a list comprehension and a generator expression
# given to them are the same thing
CONSUMERS = {"join", "extend", "list", "tuple", "sorted", "sum", "any", "all", "min", "max", "set",
             "enumerate", "zip", "Series", "DataFrame", "asarray", "array"}
PURE_FUNCS = {"float", "int", "str", "len", "range", "enumerate", "zip", "list", "tuple", "sorted",
              "isinstance", "bool", "min", "max", "repr", "type"}
PURE_PREFIXES = ("pd.", "np.", "os.path.", "itertools.", "textwrap.", "math.")
PURE_NAMES = {"load_from_tsfile_to_dataframe", "load_from_arff_to_dataframe",
              "load_from_ucr_tsv_to_dataframe", "_list_downloaded_datasets"}
EFFECT_METHODS = {"append", "extend", "insert", "pop", "remove", "clear", "update", "add", "write",
                  "writelines", "close", "sort", "reverse", "setdefault", "drop", "rename"}
STRING_METHODS = {"strip", "lstrip", "rstrip", "lower", "upper", "replace", "join", "format",
                  "to_string", "title", "capitalize"}


class Unsupported(Exception):
    pass


def _u(n):
    return ast.unparse(n)


class Path:
    def __init__(self, env=None, conds=None, effects=None, assigned=None, reads=None):
        self.env = dict(env or {})
        self.conds = list(conds or [])
        self.effects = list(effects or [])
        self.assigned = list(assigned or [])
        self.reads = set(reads or ())
        self.exit = None
        self.nnew = 0          # fresh objects created on this path so far
        self.nloop = 0         # loops entered on this path so far (identifies a loop)

    def fork(self):
        p = Path(self.env, self.conds, self.effects, self.assigned, self.reads)
        p.nnew, p.nloop = self.nnew, self.nloop
        return p


class Exec:
    def __init__(self, module, splice=True, assume_false=()):
        self.splice = splice          # splice multi-path helpers called at statement level
        # variables whose truth is outside the model's quantifier: the branch where one of them is
        # true is not explored (the test itself stays in the normal form, decided False)
        self.assume_false = set(assume_false)
        self.funcs = {n.name: n for n in module.body if isinstance(n, ast.FunctionDef)}
        self.depth = 0
        self.fn_stack = []

    # ---------------------------------------------------------------- expressions
    def ev(self, e, p, bound=()):
        if isinstance(e, ast.Constant):
            return ("K", repr(e.value))
        if isinstance(e, ast.Name):
            for d, (nm, val) in enumerate(reversed(bound)):
                if nm == e.id:
                    return val
            if e.id in p.env:
                return p.env[e.id]
            p.reads.add(e.id)
            return ("S", e.id)
        if isinstance(e, ast.Attribute):
            return ("A", self.ev(e.value, p, bound), e.attr)
        if isinstance(e, (ast.Tuple, ast.List)):
            items = []
            for x in e.elts:
                if isinstance(x, ast.Starred):
                    v = self.ev(x.value, p, bound)
                    if v[0] in ("T", "L"):
                        items += list(v[1])
                    else:
                        items.append(("STAR", v))
                else:
                    items.append(self.ev(x, p, bound))
            if isinstance(e, ast.List) and not items and isinstance(e.ctx, ast.Load):
                p.nnew += 1                       # an empty list is an OBJECT (it will be appended to)
                return ("NEWLIST", p.nnew)
            return ("T" if isinstance(e, ast.Tuple) else "L", tuple(items))
        if isinstance(e, ast.Dict):
            return ("D", tuple((self.ev(k, p, bound) if k is not None else ("K", "**"),
                                self.ev(v, p, bound)) for k, v in zip(e.keys, e.values)))
        if isinstance(e, ast.UnaryOp):
            v = self.ev(e.operand, p, bound)
            if isinstance(e.op, ast.Not):
                return self.neg(v)
            return ("UN", type(e.op).__name__, v)
        if isinstance(e, ast.BoolOp):
            return ("AND" if isinstance(e.op, ast.And) else "OR",
                    tuple(self.ev(v, p, bound) for v in e.values))
        if isinstance(e, ast.BinOp):
            a, b = self.ev(e.left, p, bound), self.ev(e.right, p, bound)
            if isinstance(e.op, ast.Add) and a[0] == "K" and b[0] == "K" \
                    and a[1][:1] in "'\"" and b[1][:1] in "'\"":
                return ("K", repr(ast.literal_eval(a[1]) + ast.literal_eval(b[1])))
            if isinstance(e.op, ast.Add) and a[0] == "BIN" and a[1] == "Add" and a[3][0] == "K" \
                    and b[0] == "K" and a[3][1][:1] in "'\"" and b[1][:1] in "'\"":
                # (x + "lit") + "lit": string concatenation is associative
                return ("BIN", "Add", a[2],
                        ("K", repr(ast.literal_eval(a[3][1]) + ast.literal_eval(b[1]))))
            return ("BIN", type(e.op).__name__, a, b)
        if isinstance(e, ast.Compare):
            left = self.ev(e.left, p, bound)
            out = []
            for op, c in zip(e.ops, e.comparators):
                right = self.ev(c, p, bound)
                out.append(self.compare(op, left, right))
                left = right
            return out[0] if len(out) == 1 else ("AND", tuple(out))
        if isinstance(e, ast.IfExp):
            return ("IFEXP", self.ev(e.test, p, bound), self.ev(e.body, p, bound),
                    self.ev(e.orelse, p, bound))
        if isinstance(e, ast.JoinedStr):
            parts = []
            for v in e.values:
                if isinstance(v, ast.Constant):
                    parts.append(("K", repr(v.value)))
                else:
                    parts.append(("FMT", self.ev(v.value, p, bound), v.conversion,
                                  None if v.format_spec is None else _u(v.format_spec)))
            return ("FSTR", tuple(parts))
        if isinstance(e, ast.Subscript):
            return self.subscript(e, p, bound)
        if isinstance(e, (ast.ListComp, ast.GeneratorExp, ast.SetComp)):
            return self.comp(e, p, bound)
        if isinstance(e, ast.Call):
            return self.call(e, p, bound)
        if isinstance(e, ast.Starred):
            return ("STAR", self.ev(e.value, p, bound))
        if isinstance(e, ast.Slice):
            return ("SLICE",) + tuple(None if x is None else self.ev(x, p, bound)
                                      for x in (e.lower, e.upper, e.step))
        raise Unsupported("expression " + type(e).__name__)

    @staticmethod
    def neg(v):
        if v[0] == "NOT":
            return v[1]
        return ("NOT", v)

    def compare(self, op, a, b):
        if isinstance(op, (ast.Is, ast.Eq)) and b in (("K", "False"), ("K", "True")):
            return a if b == ("K", "True") else self.neg(a)
        if isinstance(op, (ast.IsNot, ast.NotEq)) and b in (("K", "False"), ("K", "True")):
            return self.neg(a) if b == ("K", "True") else a
        if isinstance(op, ast.IsNot):
            return self.neg(("CMP", "Is", a, b))
        if isinstance(op, ast.NotIn):
            return self.neg(("CMP", "In", a, b))
        if isinstance(op, ast.NotEq):
            return self.neg(("CMP", "Eq", a, b))
        return ("CMP", type(op).__name__, a, b)

    def subscript(self, e, p, bound):
        base = self.ev(e.value, p, bound)
        s = e.slice
        if isinstance(s, ast.Slice):
            lo = None if s.lower is None else self.ev(s.lower, p, bound)
            hi = None if s.upper is None else self.ev(s.upper, p, bound)
            st = None if s.step is None else self.ev(s.step, p, bound)
            ln = ("C", ("S", "len"), (base,), ())
            if hi == ln:
                hi = None
            elif hi is not None and hi[0] == "BIN" and hi[1] == "Sub" and hi[2] == ln:
                hi = ("UN", "USub", hi[3])
            if lo == ("K", "0"):
                lo = None
            if lo is None and hi is None and st is None:
                return base                                   # xs[:len(xs)] / xs[:] read as xs
            return ("SL", base, lo, hi, st)
        idx = self.ev(s, p, bound)
        # xs[i] inside `for i in range(len(xs))` is the element of that loop
        if idx[0] == "IX" and idx[2] == base:
            return ("EL", idx[1], base)
        if base[0] in ("T", "L") and idx[0] == "K" and idx[1].lstrip("-").isdigit():
            k = int(idx[1])
            if -len(base[1]) <= k < len(base[1]):
                return base[1][k]
        return ("IDX", base, idx)

    def comp(self, e, p, bound):
        if len(e.generators) != 1:
            raise Unsupported("nested comprehension")
        g = e.generators[0]
        it = self.ev(g.iter, p, bound)
        depth = len(bound)
        b2 = bound
        if isinstance(g.target, ast.Name):
            b2 = bound + ((g.target.id, ("B", depth)),)
        elif isinstance(g.target, ast.Tuple) and all(isinstance(t, ast.Name) for t in g.target.elts):
            for k, t in enumerate(g.target.elts):
                b2 = b2 + ((t.id, ("IDX", ("B", depth), ("K", str(k)))),)
        else:
            raise Unsupported("comprehension target")
        elt = self.ev(e.elt, p, b2)
        ifs = tuple(self.ev(c, p, b2) for c in g.ifs)
        if elt == ("B", depth) and not ifs:
            return it                                         # (v for v in xs) read as xs
        return ("COMP", type(e).__name__, elt, it, ifs)

    def is_string(self, v):
        return (v[0] == "K" and v[1][:1] in "'\"") or v[0] == "FSTR" or (
            v[0] == "M" and v[1] in STRING_METHODS)

    def call(self, e, p, bound):
        args = []
        for a in e.args:
            if isinstance(a, ast.Starred):
                v = self.ev(a.value, p, bound)
                if v[0] in ("T", "L"):
                    args += list(v[1])
                else:
                    args.append(("STAR", v))
            else:
                args.append(self.ev(a, p, bound))
        kwargs = tuple(sorted((k.arg or "**", self.ev(k.value, p, bound)) for k in e.keywords))
        f = e.func
        if isinstance(f, ast.Name) and f.id in self.funcs and f.id not in p.env:
            v = self.inline(self.funcs[f.id], args, dict(kwargs), p)
            if v is not None:
                return v
        if isinstance(f, ast.Attribute):
            recv = self.ev(f.value, p, bound)
            if f.attr in CONSUMERS:
                args = [_anon_comp(a) for a in args]
            # methods of a string literal are computed
            if recv[0] == "K" and recv[1][:1] in "'\"" and not args and not kwargs \
                    and f.attr in ("upper", "lower", "strip", "lstrip", "rstrip", "title"):
                return ("K", repr(getattr(ast.literal_eval(recv[1]), f.attr)()))
            # os.path.join(os.path.join(a, b), c) is os.path.join(a, b, c)
            if f.attr == "join" and recv == ("A", ("S", "os"), "path") and args \
                    and args[0][:3] == ("M", "join", recv) and not args[0][4] and not kwargs:
                args = list(args[0][3]) + args[1:]
            return ("M", f.attr, recv, tuple(args), kwargs)
        fn = self.ev(f, p, bound)
        if fn[0] == "S" and fn[1] in CONSUMERS:
            args = [_anon_comp(a) for a in args]
        if fn == ("S", "str") and len(args) == 1 and not kwargs and self.is_string(args[0]):
            return args[0]
        if fn == ("S", "range") and len(args) == 2 and args[0] == ("K", "0") and not kwargs:
            args = args[1:]                                   # range(0, n) is range(n)
        return ("C", fn, tuple(args), kwargs)

    def inline(self, fn, args, kwargs, p):
        """value of a call to a helper of the same file whose body is straight-line and pure;
        None when the helper has effects or several paths (then the call stays a call)"""
        a = fn.args
        if a.vararg or a.kwarg or a.kwonlyargs or a.posonlyargs or self.depth > 5:
            return None
        if fn.decorator_list:
            return None               # a decorator (a cache!) makes the call more than its body
        params = [x.arg for x in a.args]
        if len(args) > len(params):
            return None
        env = dict(zip(params, args))
        for k, v in kwargs.items():
            if k not in params or k in env:
                return None
            env[k] = v
        for prm, d in zip(params[len(params) - len(a.defaults):], a.defaults):
            if prm not in env:
                env[prm] = self.ev(d, Path())
        if set(env) != set(params):
            return None
        self.depth += 1
        self.fn_stack.append(fn)
        try:
            paths = self.block(list(fn.body), Path(env), in_loop=False)
        except Unsupported:
            return None
        finally:
            self.depth -= 1
            self.fn_stack.pop()
        if len(paths) != 1 or paths[0].effects or paths[0].conds:
            return None
        ex = paths[0].exit
        if ex is None or ex[0] != "return":
            return None
        p.reads |= paths[0].reads - set(params)
        return ex[1]

    def helper_call(self, e, p):
        """is e a direct call of an undecorated same-file helper that does NOT reduce to a value?"""
        if not self.splice:
            return False
        if not (isinstance(e, ast.Call) and isinstance(e.func, ast.Name)
                and e.func.id in self.funcs and e.func.id not in p.env):
            return False
        fn = self.funcs[e.func.id]
        a = fn.args
        if fn.decorator_list or a.vararg or a.kwarg or a.kwonlyargs or a.posonlyargs \
                or self.depth > 5 or any(isinstance(x, ast.Starred) for x in e.args) \
                or any(k.arg is None for k in e.keywords) or fn in self.fn_stack:
            return False
        probe = p.fork()
        v = self.ev(e, probe)
        return v[0] == "C" and v[1] == ("S", fn.name)      # the value-level inliner gave up

    def call_paths(self, e, p):
        fn = self.funcs[e.func.id]
        params = [x.arg for x in fn.args.args]
        env = {}
        for prm, a in zip(params, e.args):
            env[prm] = self.ev(a, p)
        for k in e.keywords:
            if k.arg not in params or k.arg in env:
                raise Unsupported("call of helper " + fn.name)
            env[k.arg] = self.ev(k.value, p)
        for prm, d in zip(params[len(params) - len(fn.args.defaults):], fn.args.defaults):
            if prm not in env:
                env[prm] = self.ev(d, Path())
        if set(env) != set(params):
            raise Unsupported("call of helper " + fn.name)
        callee = p.fork()
        callee.env = env
        callee.assigned = []
        self.depth += 1
        self.fn_stack.append(fn)
        try:
            paths = self.block(list(fn.body), callee, in_loop=False)
        finally:
            self.depth -= 1
            self.fn_stack.pop()
        out = []
        for q in paths:
            rv = q.exit[1] if q.exit is not None and q.exit[0] == "return" else ("K", "None")
            q.env = dict(p.env)
            q.assigned = list(p.assigned)
            out.append((q, rv))
        return out

    # ---------------------------------------------------------------- statements
    def is_effect_call(self, v):
        if v[0] == "M":
            return v[1] in EFFECT_METHODS or not self.pure_value(v)
        return not self.pure_value(v)

    def pure_value(self, v):
        """no call in v is known to have an effect / unknown"""
        if not isinstance(v, tuple):
            return True
        if v and v[0] == "C":
            fn = v[1]
            name = self.dotted(fn)
            if name is None or not (name in PURE_FUNCS or name in PURE_NAMES
                                    or name.startswith(PURE_PREFIXES)):
                return False
        if v and v[0] == "M" and v[1] in EFFECT_METHODS:
            return False
        return all(self.pure_value(x) for x in v[1:] if isinstance(x, tuple))

    def dotted(self, v):
        if v[0] == "S":
            return v[1]
        if v[0] == "A":
            b = self.dotted(v[1])
            return None if b is None else b + "." + v[2]
        return None

    def assign(self, t, v, p):
        if isinstance(t, ast.Name):
            p.env[t.id] = v
            if t.id not in p.assigned:
                p.assigned.append(t.id)
        elif isinstance(t, (ast.Tuple, ast.List)):
            for k, x in enumerate(t.elts):
                if v[0] in ("T", "L") and len(v[1]) == len(t.elts):
                    self.assign(x, v[1][k], p)
                else:
                    self.assign(x, ("IDX", v, ("K", str(k))), p)
        elif isinstance(t, ast.Subscript) and isinstance(t.value, ast.Name) \
                and t.value.id in p.env and self.pure_value(p.env[t.value.id]) \
                and p.env[t.value.id][0] not in ("S", "NEWLIST", "LS", "AFTER", "R"):
            # item assignment on a value built in this path (e.g. the list a split returned)
            key = self.ev(t.slice, p)
            p.env[t.value.id] = ("SETITEM", p.env[t.value.id], key, v)
        elif isinstance(t, (ast.Subscript, ast.Attribute)):
            p.effects.append(("STORE", self.ev_target(t, p), v))
        else:
            raise Unsupported("assignment target " + type(t).__name__)

    def ev_target(self, t, p):
        if isinstance(t, ast.Subscript):
            return ("IDX", self.ev(t.value, p), self.ev(t.slice, p))
        return ("A", self.ev(t.value, p), t.attr)

    def atoms(self, v):
        """a condition as a decision over atoms: yields nested (atom, then, else) structure through
        `decide`"""
        return v

    def decide(self, v, p, k_true, k_false):
        """fork path p on condition value v; k_true / k_false: continuations taking a path"""
        if v[0] == "NOT":
            return self.decide(v[1], p, k_false, k_true)
        if v[0] == "AND":
            def chain(i, q):
                if i == len(v[1]):
                    return k_true(q)
                return self.decide(v[1][i], q, lambda r: chain(i + 1, r), k_false)
            return chain(0, p)
        if v[0] == "OR":
            def chain(i, q):
                if i == len(v[1]):
                    return k_false(q)
                return self.decide(v[1][i], q, k_true, lambda r: chain(i + 1, r))
            return chain(0, p)
        if v == ("K", "True"):
            return k_true(p)
        if v in (("K", "False"), ("K", "None")):
            return k_false(p)
        for a, pol in p.conds:
            if a == v:
                return k_true(p) if pol else k_false(p)
        if v[0] in ("S", "LS", "AFTER") and v[-1] in self.assume_false:
            pf = p.fork()
            pf.conds.append((v, False))
            return k_false(pf)
        pt, pf = p.fork(), p.fork()
        pt.conds.append((v, True))
        pf.conds.append((v, False))
        return k_true(pt) + k_false(pf)

    def block(self, stmts, p, in_loop):
        """all completed paths of executing stmts from path p"""
        for k, s in enumerate(stmts):
            rest = stmts[k + 1:]
            if isinstance(s, ast.Expr) and isinstance(s.value, ast.Constant):
                continue
            if isinstance(s, ast.Pass):
                continue
            if isinstance(s, (ast.Assign, ast.AugAssign, ast.Expr, ast.Return)):
                ie = _first_ifexp(s)
                if ie is not None:
                    # `x = a if c else b` is `if c: x = a else: x = b`
                    v = self.ev(ie.test, p)
                    return self.decide(
                        v, p,
                        lambda q: self.block([_replace_node(s, ie, ie.body)] + rest, q, in_loop),
                        lambda q: self.block([_replace_node(s, ie, ie.orelse)] + rest, q, in_loop))
            if isinstance(s, ast.Expr) and isinstance(s.value, ast.Call) \
                    and isinstance(s.value.func, ast.Attribute) and s.value.func.attr == "extend" \
                    and len(s.value.args) == 1 and not s.value.keywords \
                    and isinstance(s.value.args[0], (ast.ListComp, ast.GeneratorExp)) \
                    and len(s.value.args[0].generators) == 1 \
                    and not s.value.args[0].generators[0].ifs:
                # xs.extend(e for v in it) is `for v in it: xs.append(e)`
                c = s.value.args[0]
                g = c.generators[0]
                app = ast.Expr(value=ast.Call(
                    func=ast.Attribute(value=s.value.func.value, attr="append", ctx=ast.Load()),
                    args=[c.elt], keywords=[]))
                loop = ast.For(target=g.target, iter=g.iter, body=[app], orelse=[])
                ast.copy_location(loop, s)
                ast.fix_missing_locations(loop)
                return self.block([loop] + rest, p, in_loop)
            if isinstance(s, (ast.Assign, ast.Expr, ast.Return)) and self.helper_call(s.value, p):
                # a helper of the same file with several paths / effects, called at statement
                # level: its paths are spliced into the caller's
                out = []
                for q, rv in self.call_paths(s.value, p):
                    if q.exit is not None and q.exit[0] == "raise":
                        out.append(q)
                        continue
                    q.exit = None
                    if isinstance(s, ast.Return):
                        q.exit = ("return", rv)
                        out.append(q)
                        continue
                    if isinstance(s, ast.Assign):
                        for t in s.targets:
                            self.assign(t, rv, q)
                    out += self.block(rest, q, in_loop)
                return out
            if isinstance(s, ast.Assign):
                v = self.ev(s.value, p)
                if not self.pure_value(v):
                    p.effects.append(("CALL", v))
                    v = ("R", len(p.effects))
                for t in s.targets:
                    self.assign(t, v, p)
                continue
            if isinstance(s, ast.AugAssign) and isinstance(s.target, ast.Name):
                old = self.ev(ast.Name(id=s.target.id, ctx=ast.Load()), p)
                self.assign(s.target, ("BIN", type(s.op).__name__, old, self.ev(s.value, p)), p)
                continue
            if isinstance(s, ast.Expr):
                p.effects.append(("CALL", self.ev(s.value, p)))
                continue
            if isinstance(s, ast.If):
                v = self.ev(s.test, p)
                return self.decide(v, p,
                                   lambda q: self.block(list(s.body) + rest, q, in_loop),
                                   lambda q: self.block(list(s.orelse) + rest, q, in_loop))
            if isinstance(s, ast.Return):
                p.exit = ("return", ("K", "None") if s.value is None else self.ev(s.value, p))
                return [p]
            if isinstance(s, ast.Raise):
                p.exit = ("raise", None if s.exc is None else self.ev(s.exc, p))
                return [p]
            if isinstance(s, ast.Continue) and in_loop:
                p.exit = ("next",)
                return [p]
            if isinstance(s, ast.Break) and in_loop:
                p.exit = ("break",)
                return [p]
            if isinstance(s, ast.For) and not s.orelse:
                self.loop(s, p)
                continue
            if isinstance(s, ast.With) and len(s.items) == 1:
                it = s.items[0]
                v = self.ev(it.context_expr, p)
                p.effects.append(("WITH", v))
                if it.optional_vars is not None:
                    self.assign(it.optional_vars, ("R", len(p.effects)), p)
                return self.block(list(s.body) + [ast.Expr(value=ast.Constant(value="end-with"))]
                                  + rest, p, in_loop)
            # outside the vocabulary: pinned by its text, a barrier for substitution
            p.effects.append(("STMT", _u(s)))
            for n in ast.walk(s):
                if isinstance(n, ast.Name) and isinstance(n.ctx, ast.Store):
                    p.env[n.id] = ("AFTERSTMT", len(p.effects), n.id)
                    if n.id not in p.assigned:
                        p.assigned.append(n.id)
        if p.exit is None:
            p.exit = ("next",) if in_loop else ("return", ("K", "None"))
        return [p]

    def loop(self, s, p):
        it = self.ev(s.iter, p)
        # a loop over a literal tuple / list of constants is unrolled
        if it[0] in ("T", "L") and all(x[0] == "K" for x in it[1]) and isinstance(s.target, ast.Name) \
                and not _contains(s.body, (ast.Continue, ast.Break, ast.Return)):
            for x in it[1]:
                p.env[s.target.id] = x
                paths = self.block(list(s.body), p, in_loop=True)
                if len(paths) != 1:
                    raise Unsupported("branching inside an unrolled loop")
                q = paths[0]
                p.env, p.effects, p.assigned, p.reads = q.env, q.effects, q.assigned, q.reads
                p.nnew, p.nloop = q.nnew, q.nloop
                p.exit = None
            p.env.pop(s.target.id, None)
            return
        p.nloop += 1
        k = p.nloop
        body_env = dict(p.env)
        tgt = s.target
        ln = lambda xs: ("C", ("S", "len"), (xs,), ())                     # noqa: E731
        rng = None
        if it[0] == "C" and it[1] == ("S", "range") and len(it[2]) == 1 and not it[3] \
                and isinstance(tgt, ast.Name):
            n = it[2][0]
            if n[0] == "C" and n[1] == ("S", "len") and len(n[2]) == 1:
                rng = ("RANGE", ln(n[2][0]))
                body_env[tgt.id] = ("IX", k, n[2][0])
            else:
                rng = ("RANGE", n)
                body_env[tgt.id] = ("IX", k, None)
        elif it[0] == "C" and it[1] == ("S", "enumerate") and len(it[2]) == 1 and not it[3] \
                and isinstance(tgt, ast.Tuple) and len(tgt.elts) == 2 \
                and all(isinstance(x, ast.Name) for x in tgt.elts):
            xs = it[2][0]
            rng = ("RANGE", ln(xs))
            body_env[tgt.elts[0].id] = ("IX", k, xs)
            body_env[tgt.elts[1].id] = ("EL", k, xs)
        else:
            rng = ("RANGE", ln(it))
            self.assign_loop_target(tgt, ("EL", k, it), body_env)
        # iterating xs[:n] when the path knows len(xs) >= n is the index loop `for i in range(n)`
        # over xs[i]
        sl = it[2][0] if (it[0] == "C" and it[1] == ("S", "enumerate") and len(it[2]) == 1) else it
        if sl[0] == "SL" and sl[2] is None and sl[4] is None and sl[3] is not None \
                and sl[3][0] == "UN" and sl[3][1] == "USub" and sl[3][2][0] == "K" \
                and sl[3][2][1].isdigit():
            # xs[:-c] has len(xs) - c elements (when that is not negative: an index loop over a
            # negative range is empty as well)
            sl = ("SL", sl[1], None, ("BIN", "Sub", ln(sl[1]), sl[3][2]), None)
            if it[0] == "SL":
                it = sl
        if sl[0] == "SL" and sl[2] is None and sl[4] is None and sl[3] is not None \
                and self.at_least(p, sl[1], sl[3]):
            rng = ("RANGE", sl[3])
            el = ("IDX", sl[1], ("IX", k, None))
            if sl is it:
                self.assign_loop_target(tgt, el, body_env)
            else:
                body_env[tgt.elts[0].id] = ("IX", k, None)
                body_env[tgt.elts[1].id] = el
        assigned = sorted(_stored_names(s.body) - _target_names(tgt))
        for nm in assigned:
            body_env[nm] = ("LS", k, nm) if nm in p.env or True else None
        body = Path(body_env)
        body.nloop, body.nnew = p.nloop, p.nnew
        paths = self.block(list(s.body), body, in_loop=True)
        p.nloop = max([p.nloop] + [q.nloop for q in paths])
        # loop-carried / live-out variables: read at the start of an iteration, or read anywhere in
        # the function outside this loop; the other names assigned in the body are temporaries
        outside = _loaded_names(self.fn_stack[-1], skip=s) if self.fn_stack else set(assigned)
        carried = {nm for nm in assigned
                   if nm in outside or any(_mentions(q, ("LS", k, nm)) for q in paths)}
        state = [nm for nm in assigned if nm in carried]
        p.effects.append(("FOREACH", k, rng, self.normal(paths, state=state, loop=k)))
        for q in paths:
            p.reads |= {r for r in q.reads if r not in body_env}
        for nm in assigned:
            p.env[nm] = ("AFTER", k, nm)
            if nm not in p.assigned:
                p.assigned.append(nm)

    @staticmethod
    def at_least(p, xs, n):
        """do the conditions of path p entail len(xs) >= n?  (n is len(xs) - c, or the path decided
        len(xs) - c == n, for a literal c >= 0)"""
        ln = ("C", ("S", "len"), (xs,), ())

        def short(v):
            if v == ln:
                return True
            return v[0] == "BIN" and v[1] == "Sub" and v[2] == ln and v[3][0] == "K" \
                and v[3][1].isdigit()
        if short(n):
            return True
        for a, pol in p.conds:
            if pol and a[0] == "CMP" and a[1] == "Eq" and (
                    (a[2] == n and short(a[3])) or (a[3] == n and short(a[2]))):
                return True
        return False

    def assign_loop_target(self, tgt, v, env):
        if isinstance(tgt, ast.Name):
            env[tgt.id] = v
        elif isinstance(tgt, (ast.Tuple, ast.List)):
            for i, x in enumerate(tgt.elts):
                self.assign_loop_target(x, ("IDX", v, ("K", str(i))), env)
        else:
            raise Unsupported("loop target")

    # ---------------------------------------------------------------- normal form
    def normal(self, paths, state=(), loop=None):
        out = []
        for q in paths:
            # (text, outcome, the atom itself): the atom is carried for the fact extractors, the text
            # is what is sorted and printed
            conds = tuple(sorted(set((repr(a), pol, a) for a, pol in q.conds),
                                 key=lambda c: (c[0], c[1])))
            sets = tuple((nm, q.env[nm]) for nm in state
                         if nm in q.env and q.env[nm] != ("LS", loop, nm))
            out.append((conds, tuple(q.effects), q.exit, sets))
        out.sort(key=repr)
        return tuple(out)

    def function(self, fn):
        self.fn_stack = [fn]
        paths = self.block(list(fn.body), Path(), in_loop=False)
        return self.normal(paths)


def _anon_comp(v):
    if isinstance(v, tuple) and v and v[0] == "COMP":
        return ("COMP", "Comp") + v[2:]
    return v


def _first_ifexp(s):
    """the first conditional expression of a simple statement that is evaluated once (not inside a
    comprehension / lambda body)"""
    found = []

    def walk(n):
        if found:
            return
        if isinstance(n, (ast.ListComp, ast.GeneratorExp, ast.SetComp, ast.DictComp)):
            for g in n.generators[:1]:
                walk(g.iter)
            return
        if isinstance(n, ast.Lambda):
            return
        if isinstance(n, ast.IfExp):
            found.append(n)
            return
        for c in ast.iter_child_nodes(n):
            walk(c)
    walk(s)
    return found[0] if found else None


def _replace_node(s, node, by):
    """a deep copy of statement s in which `node` is replaced by (a copy of) `by`"""
    node._pn_mark = True
    try:
        s2 = copy.deepcopy(s)
    finally:
        del node._pn_mark

    class R(ast.NodeTransformer):
        def visit(self, n):
            if getattr(n, "_pn_mark", False):
                return copy.deepcopy(by)
            return self.generic_visit(n)
    return ast.fix_missing_locations(R().visit(s2))


def _contains(stmts, kinds):
    return any(isinstance(n, kinds) for s in stmts for n in ast.walk(s))


def _stored_names(stmts):
    """names assigned by the statements (comprehension variables are local to the comprehension)"""
    out = set()

    def walk(n):
        if isinstance(n, (ast.ListComp, ast.GeneratorExp, ast.SetComp, ast.DictComp, ast.Lambda,
                          ast.FunctionDef)):
            return
        if isinstance(n, ast.Name) and isinstance(n.ctx, ast.Store):
            out.add(n.id)
        for c in ast.iter_child_nodes(n):
            walk(c)
    for s in stmts:
        walk(s)
    return out


def _loaded_names(fn, skip):
    """names read anywhere in fn outside the subtree `skip`"""
    out = set()

    def walk(n):
        if n is skip:
            # the loop's own iterable is evaluated outside the body
            walk(skip.iter)
            return
        if isinstance(n, ast.Name) and isinstance(n.ctx, ast.Load):
            out.add(n.id)
        for c in ast.iter_child_nodes(n):
            walk(c)
    walk(fn)
    return out


def _mentions(q, sym):
    def has(v):
        if v == sym:
            return True
        if isinstance(v, (tuple, list)):
            return any(has(x) for x in v)
        return False
    return has(tuple(q.conds)) or has(tuple(q.effects)) or has(q.exit) or \
        has(tuple(v for k_, v in q.env.items() if v != sym))


def _target_names(t):
    return {n.id for n in ast.walk(t) if isinstance(n, ast.Name)}


def _fmt(v, ind=0):
    """readable, deterministic text of a normal form (what is pinned)"""
    pad = "  " * ind
    if isinstance(v, tuple) and v and all(isinstance(x, tuple) and len(x) == 4 and isinstance(
            x[0], tuple) and isinstance(x[1], tuple) for x in v):
        lines = []
        for conds, effects, ex, sets in v:
            lines.append(pad + "PATH " + (" & ".join(("" if c[1] else "not ") + c[0] for c in conds)
                                          or "always"))
            for e in effects:
                if e[0] == "FOREACH":
                    lines.append(pad + "  FOREACH#%d %r" % (e[1], e[2]))
                    lines.append(_fmt(e[3], ind + 2))
                else:
                    lines.append(pad + "  " + repr(e))
            for nm, val in sets:
                lines.append(pad + "  SET %s := %r" % (nm, val))
            lines.append(pad + "  EXIT %r" % (ex,))
        return "\n".join(lines)
    return pad + repr(v)


def normal_form_text(module, fn, **options):
    """the pinned text for function `fn` of `module` (an ast.Module)"""
    return _fmt(Exec(module, **options).function(fn))
