"""Fail-closed Python-`ast` -> Gallina translator for first-order integer/decision code.

Supported subset (anything else raises Unsupported, which the harness treats as a broken tie):
  statements : docstrings, Assign / AugAssign to a local name, If/elif/else (continuation is
               duplicated into both branches), Raise (-> Err), Return, Yield of a 2-tuple,
               `yield from <generator call>` (= the loop that re-yields its pairs),
               `for x in <list expr>: assigns; yield (a, b)`,
               `for a, b in <generator call>: yield (ea, eb)`,
               expression statements calling a configured procedure that may raise.
  expressions: int / bool / None constants, names, configured `self.<attr>`, + - * on Z with
               numpy broadcasting over list Z, comparisons, and/or/not, `x is (not) None` on option
               variables (refines the variable inside the branch), conditional expressions,
               `a[-1]`, `a[0]`, `a[a >= k]` (filter), and a table of primitive calls.
Types: Z, B (bool), L (list Z), O (option Z), Y (the series: only `y.shape[0]`, `y is None`),
       RLP / LP (generators with / without errors), RU (procedure that may raise).
The emitted definitions live in build/coq/<dir>/Gen.v; committed Bridge.v proves them equal to the
hand-written model for all arguments.

Rewrites the translation follows (so that a harmless clean-up of the source does not break the tie):
  * guard clauses / early returns (`if c: return a` + rest  ==  `if c: return a else: rest`) - by
    the continuation style of `block`;
  * private helpers: a call of a module-level function of the same file (or one imported from
    another file of the repository by `from m import f`, if cfg["repo"] is given) or of `self._m(..)`
    defined in the class of the translated method (or a base class in the same file) that has no
    handler in `calls` is translated by inlining the callee's body with its parameters bound to
    the translated arguments (kind "inl": `return e` gives the value, `raise` gives Err, the result
    type is inferred; abstract methods and recursion are not inlined);
  * `getattr(self, "a", d)` for `self.a` (when `self.a` is configured, else the default);
  * `yield <call that may raise>`; temporaries (`m = np.max(c)`), conditional expressions;
  * naming of locals: methods and attributes of typed values are looked up by the TYPE of the
    receiver (`calls["<L>.to_numpy"]`, cfg["attrs"][("Y", "index")]), not by the local's name;
  * boolean temporaries that hold a test (`has_iw = hasattr(self, "iw") and self.iw is not None`):
    when the right-hand side is not an expression of the subset (`is None`), the name stands for
    the test itself (single assignment of everything it mentions is checked) and a later
    `if has_iw:` / `a if has_iw else b` is translated as the test, with its refinements;
  * `x is None` on a value that cannot be None (Z, L, B) is statically false; `a or b` as a test.
"""
import os
import ast
import re

KEYWORDS = {"end", "at", "in", "as", "return", "using", "fix", "match", "with", "let", "fun",
            "if", "then", "else", "forall", "exists", "Type", "Prop", "Set", "where"}


class Unsupported(Exception):
    pass


def cname(n):
    return n + "_" if n in KEYWORDS else n


def find(mod, path):
    node = mod
    for p in path.split("."):
        for n in node.body:
            if isinstance(n, (ast.FunctionDef, ast.ClassDef)) and n.name == p:
                node = n
                break
        else:
            raise Unsupported("missing " + path)
    return node


COQTY = {"Z": "Z", "B": "bool", "L": "list Z", "O": "option Z", "Y": "Z",
         "OL": "option (list Z)", "V": "pyval", "FH": "fh_input"}
OPTION_OF = {"O": "Z", "OL": "L"}


def _is_string_expr(e):
    if isinstance(e, ast.JoinedStr):
        return True
    if isinstance(e, ast.Constant) and isinstance(e.value, str):
        return True
    if isinstance(e, ast.BinOp) and isinstance(e.op, ast.Add):
        return _is_string_expr(e.left) and _is_string_expr(e.right)
    return False
BIN = {ast.Add: "+", ast.Sub: "-", ast.Mult: "*"}
CMP = {ast.Gt: ">?", ast.GtE: ">=?", ast.Lt: "<?", ast.LtE: "<=?", ast.Eq: "=?"}


def _is_plain_data(e):
    """Names, constants, tuples of them and conditional expressions choosing between such - no
    calls, no arithmetic: evaluating it has no effect and cannot raise."""
    if isinstance(e, (ast.Name, ast.Constant)):
        return True
    if isinstance(e, ast.Tuple):
        return all(_is_plain_data(x) for x in e.elts)
    if isinstance(e, ast.IfExp):
        t = e.test
        ok = isinstance(t, ast.Name) or (
            isinstance(t, ast.Compare) and len(t.ops) == 1 and isinstance(t.ops[0], (ast.Is, ast.IsNot))
            and isinstance(t.left, ast.Name) and isinstance(t.comparators[0], ast.Constant))
        return ok and _is_plain_data(e.body) and _is_plain_data(e.orelse)
    return False


def is_rtype(ty):
    return len(ty) > 1 and ty[0] == "R" and ty != "RAISE"


def _body(fn):
    return [s for s in fn.body if not (isinstance(s, ast.Expr) and isinstance(s.value, ast.Constant)
                                       and isinstance(s.value.value, str))]


class Tr:
    """Translates one function. `calls` maps a call's unparsed callee to a handler."""

    def __init__(self, fn, cfg, calls):
        self.fn = fn
        self.cfg = cfg
        self.calls = calls
        self.kind = cfg["kind"]  # fun | rfun | proc | gen | rgen  (| inl while inlining a helper)
        self.mod = None          # module of `fn`: set by translate_function, enables inlining
        self.stack = []          # helpers being inlined
        self.unpack = []         # continuations of `a, b, .. = helper(..)` (innermost last)

    # ---- helper inlining ---------------------------------------------------------------------
    def lift(self, t, ty):
        """A value as the result of a computation that may raise."""
        if ty == "RAISE" or is_rtype(ty):
            return t, ty
        return "(Ok %s)" % t, "R" + ty

    def unify(self, a, ta, b, tb):
        """Common type of two branches (a raising branch fits any result type)."""
        if ta == tb:
            return a, b, ta
        if ta == "RAISE":
            b, tb = self.lift(b, tb)
            return a, b, tb
        if tb == "RAISE":
            a, ta = self.lift(a, ta)
            return a, b, ta
        if is_rtype(ta) and ta[1:] == tb:
            return a, "(Ok %s)" % b, ta
        if is_rtype(tb) and tb[1:] == ta:
            return "(Ok %s)" % a, b, tb
        raise Unsupported("branch types differ: %s vs %s" % (ta, tb))

    def resolve(self, f):
        """The definition a call refers to, if it is a private helper we may inline:
        (FunctionDef, takes_self) or None."""
        if self.mod is None:
            return None
        if isinstance(f, ast.Name):
            for n in self.mod.body:
                if isinstance(n, ast.FunctionDef) and n.name == f.id:
                    return n, False
            repo = self.cfg.get("repo")
            for n in self.mod.body:
                if repo and isinstance(n, ast.ImportFrom) and n.module and n.level == 0 \
                        and any((a.asname or a.name) == f.id for a in n.names):
                    name = [a.name for a in n.names if (a.asname or a.name) == f.id][0]
                    base = os.path.join(repo, *n.module.split("."))
                    for path in (base + ".py", os.path.join(base, "__init__.py")):
                        if os.path.exists(path):
                            with open(path) as fh_:
                                m2 = ast.parse(fh_.read())
                            for d in m2.body:
                                if isinstance(d, ast.FunctionDef) and d.name == name:
                                    return d, False
            return None
        if isinstance(f, ast.Attribute) and isinstance(f.value, ast.Name) and f.value.id == "self" \
                and "." in self.cfg.get("path", ""):
            classes = {n.name: n for n in self.mod.body if isinstance(n, ast.ClassDef)}
            todo, seen = [self.cfg["path"].split(".")[0]], set()
            while todo:
                c = todo.pop(0)
                if c in seen or c not in classes:
                    continue
                seen.add(c)
                for n in classes[c].body:
                    if isinstance(n, ast.FunctionDef) and n.name == f.attr:
                        static = any(ast.unparse(d) == "staticmethod" for d in n.decorator_list)
                        return n, not static
                todo += [ast.unparse(b) for b in classes[c].bases]
        return None

    def inline(self, e, env):
        """Translate a call of a private helper by inlining its body; None if `e` is not one."""
        r = self.resolve(e.func)
        if r is None:
            return None
        fn, takes_self = r
        body = _body(fn)
        if len(body) == 1 and isinstance(body[0], ast.Raise):
            return None                                   # abstract method
        if fn in self.stack or len(self.stack) >= 6:
            raise Unsupported("recursive helper " + fn.name)
        a = fn.args
        if a.vararg or a.kwarg or a.kwonlyargs or a.posonlyargs \
                or any(isinstance(x, ast.Starred) for x in e.args):
            raise Unsupported("signature of helper " + fn.name)
        names = [x.arg for x in a.args]
        if takes_self:
            names = names[1:]
        dflt = dict(zip(names[len(names) - len(a.defaults):], a.defaults))
        given = {}
        if len(e.args) > len(names):
            raise Unsupported("arguments of helper " + fn.name)
        for n, x in zip(names, e.args):
            given[n] = x
        for kw in e.keywords:
            if kw.arg is None or kw.arg not in names or kw.arg in given:
                raise Unsupported("keyword of helper " + fn.name)
            given[kw.arg] = kw.value
        def about_self(k):
            # facts about the object itself (`self.a`, `len(self._y)`) stay valid inside the helper
            try:
                ids = {x.id for x in ast.walk(ast.parse(k, mode="eval")) if isinstance(x, ast.Name)}
            except SyntaxError:
                return False
            return "self" in ids and ids <= {"self", "len", "abs", "np", "pd"}
        env2 = {k: v for k, v in env.items() if about_self(k)}
        for n in names:
            node = given.get(n)
            try:
                if node is None:
                    if n not in dflt:
                        raise Unsupported("missing argument %s of %s" % (n, fn.name))
                    t, ty = self.expr(dflt[n], {})
                else:
                    t, ty = self.expr(node, env)
                if is_rtype(ty) or ty == "RAISE":
                    raise Unsupported("raising argument of helper " + fn.name)
            except Unsupported:
                # an argument outside the subset (`self`, a message, ...) is fine as long as the
                # helper only uses it where text does not matter (messages of `raise`)
                t, ty = "?", "UNBOUND"
            env2[n] = (t, ty)
        saved = self.kind
        self.kind = "inl"
        self.stack.append(fn)
        try:
            t, ty = self.block(body, env2)
        finally:
            self.kind = saved
            self.stack.pop()
        if ty == "RAISE":
            raise Unsupported("helper %s always raises" % fn.name)
        return t, ty

    def unpack_call(self, s, rest, env):
        """`a, b, .. = helper(..)` for a private helper that returns tuples: the helper's body is
        translated in place (parameters bound to the translated arguments, as in `inline`), and at
        each of its `return (e1, e2, ..)` the caller goes on with the targets bound to the values -
        so a function split into steps that hand several values on normalises to the unsplit code.
        None if the right-hand side is not such a call."""
        e = s.value
        r = self.resolve(e.func)
        if r is None or ast.unparse(e.func) in self.calls:
            return None
        fn, takes_self = r
        body = _body(fn)
        if len(body) == 1 and isinstance(body[0], ast.Raise):
            return None
        if fn in self.stack or len(self.stack) >= 6:
            raise Unsupported("recursive helper " + fn.name)
        a = fn.args
        if a.vararg or a.kwarg or a.kwonlyargs or a.posonlyargs or fn.decorator_list and not all(
                ast.unparse(d) == "staticmethod" for d in fn.decorator_list) \
                or any(isinstance(x, ast.Starred) for x in e.args):
            raise Unsupported("signature of helper " + fn.name)
        names = [x.arg for x in a.args][1 if takes_self else 0:]
        dflt = dict(zip(names[len(names) - len(a.defaults):], a.defaults))
        if len(e.args) > len(names):
            raise Unsupported("arguments of helper " + fn.name)
        given = dict(zip(names, e.args))
        for kw in e.keywords:
            if kw.arg is None or kw.arg not in names or kw.arg in given:
                raise Unsupported("keyword of helper " + fn.name)
            given[kw.arg] = kw.value
        henv = {k: v for k, v in env.items() if k == "self" or k.startswith("self.")}
        for n in names:
            node = given.get(n, dflt.get(n))
            if node is None:
                raise Unsupported("missing argument %s of %s" % (n, fn.name))
            t, ty = self.expr(node, env if n in given else {})
            if is_rtype(ty) or ty == "RAISE":
                raise Unsupported("raising argument of helper " + fn.name)
            henv[n] = (t, ty)
        targets = s.targets[0].elts
        depth = len(self.stack)

        def k(ret, env_h):
            v = ret.value
            if not isinstance(v, ast.Tuple) or len(v.elts) != len(targets):
                raise Unsupported("helper %s does not return %d values" % (fn.name, len(targets)))
            env_c = dict(env)
            lets = []
            for tg, x in zip(targets, v.elts):
                t, ty = self.expr(x, env_h)
                if is_rtype(ty) or ty in ("RAISE", "UNBOUND", "TESTAST"):
                    raise Unsupported("returned value of type %s in %s" % (ty, fn.name))
                if re.match(r"^[A-Za-z_][A-Za-z0-9_']*$", t):
                    env_c[tg.id] = (t, ty)
                else:
                    lets.append((cname(tg.id), t))
                    env_c[tg.id] = (cname(tg.id), ty)
            # the caller's own statements: outside the helper again
            saved_stack, saved_unpack = self.stack[depth:], self.unpack[:]
            del self.stack[depth:]
            self.unpack.pop()
            try:
                body_, bty = self.block(rest, env_c)
            finally:
                self.stack.extend(saved_stack)
                self.unpack[:] = saved_unpack
            for n_, t_ in reversed(lets):
                body_ = "(let %s := %s in\n  %s)" % (n_, t_, body_)
            return body_, bty
        self.stack.append(fn)
        self.unpack.append(k)
        try:
            # (falling off the end of the helper would return None: nothing to unpack)
            return self.block(body + [ast.Return(value=None)], henv)
        finally:
            self.unpack.pop()
            self.stack.pop()

    # ---- expressions: return (coq text, type)
    def expr(self, e, env):
        if isinstance(e, ast.Constant):
            if isinstance(e.value, bool):
                return ("true" if e.value else "false"), "B"
            if isinstance(e.value, int):
                return ("(%d)" % e.value), "Z"
            if e.value is None:
                return "None", "O"
            raise Unsupported("constant %r" % (e.value,))
        if isinstance(e, ast.Name):
            if e.id in env:
                if env[e.id][1] == "UNBOUND":
                    raise Unsupported("argument %s of a helper is outside the subset" % e.id)
                if env[e.id][1] == "TESTAST":
                    return self.expr(env[e.id][0], env)
                return env[e.id]
            raise Unsupported("unbound name " + e.id)
        if isinstance(e, ast.Attribute):
            u = ast.unparse(e)
            if u in env:
                return env[u]
            if e.attr == "shape" and isinstance(e.value, ast.Name) and e.value.id in env \
                    and env[e.value.id][1] == "Y":
                return env[e.value.id][0], "YSHAPE"
            if self.cfg.get("attrs") and isinstance(e.value, ast.Name) and e.value.id in env:
                key = (env[e.value.id][1], e.attr)
                if key in self.cfg["attrs"]:
                    return self.cfg["attrs"][key]
            raise Unsupported("attribute " + u)
        if isinstance(e, ast.UnaryOp) and isinstance(e.op, ast.Not):
            t, ty = self.expr(e.operand, env)
            self.need(ty, "B", e)
            return "(negb %s)" % t, "B"
        if isinstance(e, ast.UnaryOp) and isinstance(e.op, ast.USub):
            t, ty = self.expr(e.operand, env)
            self.need(ty, "Z", e)
            return "(- %s)" % t, "Z"
        if isinstance(e, ast.BoolOp):
            parts = [self.expr(v, env) for v in e.values]
            for _, ty in parts:
                self.need(ty, "B", e)
            op = " && " if isinstance(e.op, ast.And) else " || "
            return "(" + op.join(p for p, _ in parts) + ")", "B"
        if isinstance(e, ast.BinOp) and type(e.op) in BIN:
            a, ta = self.expr(e.left, env)
            b, tb = self.expr(e.right, env)
            op = BIN[type(e.op)]
            if ta == "Z" and tb == "Z":
                return "(%s %s %s)" % (a, op, b), "Z"
            if ta == "L" and tb == "Z":
                return "(map (fun v_ => v_ %s %s) %s)" % (op, b, a), "L"
            if ta == "Z" and tb == "L":
                return "(map (fun v_ => %s %s v_) %s)" % (a, op, b), "L"
            raise Unsupported("binop types %s %s in %s" % (ta, tb, ast.unparse(e)))
        if isinstance(e, ast.Compare) and len(e.ops) == 1:
            op = e.ops[0]
            if isinstance(op, (ast.Is, ast.IsNot)):
                raise Unsupported("`is` only supported as an if/ifexp test: " + ast.unparse(e))
            if type(op) in CMP:
                a, ta = self.expr(e.left, env)
                b, tb = self.expr(e.comparators[0], env)
                if ta == "V" and tb == "Z" and isinstance(op, ast.Lt):
                    return "(pv_lt %s %s)" % (a, b), "B"
                if ta == "V" and tb == "Z" and isinstance(op, ast.GtE):
                    return "(negb (pv_lt %s %s))" % (a, b), "B"
                self.need(ta, "Z", e)
                self.need(tb, "Z", e)
                return "(%s %s %s)" % (a, CMP[type(op)], b), "B"
        if isinstance(e, ast.IfExp):
            return self.cond(e.test, env,
                             lambda en: self.expr(e.body, en), lambda en: self.expr(e.orelse, en))
        if isinstance(e, ast.Subscript):
            u = ast.unparse(e)
            if u in env:
                return env[u]
            v, tv = self.expr(e.value, env)
            s = e.slice
            if tv == "YSHAPE" and isinstance(s, ast.Constant) and s.value == 0:
                return v, "Z"                      # y.shape[0] of the (always given) series
            if tv == "LOC":
                # label-based selection on a series: the labels of the result are the given
                # labels (pandas raises KeyError for labels not in the index: a side condition of
                # the bridge lemma)
                t_, ty_ = self.expr(s, env)
                self.need(ty_, "L", e)
                return t_, "L"
            if tv == "L" and isinstance(s, ast.UnaryOp) and isinstance(s.op, ast.USub) \
                    and isinstance(s.operand, ast.Constant) and s.operand.value == 1:
                return "(zlast %s)" % v, "Z"
            if tv == "L" and isinstance(s, ast.Constant) and s.value == 0:
                return "(zfirst %s)" % v, "Z"
            if tv == "L" and isinstance(s, (ast.Compare, ast.BinOp)):
                return "(filter (fun v_ => %s) %s)" % (self.mask(s, ast.unparse(e.value), env), v), "L"
            if tv == "L" and isinstance(s, ast.Slice) and s.step is None:
                def neg(x):
                    if isinstance(x, ast.UnaryOp) and isinstance(x.op, ast.USub):
                        t_, ty_ = self.expr(x.operand, env)
                        self.need(ty_, "Z", e)
                        return t_
                    raise Unsupported("only slices of the form a[:-k] / a[-k:] are supported")
                if s.lower is None and s.upper is not None:
                    return "(drop_last %s %s)" % (neg(s.upper), v), "L"
                if s.upper is None and s.lower is not None:
                    return "(take_last %s %s)" % (neg(s.lower), v), "L"
                raise Unsupported("slice shape " + u)
            if tv == "L" and isinstance(s, ast.Name):
                i_, ti = self.expr(s, env)
                if ti == "L":
                    return "(take_idx %s %s)" % (v, i_), "L"
            raise Unsupported("subscript " + u)
        if isinstance(e, ast.Call):
            callee = ast.unparse(e.func)
            if callee in self.calls:
                return self.calls[callee](self, e, env)
            if isinstance(e.func, ast.Attribute) and isinstance(e.func.value, ast.Name) \
                    and e.func.value.id in env and env[e.func.value.id][1] not in ("UNBOUND", "TESTAST"):
                rt, rty = env[e.func.value.id]
                key = "<%s>.%s" % (rty, e.func.attr)
                if key in self.calls:
                    return self.calls[key](self, e, env, rt)
            if isinstance(e.func, ast.Attribute) and isinstance(e.func.value, ast.Call):
                # a method of a computed receiver (`fh.to_pandas().max()`): dispatched by its type
                try:
                    rt, rty = self.expr(e.func.value, env)
                except Unsupported:
                    rt, rty = None, None
                if rty is not None and "<%s>.%s" % (rty, e.func.attr) in self.calls:
                    return self.calls["<%s>.%s" % (rty, e.func.attr)](self, e, env, rt)
            if callee == "getattr" and len(e.args) == 3 and not e.keywords \
                    and ast.unparse(e.args[0]) == "self" and isinstance(e.args[1], ast.Constant) \
                    and isinstance(e.args[1].value, str):
                key = "self." + e.args[1].value
                if key in env:
                    return env[key]            # the attribute exists on the modelled object
                if key in self.cfg.get("absent_attrs", ()):
                    return self.expr(e.args[2], env)
                raise Unsupported("getattr of unconfigured attribute " + key)
            r = self.inline(e, env)
            if r is not None:
                return r
            raise Unsupported("call " + callee)
        if isinstance(e, ast.Tuple) and len(e.elts) == 2:
            a, ta = self.expr(e.elts[0], env)
            b, tb = self.expr(e.elts[1], env)
            self.need(ta, "L", e)
            self.need(tb, "L", e)
            return "(%s, %s)" % (a, b), "P"
        raise Unsupported("expression " + ast.dump(e)[:120])

    def mask(self, m, arr, env):
        """Boolean mask over the array named `arr` as the body of `fun v_ => ...`."""
        if isinstance(m, ast.BinOp) and isinstance(m.op, ast.BitAnd):
            return "(%s && %s)" % (self.mask(m.left, arr, env), self.mask(m.right, arr, env))
        if isinstance(m, ast.Compare) and len(m.ops) == 1 and type(m.ops[0]) in CMP:
            l_, r_ = m.left, m.comparators[0]
            if ast.unparse(l_) == arr:
                k, tk = self.expr(r_, env)
                self.need(tk, "Z", m)
                return "(v_ %s %s)" % (CMP[type(m.ops[0])], k)
            if ast.unparse(r_) == arr:
                k, tk = self.expr(l_, env)
                self.need(tk, "Z", m)
                return "(%s %s v_)" % (k, CMP[type(m.ops[0])])
        raise Unsupported("mask " + ast.unparse(m))

    def need(self, ty, want, e):
        if ty != want:
            raise Unsupported("type %s where %s expected in %s" % (ty, want, ast.unparse(e)[:80]))

    def cond(self, test, env, then_k, else_k):
        """Translate a conditional; `x is None` / `x is not None` on option variables refine x."""
        if isinstance(test, ast.Name) and test.id in env and env[test.id][1] == "TESTAST":
            return self.cond(env[test.id][0], env, then_k, else_k)
        if isinstance(test, ast.UnaryOp) and isinstance(test.op, ast.Not) \
                and isinstance(test.operand, ast.Name) and test.operand.id in env \
                and env[test.operand.id][1] == "TESTAST":
            return self.cond(env[test.operand.id][0], env, else_k, then_k)
        if isinstance(test, ast.BoolOp) and isinstance(test.op, ast.Or) and self._has_none_test(test, env):
            # a or b or ...: short-circuit, continuation duplicated (so that `is None` tests refine)
            rest = test.values[1] if len(test.values) == 2 else ast.BoolOp(op=ast.Or(),
                                                                           values=test.values[1:])
            return self.cond(test.values[0], env, then_k,
                             lambda en: self.cond(rest, en, then_k, else_k))
        if isinstance(test, ast.BoolOp) and isinstance(test.op, ast.And) and len(test.values) > 2 \
                and self._has_none_test(test, env):
            rest = ast.BoolOp(op=ast.And(), values=test.values[1:])
            return self.cond(test.values[0], env,
                             lambda en: self.cond(rest, en, then_k, else_k), else_k)
        if isinstance(test, ast.UnaryOp) and isinstance(test.op, ast.Not) \
                and self._has_none_test(test.operand, env):
            return self.cond(test.operand, env, else_k, then_k)
        if isinstance(test, ast.Compare) and len(test.ops) == 1 \
                and isinstance(test.ops[0], (ast.Is, ast.IsNot)) \
                and isinstance(test.comparators[0], ast.Constant) \
                and test.comparators[0].value is None:
            t, ty = self.expr(test.left, env)
            neg = isinstance(test.ops[0], ast.IsNot)
            if ty == "Y":  # the series argument is always given in our model
                return (then_k if neg else else_k)(env)
            if ty == "ABSENT":  # an optional argument the translation is specialised to None
                return (else_k if neg else then_k)(env)
            if ty in ("Z", "L", "B", "PRESENT"):   # a number / array / flag is never None
                return (then_k if neg else else_k)(env)
            if ty == "V":
                c = "(negb (pv_is_none %s))" % t if neg else "(pv_is_none %s)" % t
                a, ta = then_k(env)
                b, tb = else_k(env)
                a, b, ta = self.unify(a, ta, b, tb)
                return "(if %s then %s else %s)" % (c, a, b), ta
            if ty not in OPTION_OF:
                raise Unsupported("`is None` on type " + ty)
            binder = re.sub(r"[^A-Za-z0-9_]", "", t.split()[-1]) + "_v"
            inner = OPTION_OF[ty]
            env_some = {k: ((binder, inner) if v == (t, ty) else v) for k, v in env.items()}
            some_t, some_ty = (then_k if neg else else_k)(env_some)
            none_t, none_ty = (else_k if neg else then_k)(env)
            some_t, none_t, some_ty = self.unify(some_t, some_ty, none_t, none_ty)
            return "(match %s with Some %s => %s | None => %s end)" % (t, binder, some_t, none_t), \
                some_ty
        if isinstance(test, ast.BoolOp) and isinstance(test.op, ast.And) and len(test.values) == 2:
            # `a and b` as a test: nested, so that an `is not None` conjunct refines the variable
            return self.cond(test.values[0], env,
                             lambda en: self.cond(test.values[1], en, then_k, else_k), else_k)
        c, tc = self.expr(test, env)
        self.need(tc, "B", test)
        a, ta = then_k(env)
        b, tb = else_k(env)
        a, b, ta = self.unify(a, ta, b, tb)
        return "(if %s then %s else %s)" % (c, a, b), ta

    def _has_none_test(self, t, env):
        """Does the test contain `x is (not) None` (directly or through a test temporary)?"""
        for n in ast.walk(t):
            if isinstance(n, ast.Compare) and any(isinstance(o, (ast.Is, ast.IsNot)) for o in n.ops):
                return True
            if isinstance(n, ast.Name) and n.id in env and env[n.id][1] == "TESTAST":
                return True
        return False

    def _single_assignment(self, node):
        """Every local the expression mentions is assigned at most once in the enclosing function
        (so the expression means the same wherever it is evaluated later)."""
        fn = self.stack[-1] if self.stack else self.fn
        counts = {}
        for x in ast.walk(fn):
            if isinstance(x, ast.Name) and isinstance(x.ctx, ast.Store):
                counts[x.id] = counts.get(x.id, 0) + 1
            elif isinstance(x, ast.AugAssign) and isinstance(x.target, ast.Name):
                counts[x.target.id] = counts.get(x.target.id, 0) + 1
        return all(counts.get(x.id, 0) <= 1 for x in ast.walk(node) if isinstance(x, ast.Name))

    # ---- statements, continuation style; result type depends on kind
    def ret_type(self):
        if self.kind == "inl":
            return "RAISE"
        if self.kind == "proc" and self.cfg.get("final"):
            return "R" + self.cfg["state"][self.cfg["final"]]
        return {"fun": self.cfg.get("ret", "Z"), "rfun": "R" + self.cfg.get("ret", "Z"),
                "proc": "RU", "gen": "LP", "rgen": "RLP"}[self.kind]

    def finish(self, env=None):
        k = self.kind
        if k == "inl":
            return "tt", "U"          # the helper falls off its end: returns None
        if k == "proc" and self.cfg.get("final"):
            t, ty = env[self.cfg["final"]]
            want = self.cfg["state"][self.cfg["final"]]
            if ty != want and OPTION_OF.get(want) == ty:
                t, ty = "(Some %s)" % t, want
            return "(Ok %s)" % t, "R" + ty
        if k == "proc":
            return "(Ok tt)", "RU"
        if k == "gen":
            return "[]", "LP"
        if k == "rgen":
            return "(Ok [])", "RLP"
        raise Unsupported("function falls off its end")

    def block(self, stmts, env):
        if not stmts:
            return self.finish(env)
        s, rest = stmts[0], stmts[1:]
        if isinstance(s, ast.Pass):
            return self.block(rest, env)
        if isinstance(s, ast.Assign) and _is_string_expr(s.value):
            return self.block(rest, env)  # message text, only used inside `raise`
        if isinstance(s, ast.Assign) and len(s.targets) == 1 \
                and isinstance(s.targets[0], ast.Attribute) \
                and ast.unparse(s.targets[0]) in self.cfg.get("state", ()):
            # assignment to a configured state attribute, e.g. `self._fh = fh`
            key = ast.unparse(s.targets[0])
            t, ty = self.expr(s.value, env)
            want = self.cfg["state"][key]
            if is_rtype(ty) and self.kind in ("rfun", "proc", "rgen") \
                    and (ty[1:] == want or OPTION_OF.get(want) == ty[1:]):
                # `self.a = <call that may raise>`: the attribute is set only if the call returns
                v = cname(re.sub(r"[^A-Za-z0-9_]", "_", key.split(".")[-1]).strip("_") or "a") + "_r"
                inner = "(Some %s)" % v if ty[1:] != want else v
                env2 = dict(env)
                env2[key] = (inner, want)
                body, bty = self.block(rest, env2)
                return "(match %s with Err => Err | Ok %s => %s end)" % (t, v, body), bty
            if ty != want and OPTION_OF.get(want) == ty:
                t, ty = "(Some %s)" % t, want
            self.need(ty, want, s)
            env2 = dict(env)
            env2[key] = (t, ty)
            return self.block(rest, env2)
        if isinstance(s, ast.Expr) and isinstance(s.value, ast.Constant) \
                and isinstance(s.value.value, str):
            return self.block(rest, env)
        if isinstance(s, ast.Assign) and len(s.targets) == 1 \
                and isinstance(s.targets[0], ast.Tuple) and isinstance(s.value, ast.Call) \
                and all(isinstance(x, ast.Name) for x in s.targets[0].elts):
            r = self.unpack_call(s, rest, env)
            if r is not None:
                return r
        if isinstance(s, ast.Assign) and len(s.targets) == 1 \
                and isinstance(s.targets[0], ast.Tuple) and isinstance(s.value, ast.Tuple) \
                and len(s.targets[0].elts) == len(s.value.elts) \
                and all(isinstance(x, ast.Name) for x in s.targets[0].elts):
            # a, b = e1, e2  (right-hand sides must not mention the targets)
            names = {x.id for x in s.targets[0].elts}
            for v in s.value.elts:
                if names & {n.id for n in ast.walk(v) if isinstance(n, ast.Name)}:
                    raise Unsupported("tuple assignment with dependent right-hand side")
            seq = [ast.Assign(targets=[t], value=v) for t, v in zip(s.targets[0].elts, s.value.elts)]
            return self.block(seq + rest, env)
        if isinstance(s, ast.Assign) and len(s.targets) == 1 and isinstance(s.targets[0], ast.Name) \
                and isinstance(s.value, (ast.BoolOp, ast.Compare, ast.UnaryOp)) \
                and self._has_none_test(s.value, env):
            # a boolean temporary holding a test with `is None` in it: the name stands for the test
            if not self._single_assignment(s.value) or not self._single_assignment(s.targets[0]):
                raise Unsupported("test temporary %s is not single-assignment" % s.targets[0].id)
            env2 = dict(env)
            env2[s.targets[0].id] = (s.value, "TESTAST")
            return self.block(rest, env2)
        if isinstance(s, ast.Assign) and len(s.targets) == 1 and isinstance(s.targets[0], ast.Name) \
                and _is_plain_data(s.value):
            # a tuple / choice of arguments put aside (`series = (y,) if X is None else (y, X)`):
            # nothing to compute; the name is only usable where a handler asks for its definition
            try:
                self.expr(s.value, env)
            except Unsupported:
                env2 = dict(env)
                env2[s.targets[0].id] = (s.value, "UNBOUND")
                return self.block(rest, env2)
        if isinstance(s, ast.Assign) and len(s.targets) == 1 and isinstance(s.targets[0], ast.Name):
            v = s.targets[0].id
            t, ty = self.expr(s.value, env)
            if ty in ("RZ", "RL", "RV") and self.kind in ("rfun", "proc", "rgen", "inl"):
                env2 = dict(env)
                env2[v] = (cname(v), ty[1:])
                body, bty = self.block(rest, env2)
                if self.kind == "inl":
                    body, bty = self.lift(body, bty)
                return "(match %s with Err => Err | Ok %s => %s end)" % (t, cname(v), body), bty
            if ty in ("RLP", "LP", "RU", "P"):
                raise Unsupported("assignment of type " + ty)
            env2 = dict(env)
            if re.match(r"^[A-Za-z_][A-Za-z0-9_']*$", t):
                # pure alias (e.g. `x = check_window_length(self.x)`): no let, so that a later
                # `is not None` test on either name refines both
                env2[v] = (t, ty)
                return self.block(rest, env2)
            env2[v] = (cname(v), ty)
            body, bty = self.block(rest, env2)
            return "(let %s := %s in\n  %s)" % (cname(v), t, body), bty
        if isinstance(s, ast.AugAssign) and isinstance(s.target, ast.Name) and type(s.op) in BIN:
            new = ast.Assign(targets=[s.target],
                             value=ast.BinOp(left=ast.Name(id=s.target.id, ctx=ast.Load()),
                                             op=s.op, right=s.value))
            return self.block([new] + rest, env)
        if isinstance(s, ast.If):
            return self.cond(s.test, env,
                             lambda en: self.block(s.body + rest, en),
                             lambda en: self.block(s.orelse + rest, en))
        if isinstance(s, ast.Raise):
            if self.kind in ("rfun", "proc", "rgen", "inl"):
                return "Err", self.ret_type()
            raise Unsupported("raise in a function configured as total")
        if isinstance(s, ast.Return) and self.unpack:
            return self.unpack[-1](s, env)
        if isinstance(s, ast.Return):
            if self.kind == "inl":
                if s.value is None or (isinstance(s.value, ast.Constant) and s.value.value is None):
                    return "tt", "U"
                return self.expr(s.value, env)
            if self.kind == "fun":
                t, ty = self.expr(s.value, env)
                self.need(ty, self.cfg.get("ret", "Z"), s)
                return t, ty
            if self.kind == "rfun":
                t, ty = self.expr(s.value, env)
                if ty == "R" + self.cfg.get("ret", "Z"):
                    return t, ty
                self.need(ty, self.cfg.get("ret", "Z"), s)
                return "(Ok %s)" % t, "R" + ty
            if self.kind == "proc" and (s.value is None or (
                    isinstance(s.value, ast.Constant) and s.value.value is None)):
                return self.finish(env)        # early `return` of a procedure
            raise Unsupported("return in generator/procedure")
        if isinstance(s, ast.Expr) and isinstance(s.value, ast.Yield):
            t, ty = self.expr(s.value.value, env)
            if ty == "RP" and self.kind == "rgen":
                # the yielded pair comes from a call that may raise
                body, bty = self.block(rest, env)
                return "(match %s with Err => Err | Ok p_ => rcons p_ %s end)" % (t, body), "RLP"
            self.need(ty, "P", s)
            body, bty = self.block(rest, env)
            if self.kind == "gen":
                return "(%s :: %s)" % (t, body), "LP"
            if self.kind == "rgen":
                return "(rcons %s %s)" % (t, body), "RLP"
            raise Unsupported("yield outside generator")
        if isinstance(s, ast.Expr) and isinstance(s.value, ast.Call):
            t, ty = self.expr(s.value, env)
            if ty == "U":
                return self.block(rest, env)       # an inlined helper that cannot raise here
            if ty != "RU":
                raise Unsupported("expression statement of type " + ty)
            if self.kind not in ("rfun", "proc", "rgen", "inl"):
                raise Unsupported("raising call in total function")
            body, bty = self.block(rest, env)
            if self.kind == "inl":
                body, bty = self.lift(body, bty)
            return "(match %s with Err => Err | Ok _ => %s end)" % (t, body), bty
        if isinstance(s, ast.For) and not s.orelse:
            return self.loop(s, rest, env)
        if isinstance(s, ast.Expr) and isinstance(s.value, ast.YieldFrom):
            # `yield from g(..)` of a generator of pairs == `for a, b in g(..): yield a, b`
            a, b = ast.Name(id="yf_a_", ctx=ast.Load()), ast.Name(id="yf_b_", ctx=ast.Load())
            if "yf_a_" in env or "yf_b_" in env:
                raise Unsupported("reserved name")
            loop = ast.For(
                target=ast.Tuple(elts=[ast.Name(id="yf_a_", ctx=ast.Store()),
                                       ast.Name(id="yf_b_", ctx=ast.Store())], ctx=ast.Store()),
                iter=s.value.value,
                body=[ast.Expr(value=ast.Yield(value=ast.Tuple(elts=[a, b], ctx=ast.Load())))],
                orelse=[])
            return self.loop(loop, rest, env)
        raise Unsupported("statement " + ast.dump(s)[:120])

    def loop(self, s, rest, env):
        if self.kind not in ("gen", "rgen"):
            raise Unsupported("loop outside generator")
        # pattern 2: for a, b in <generator call>: yield (ea, eb)
        if isinstance(s.target, ast.Tuple) and len(s.target.elts) == 2 \
                and all(isinstance(x, ast.Name) for x in s.target.elts):
            src, sty = self.expr(s.iter, env)
            if sty not in ("LP", "RLP"):
                raise Unsupported("tuple loop over " + sty)
            a, b = (x.id for x in s.target.elts)
            env2 = dict(env)
            env2[a] = (cname(a), "L")
            env2[b] = (cname(b), "L")
            if len(s.body) != 1 or not (isinstance(s.body[0], ast.Expr)
                                        and isinstance(s.body[0].value, ast.Yield)):
                raise Unsupported("tuple loop body")
            t, ty = self.expr(s.body[0].value.value, env2)
            self.need(ty, "P", s)
            f = "(fun '(%s, %s) => %s)" % (cname(a), cname(b), t)
            body, bty = self.block(rest, env)
            if sty == "LP" and self.kind == "gen":
                return "(map %s %s ++ %s)" % (f, src, body), "LP"
            if sty == "LP":
                return "(rapp (map %s %s) %s)" % (f, src, body), "RLP"
            if self.kind != "rgen":
                raise Unsupported("raising generator consumed by total generator")
            return "(match %s with Err => Err | Ok l_ => rapp (map %s l_) %s end)" \
                % (src, f, body), "RLP"
        # pattern 1: for x in <list Z>: assigns; yield (a, b)
        if isinstance(s.target, ast.Name):
            src, sty = self.expr(s.iter, env)
            self.need(sty, "L", s)
            x = s.target.id
            env2 = dict(env)
            env2[x] = (cname(x), "Z")
            saved = self.kind
            self.kind = "loopbody"
            try:
                inner = self.loop_body(s.body, env2)
            finally:
                self.kind = saved
            f = "(fun %s => %s)" % (cname(x), inner)
            body, bty = self.block(rest, env)
            if self.kind == "gen":
                return "(map %s %s ++ %s)" % (f, src, body), "LP"
            return "(rapp (map %s %s) %s)" % (f, src, body), "RLP"
        raise Unsupported("loop shape")

    def loop_body(self, stmts, env):
        if not stmts:
            raise Unsupported("loop body without yield")
        s, rest = stmts[0], stmts[1:]
        if isinstance(s, ast.Assign) and len(s.targets) == 1 and isinstance(s.targets[0], ast.Name):
            v = s.targets[0].id
            t, ty = self.expr(s.value, env)
            env2 = dict(env)
            env2[v] = (cname(v), ty)
            return "let %s := %s in %s" % (cname(v), t, self.loop_body(rest, env2))
        if isinstance(s, ast.Expr) and isinstance(s.value, ast.Yield) and not rest:
            t, ty = self.expr(s.value.value, env)
            self.need(ty, "P", s)
            return t
        raise Unsupported("loop body statement " + ast.dump(s)[:100])


# ---- primitive call handlers -----------------------------------------------------------------


def prim(fmt, argtypes, ret):
    def h(tr, e, env):
        if e.keywords or len(e.args) != len(argtypes):
            raise Unsupported("arity of " + ast.unparse(e))
        args = []
        for a, want in zip(e.args, argtypes):
            t, ty = tr.expr(a, env)
            tr.need(ty, want, e)
            args.append(t)
        return fmt % tuple(args), ret
    return h


def identity_first(tr, e, env):
    """check_* validators: identity on the (already valid) first argument (C20 covers rejection)."""
    if not e.args:
        raise Unsupported("validator without argument")
    return tr.expr(e.args[0], env)


def const(text, ty):
    def h(tr, e, env):
        return text, ty
    return h


def arange(tr, e, env):
    if e.keywords or len(e.args) not in (2, 3):
        raise Unsupported("arange arity")
    args = []
    for a in e.args:
        t, ty = tr.expr(a, env)
        tr.need(ty, "Z", e)
        args.append(t)
    if len(args) == 2:
        args.append("1")
    return "(zrange %s %s %s)" % tuple(args), "L"


def translate_function(mod, cfg, calls):
    fn = find(mod, cfg["path"])
    if not isinstance(fn, ast.FunctionDef):
        raise Unsupported(cfg["path"] + " is not a function")
    declared = [a.arg for a in fn.args.args]
    env = {}
    params = []
    for py, coq, ty in cfg["params"]:
        if "." not in py and not py.startswith("@") and py not in declared:
            raise Unsupported("%s has no parameter %s" % (cfg["path"], py))
        if not py.startswith("@"):
            env[py] = (coq, ty)
        params.append((coq, ty))
    for py, (coq, ty) in cfg.get("env", {}).items():
        env[py] = (coq, ty)
    for a in declared:
        if a != "self" and a not in env and a not in cfg.get("ignore", ()):
            raise Unsupported("%s: parameter %s is not configured" % (cfg["path"], a))
    tr = Tr(fn, cfg, calls)
    tr.mod = mod
    body, ty = tr.block(fn.body, env)
    seen = []
    for coq, ty_ in params:
        if coq not in [c for c, _ in seen]:
            seen.append((coq, ty_))
    sig = " ".join("(%s : %s)" % (c, cfg.get("coqtypes", {}).get(c, COQTY.get(t, t)))
                   for c, t in seen)
    rty = {"Z": "Z", "B": "bool", "L": "list Z", "RZ": "res Z", "RL": "res (list Z)",
           "P": "(list Z * list Z)", "RP": "res (list Z * list Z)",
           "V": "pyval", "RV": "res pyval", "ROL": "res (option (list Z))",
           "RU": "res unit", "LP": "list (list Z * list Z)",
           "RLP": "res (list (list Z * list Z))"}[tr.ret_type()]
    return "Definition %s %s : %s :=\n  %s.\n" % (cfg["coq"], sig, rty, body)
