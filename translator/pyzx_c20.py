"""Extension of the fail-closed translator `pyz` for the validation code of C20 / C01.

`TrX` subclasses `pyz.Tr`; every additional source shape is recognised exactly (anything else
falls through to pyz, which raises Unsupported).  Nothing in pyz itself changes.

Additional types: S (series descriptor), OS (option S), LS (list S), IX (index descriptor),
K / OK / KS (index kind, optional, list), TYS (list of container types), CV (cv descriptor),
SC (optional scoring), STR / STRS (string, tuple of strings), NL (list of names), ML (list of
(name, estimator kind)), MKL (list of estimator kinds), MK (estimator kind), FCS (the `forecasters`
attribute), ST (strategy of NaiveForecaster), YX (pair returned by check_y_X), R<T> for a
computation that may raise.

Additional statements: skipped `from .. import ..` (configured), `warn(...)`, `assert` (configured),
expression statements / assignments of any raising call, assignments to configured state
attributes with int -> value coercion, `a, b = zip(*xs)`, `for x in xs: <raising statements>`
(outside generators), `return a, b` for the configured pair type, ignored return values of
procedures.
Additional expressions: `x != k`, attributes of typed values (`Z.index`, `Z.ndim`,
`index.is_monotonic`, `cv.start_with_window`), `type(index) in TYPES`, `type(index) is (not) T`,
`a.equals(b)`, comparisons of Python values that may raise (`V < V`, `V > int`), `V == int`,
`strategy == "<name>"`, `x (not) in <tuple of str>`, truthiness of optional / list values as a
test, constant folding of tests on parameters the translation is specialised to, keyword calls
of other regenerated functions with the defaults taken from the callee's definition.
"""
import ast
import re

from . import pyz
from .pyz import Unsupported, cname, find

COQTY = dict(pyz.COQTY)
COQTY.update({
    "PARAMS": "list Z", "PRESENT": "unit", "ABSENT": "unit", "Y": "Z", "SKSPLIT":
    "Z -> option Z -> option Z -> res (list Z * list Z)",
    "S": "series", "OS": "option series", "LS": "list series", "IX": "ixdesc", "K": "ixkind",
    "OK": "option ixkind", "KS": "list ixkind", "TYS": "list dtype_name", "CV": "cvdesc",
    "SC": "option bool", "STR": "string", "STRS": "list string", "NL": "list cname",
    "ML": "list member", "MKL": "list mkind", "MK": "mkind", "FCS": "fcs_attr",
    "ST": "strategy_name", "YX": "(series * option series)", "U": "unit", "B": "bool",
    "P": "(list Z * list Z)", "LP": "list (list Z * list Z)", "OFH": "option fh_input",
    "P4": "((list Z * list Z) * (list Z * list Z))",
})
OPTION_OF = {"O": "Z", "OL": "L", "OS": "S", "OK": "K", "OFH": "FH", "SC": "B"}
for _k, _v in OPTION_OF.items():      # new type names only; existing entries are left alone
    pyz.OPTION_OF.setdefault(_k, _v)


def coqty(t):
    if t in COQTY:
        return COQTY[t]
    if t.startswith("R") and t[1:] in COQTY:
        return "res %s" % (COQTY[t[1:]] if " " not in COQTY[t[1:]] or COQTY[t[1:]].startswith("(")
                           else "(%s)" % COQTY[t[1:]])
    raise Unsupported("no Coq type for " + t)


def is_r(ty):
    return len(ty) > 1 and ty[0] == "R" and (ty[1:] in COQTY)


CMPX = dict(pyz.CMP)


class TrX(pyz.Tr):
    """One function; `gens` maps a python callee to the description of a regenerated function."""

    def __init__(self, fn, cfg, calls, gens=None):
        super().__init__(fn, cfg, calls)
        self.gens = gens or {}
        self.fresh = 0

    # ---- helpers ---------------------------------------------------------------------------------
    def const_test(self, t, env):
        """Value of a test that only mentions parameters the translation is specialised to."""
        if isinstance(t, ast.Constant) and isinstance(t.value, bool):
            return t.value
        if isinstance(t, ast.Name) and t.id in self.cfg.get("specialise", {}):
            return bool(self.cfg["specialise"][t.id])
        if isinstance(t, ast.UnaryOp) and isinstance(t.op, ast.Not):
            v = self.const_test(t.operand, env)
            return None if v is None else (not v)
        if isinstance(t, ast.BoolOp):
            vals = [self.const_test(v, env) for v in t.values]
            if isinstance(t.op, ast.And):
                if any(v is False for v in vals):
                    return False
                return True if all(v is True for v in vals) else None
            if any(v is True for v in vals):
                return True
            return False if all(v is False for v in vals) else None
        return None

    def simplify(self, t, env):
        """Drop constant conjuncts / disjuncts (after const_test returned None)."""
        if isinstance(t, ast.BoolOp):
            keep = []
            for v in t.values:
                c = self.const_test(v, env)
                if c is None:
                    keep.append(self.simplify(v, env))
                # And: True conjuncts vanish; Or: False disjuncts vanish (others were decided above)
            if len(keep) == 1:
                return keep[0]
            return ast.BoolOp(op=t.op, values=keep)
        return t

    def rbind(self, t, ty, k):
        """Bind the value of a raising computation `t : R<ty'>` in the continuation k(term, ty')."""
        if not is_r(ty):
            return k(t, ty)
        self.fresh += 1
        x = "x%d_" % self.fresh
        body, bty = k(x, ty[1:])
        if not is_r(bty):
            body, bty = "(Ok %s)" % body, "R" + bty
        return "(match %s with Err => Err | Ok %s => %s end)" % (t, x, body), bty

    # ---- expressions -----------------------------------------------------------------------------
    def expr(self, e, env):
        if isinstance(e, ast.Constant) and isinstance(e.value, str):
            return '"%s"%%string' % e.value.replace('"', '""'), "STR"
        if isinstance(e, ast.Tuple) and e.elts and all(
                isinstance(x, ast.Constant) and isinstance(x.value, str) for x in e.elts):
            return "[%s]%%string" % "; ".join('"%s"' % x.value for x in e.elts), "STRS"
        if isinstance(e, ast.Tuple) and len(e.elts) == 4:
            parts = []
            for x in e.elts:
                t, ty = self.expr(x, env)
                self.need(ty, "L", e)
                parts.append(t)
            return "((%s, %s), (%s, %s))" % tuple(parts), "P4"
        if isinstance(e, ast.Name) and e.id not in env and e.id in self.cfg.get("consts", {}):
            return self.cfg["consts"][e.id]
        if isinstance(e, ast.Name) and e.id not in env and self.mod is not None:
            # a module-level constant (bound once, to a tuple / list of literals): its value
            hits = [n for n in ast.walk(self.mod) if isinstance(n, ast.Name)
                    and isinstance(n.ctx, ast.Store) and n.id == e.id]
            defs = [n for n in self.mod.body if isinstance(n, ast.Assign) and len(n.targets) == 1
                    and isinstance(n.targets[0], ast.Name) and n.targets[0].id == e.id]
            if len(hits) == 1 and len(defs) == 1 and isinstance(defs[0].value, (ast.Tuple, ast.List)) \
                    and all(isinstance(x, ast.Constant) for x in defs[0].value.elts):
                return self.expr(ast.Tuple(elts=defs[0].value.elts, ctx=ast.Load()), env)
        if isinstance(e, ast.Attribute):
            u = ast.unparse(e)
            if u in env:
                return env[u]
            v, tv = self.expr(e.value, env)
            table = {("S", "index"): ("(s_index %s)", "IX"), ("S", "ndim"): ("(s_ndim %s)", "Z"),
                     ("IX", "is_monotonic"): ("(isorted %s)", "B"),
                     ("CV", "start_with_window"): ("(cv_sww %s)", "B")}
            if (tv, e.attr) in table:
                f, ty = table[(tv, e.attr)]
                return f % v, ty
            return super().expr(e, env)
        if isinstance(e, ast.Compare) and len(e.ops) == 1:
            op, l_, r_ = e.ops[0], e.left, e.comparators[0]
            # type(index) in TYPES / type(index) is (not) T   (also through `t = type(index)`)
            if (isinstance(l_, ast.Call) and ast.unparse(l_.func) == "type" and len(l_.args) == 1
                    and not l_.keywords) \
                    or (isinstance(l_, ast.Name) and l_.id in env and env[l_.id][1].startswith("TY_")):
                a, ta = self.expr(l_, env)
                ta = ta[3:]
                b, tb = self.expr(r_, env)
                if ta == "IX" and tb == "KS" and isinstance(op, (ast.In, ast.NotIn)):
                    t = "(ix_type_in %s %s)" % (a, b)
                    return (t if isinstance(op, ast.In) else "(negb %s)" % t), "B"
                if ta == "IX" and tb == "K" and isinstance(op, (ast.Is, ast.IsNot, ast.Eq, ast.NotEq)):
                    t = "(ix_type_is %s %s)" % (a, b)
                    return (t if isinstance(op, (ast.Is, ast.Eq)) else "(negb %s)" % t), "B"
                raise Unsupported("type test " + ast.unparse(e))
            if isinstance(op, (ast.In, ast.NotIn)):
                # est (not) in (None, "drop")
                if ast.unparse(r_) == "(None, 'drop')":
                    a, ta = self.expr(l_, env)
                    self.need(ta, "MK", e)
                    t = "(mk_is_drop %s)" % a
                    return (t if isinstance(op, ast.In) else "(negb %s)" % t), "B"
                a, ta = self.expr(l_, env)
                b, tb = self.expr(r_, env)
                if ta == "STR" and tb == "STRS":
                    t = "(str_mem %s %s)" % (a, b)
                    return (t if isinstance(op, ast.In) else "(negb %s)" % t), "B"
                raise Unsupported("membership test " + ast.unparse(e))
            if isinstance(op, (ast.Eq, ast.NotEq, ast.Lt, ast.Gt, ast.LtE, ast.GtE)):
                a, ta = self.expr(l_, env)
                b, tb = self.expr(r_, env)
                neg = isinstance(op, ast.NotEq)
                if isinstance(op, (ast.Eq, ast.NotEq)):
                    if ta == "ST" and tb == "STR":
                        names = self.cfg.get("strategy_names", {})
                        if not (isinstance(r_, ast.Constant) and r_.value in names):
                            raise Unsupported("strategy name " + ast.unparse(r_))
                        t = "(strat_is %s %s)" % (a, names[r_.value])
                    elif ta == "STR" and tb == "STR":
                        t = "(String.eqb %s %s)" % (a, b)
                    elif ta == "V" and tb == "Z":
                        t = "(pv_eq_int %s %s)" % (a, b)
                    elif ta == "Z" and tb == "Z":
                        t = "(%s =? %s)" % (a, b)
                    else:
                        raise Unsupported("equality on %s %s in %s" % (ta, tb, ast.unparse(e)))
                    return ("(negb %s)" % t if neg else t), "B"
                if ta == "V" and tb == "V" and isinstance(op, ast.Lt):
                    return "(pv_cmp_lt %s %s)" % (a, b), "RB"
                if ta == "V" and tb == "Z" and isinstance(op, ast.Gt):
                    return "(pv_cmp_gt_int %s %s)" % (a, b), "RB"
                if ta == "V" and tb == "Z" and isinstance(op, ast.LtE):
                    return "(rmap negb (pv_cmp_gt_int %s %s))" % (a, b), "RB"
        if isinstance(e, ast.ListComp) and len(e.generators) == 1 \
                and isinstance(e.generators[0].target, ast.Name) and isinstance(e.elt, ast.Name) \
                and e.elt.id == e.generators[0].target.id and not e.generators[0].is_async \
                and [ast.unparse(c) for c in e.generators[0].ifs] \
                == ["'__' in %s" % e.generators[0].target.id]:
            # [n for n in <list of names> if '__' in n]   (the names of the locals are free)
            t, ty = self.expr(e.generators[0].iter, env)
            self.need(ty, "NL", e)
            return "(filter has_dunder %s)" % t, "NL"
        if isinstance(e, ast.Subscript) and ast.unparse(e) not in env:
            v, tv = self.expr(e.value, env)
            if tv == "MKL":
                sl = ast.unparse(e.slice)
                if sl == ":-1":
                    return "(removelast %s)" % v, "MKL"
                if sl == "-1":
                    return "(last %s MOther)" % v, "MK"
                raise Unsupported("subscript " + ast.unparse(e))
        if isinstance(e, ast.Call):
            if ast.unparse(e) in env:
                return env[ast.unparse(e)]
            f = e.func
            callee = ast.unparse(f)
            if callee == "type" and len(e.args) == 1 and not e.keywords and "type" not in env:
                # the class of a value: only usable in the type tests above
                a, ta = self.expr(e.args[0], env)
                return a, "TY_" + ta
            if isinstance(f, ast.Attribute) and f.attr == "intersection" and len(e.args) == 1 \
                    and isinstance(f.value, ast.Call) and ast.unparse(f.value.func) == "set" \
                    and len(f.value.args) == 1:
                a, ta = self.expr(f.value.args[0], env)
                b, tb = self.expr(e.args[0], env)
                self.need(ta, "NL", e)
                self.need(tb, "PARAMS", e)
                return "(names_in_params %s %s)" % (a, b), "NL"
            if isinstance(f, ast.Attribute) and f.attr == "equals" and len(e.args) == 1 \
                    and not e.keywords:
                a, ta = self.expr(f.value, env)
                b, tb = self.expr(e.args[0], env)
                self.need(ta, "IX", e)
                self.need(tb, "IX", e)
                return "(ix_equals %s %s)" % (a, b), "B"
            if callee in self.gens and callee not in self.calls:
                return self.gencall(self.gens[callee], e, env)
            if callee == "getattr" and len(e.args) == 3 and not e.keywords \
                    and isinstance(e.args[0], ast.Name) and e.args[0].id != "self" \
                    and isinstance(e.args[1], ast.Constant) and isinstance(e.args[1].value, str) \
                    and "getattr" not in env:
                # getattr(x, "a", d)  ==  x.a if hasattr(x, "a") else d
                x = e.args[0]
                alt = ast.IfExp(
                    test=ast.Call(func=ast.Name(id="hasattr", ctx=ast.Load()),
                                  args=[copy_node(x), e.args[1]], keywords=[]),
                    body=ast.Attribute(value=copy_node(x), attr=e.args[1].value, ctx=ast.Load()),
                    orelse=e.args[2])
                return self.expr(ast.fix_missing_locations(ast.copy_location(alt, e)), env)
        return super().expr(e, env)

    def gencall(self, g, e, env):
        """Call of another regenerated function: bind positional and keyword arguments to the
        callee's parameters, defaults from the callee's own definition."""
        fn = g["fn"]
        names = [a.arg for a in fn.args.args if a.arg != "self"]
        dflt = dict(zip(names[len(names) - len(fn.args.defaults):], fn.args.defaults))
        given = {}
        args = list(e.args)
        if fn.args.vararg is not None:
            if e.keywords or any(isinstance(a, ast.Starred) for a in args) or not args:
                raise Unsupported("call of variadic " + ast.unparse(e))
            a0, t0 = self.expr(args[0], env)
            self.need(t0, "S", e)
            rest = []
            for a in args[1:]:
                t, ty = self.expr(a, env)
                self.need(ty, "S", e)
                rest.append(t)
            return "(%s %s [%s])" % (g["coq"], a0, "; ".join(rest)), g["ret"]
        if len(args) > len(names):
            raise Unsupported("too many arguments in " + ast.unparse(e))
        for n, a in zip(names, args):
            given[n] = a
        for kw in e.keywords:
            if kw.arg is None or kw.arg not in names or kw.arg in given:
                raise Unsupported("keyword %s in %s" % (kw.arg, ast.unparse(e)))
            given[kw.arg] = kw.value
        ptypes = dict(g["params"])
        for py in names:
            node = given.get(py, dflt.get(py))
            if py in g.get("fixed", {}):
                # the callee's translation is specialised to this value: the call must agree
                want = g["fixed"][py]
                if not (isinstance(node, ast.Constant) and node.value == want):
                    raise Unsupported("%s: %s must be %r in %s" % (g["coq"], py, want, ast.unparse(e)))
            elif py in g.get("ignore", ()):
                continue
            elif py not in ptypes:
                raise Unsupported("argument %s of %s is not modelled" % (py, g["coq"]))
        out = []
        for py, ty in g["params"]:
            if py.startswith("@"):
                out.append(py[1:])     # configuration of the same object: same Coq variable
                continue
            node = given.get(py, dflt.get(py))
            if node is None:
                raise Unsupported("missing argument %s in %s" % (py, ast.unparse(e)))
            if isinstance(node, ast.Constant) and node.value is None and ty in OPTION_OF:
                out.append("None")
                continue
            t, tt = self.expr(node, env)
            if tt != ty and OPTION_OF.get(ty) == tt:
                t, tt = "(Some %s)" % t, ty
            self.need(tt, ty, e)
            out.append(t)
        return "(%s%s)" % (g["coq"], "".join(" " + a for a in out)), g["ret"]

    # ---- conditionals ----------------------------------------------------------------------------
    def cond(self, test, env, then_k, else_k):
        c = self.const_test(test, env)
        if c is not None:
            return (then_k if c else else_k)(env)
        test = self.simplify(test, env)
        if isinstance(test, ast.UnaryOp) and isinstance(test.op, ast.Not):
            inner = test.operand
            if isinstance(inner, ast.Name) and inner.id in env and (
                    env[inner.id][1] in OPTION_OF or env[inner.id][1] in ("NL", "ML", "LS")):
                return self.cond(inner, env, else_k, then_k)
        if isinstance(test, ast.Name) and test.id in env:
            t, ty = env[test.id]
            if ty in OPTION_OF:
                # truthiness of an optional object
                isnot = ast.Compare(left=test, ops=[ast.IsNot()], comparators=[ast.Constant(value=None)])
                return self.cond(isnot, env, then_k, else_k)
            if ty in ("NL", "ML", "LS"):
                a, ta = then_k(env)
                b, tb = else_k(env)
                a, b, ta = self.unify(a, ta, b, tb)
                return "(if (negb (is_nil %s)) then %s else %s)" % (t, a, b), ta
        if isinstance(test, ast.Compare) and len(test.ops) == 1 \
                and isinstance(test.ops[0], (ast.Is, ast.IsNot)) \
                and isinstance(test.comparators[0], ast.Constant) \
                and test.comparators[0].value is None:
            t, ty = self.expr(test.left, env)
            neg = isinstance(test.ops[0], ast.IsNot)
            if ty == "PRESENT":    # an optional argument the translation is specialised to "given"
                return (then_k if neg else else_k)(env)
            if ty == "FCS":
                a, ta = then_k(env)
                b, tb = else_k(env)
                a, b, ta = self.unify(a, ta, b, tb)
                c_ = "(negb (fcs_is_none %s))" % t if neg else "(fcs_is_none %s)" % t
                return "(if %s then %s else %s)" % (c_, a, b), ta
        if isinstance(test, ast.BoolOp) and isinstance(test.op, ast.And) and len(test.values) > 2:
            rest = ast.BoolOp(op=ast.And(), values=test.values[1:])
            return self.cond(test.values[0], env,
                             lambda en: self.cond(rest, en, then_k, else_k), else_k)
        if isinstance(test, ast.BoolOp) and isinstance(test.op, ast.Or):
            # a or b or ...: short-circuit, continuation duplicated
            rest = test.values[1] if len(test.values) == 2 else ast.BoolOp(op=ast.Or(),
                                                                           values=test.values[1:])
            return self.cond(test.values[0], env, then_k,
                             lambda en: self.cond(rest, en, then_k, else_k))
        if isinstance(test, ast.Call) or (isinstance(test, ast.Compare) and not any(
                isinstance(o, (ast.Is, ast.IsNot)) and isinstance(c, ast.Constant)
                for o, c in zip(test.ops, test.comparators))):
            c_, tc = self.expr(test, env)
            if tc == "RB":
                a, ta = then_k(env)
                b, tb = else_k(env)
                a, b, ta = self.unify(a, ta, b, tb)
                if ta != "RAISE" and not is_r(ta):
                    a, ta = self.lift(a, ta)
                    b, tb = self.lift(b, tb)
                return "(match %s with Err => Err | Ok true => %s | Ok false => %s end)" \
                    % (c_, a, b), ta
        return super().cond(test, env, then_k, else_k)

    # ---- statements ------------------------------------------------------------------------------
    def ret_type(self):
        if self.kind == "inl":
            return "RAISE"
        if self.kind == "loopchk":
            return "RU"
        if self.kind == "proc" and self.cfg.get("final"):
            return "R" + self.cfg["state"][self.cfg["final"]]
        if self.kind in ("fun", "rfun"):
            r = self.cfg.get("ret", "Z")
            return r if self.kind == "fun" else "R" + r
        return super().ret_type()

    def finish(self, env=None):
        if self.kind == "loopchk":
            return "(Ok tt)", "RU"
        return super().finish(env)

    def block(self, stmts, env):
        if not stmts:
            return self.finish(env)
        s, rest = stmts[0], stmts[1:]
        if self.cfg.get("skip_stmts") and hasattr(s, "lineno") \
                and ast.unparse(s) in self.cfg["skip_stmts"]:
            return self.block(rest, env)
        if isinstance(s, ast.ImportFrom):
            if ast.unparse(s) in self.cfg.get("skip_imports", ()):
                return self.block(rest, env)
            raise Unsupported("import " + ast.unparse(s))
        if isinstance(s, ast.Assert):
            if ast.unparse(s) in self.cfg.get("skip_asserts", ()):
                return self.block(rest, env)
            raise Unsupported("assert " + ast.unparse(s))
        if isinstance(s, ast.Expr) and isinstance(s.value, ast.Call) \
                and ast.unparse(s.value.func) in ("warn", "warnings.warn"):
            return self.block(rest, env)
        if isinstance(s, ast.Expr) and isinstance(s.value, ast.Call):
            t, ty = self.expr(s.value, env)
            if ty == "U":
                return self.block(rest, env)
            if is_r(ty):
                if self.kind not in ("rfun", "proc", "rgen", "loopchk", "inl"):
                    raise Unsupported("raising call in total function")
                body, bty = self.block(rest, env)
                if self.kind == "inl":
                    body, bty = self.lift(body, bty)
                return "(match %s with Err => Err | Ok _ => %s end)" % (t, body), bty
            raise Unsupported("expression statement of type " + ty)
        if isinstance(s, ast.Assign) and len(s.targets) == 1 and isinstance(s.targets[0], ast.Tuple) \
                and len(s.targets[0].elts) == 2 and isinstance(s.value, ast.Name) \
                and sum(isinstance(x, ast.Starred) for x in s.targets[0].elts) == 1 \
                and all(isinstance(x.value if isinstance(x, ast.Starred) else x, ast.Name)
                        for x in s.targets[0].elts):
            # `*init, last = xs` / `first, *rest = xs`: the slices `xs[:-1]`, `xs[-1]` / `xs[0]`,
            # `xs[1:]` (same fidelity as those: the empty sequence is excluded before, or not modelled)
            a, b = s.targets[0].elts
            src = s.value

            def sub(lo, hi=None, index=None):
                sl = ast.Constant(value=index) if index is not None else ast.Slice(
                    lower=None if lo is None else ast.Constant(value=lo),
                    upper=None if hi is None else ast.UnaryOp(op=ast.USub(), operand=ast.Constant(value=-hi)))
                if index is not None and index < 0:
                    sl = ast.UnaryOp(op=ast.USub(), operand=ast.Constant(value=-index))
                return ast.Subscript(value=copy_node(src), slice=sl, ctx=ast.Load())
            if isinstance(a, ast.Starred):
                new = [ast.Assign(targets=[ast.Name(id=a.value.id, ctx=ast.Store())], value=sub(None, -1)),
                       ast.Assign(targets=[ast.Name(id=b.id, ctx=ast.Store())], value=sub(None, index=-1))]
            else:
                new = [ast.Assign(targets=[ast.Name(id=a.id, ctx=ast.Store())], value=sub(None, index=0)),
                       ast.Assign(targets=[ast.Name(id=b.value.id, ctx=ast.Store())], value=sub(1, None))]
            for n in new:
                ast.copy_location(n, s)
                ast.fix_missing_locations(n)
            return self.block(new + list(rest), env)
        if isinstance(s, ast.Assign) and len(s.targets) == 1:
            tg = s.targets[0]
            # names, estimators = zip(*self.steps)
            if isinstance(tg, ast.Tuple) and len(tg.elts) == 2 \
                    and all(isinstance(x, ast.Name) for x in tg.elts) \
                    and isinstance(s.value, ast.Call) and ast.unparse(s.value.func) == "zip" \
                    and len(s.value.args) == 1 and isinstance(s.value.args[0], ast.Starred):
                src, sty = self.expr(s.value.args[0].value, env)
                a, b = (x.id for x in tg.elts)
                env2 = dict(env)
                if sty == "FCS":
                    items = "(fcs_items %s)" % src
                elif sty == "ML":
                    items = src
                else:
                    raise Unsupported("zip(*x) on " + sty)
                env2[a] = ("(map fst %s)" % items, "NL")
                env2[b] = ("(map snd %s)" % items, "MKL")
                body, bty = self.block(rest, env2)
                if not is_r(bty):
                    raise Unsupported("zip(*x) in a total function")
                # zip(*[]) cannot be unpacked into two names: ValueError
                return "(if (is_nil %s) then Err else %s)" % (items, body), bty
            key = ast.unparse(tg)
            if isinstance(tg, ast.Attribute) and key in self.cfg.get("state", ()):
                t, ty = self.expr(s.value, env)
                want = self.cfg["state"][key]

                def k(t_, ty_):
                    if ty_ == "Z" and want == "V":
                        t_, ty_ = "(PInt %s)" % t_, "V"
                    if ty_ != want and OPTION_OF.get(want) == ty_:
                        t_, ty_ = "(Some %s)" % t_, want
                    self.need(ty_, want, s)
                    env2 = dict(env)
                    if re.match(r"^[A-Za-z_][A-Za-z0-9_']*$", t_) or t_.startswith("(PInt "):
                        env2[key] = (t_, ty_)
                        return self.block(rest, env2)
                    self.fresh += 1
                    v = "a%d_" % self.fresh
                    env2[key] = (v, ty_)
                    body, bty = self.block(rest, env2)
                    return "(let %s := %s in %s)" % (v, t_, body), bty
                return self.rbind(t, ty, k)
            if isinstance(tg, ast.Name) and isinstance(s.value, ast.Name) \
                    and s.value.id in self.cfg.get("classes", ()):
                env2 = dict(env)
                env2[tg.id] = (s.value.id, "CLS")
                return self.block(rest, env2)
            if isinstance(tg, ast.Name) and isinstance(s.value, ast.IfExp) \
                    and pyz._is_string_expr(s.value.body) and pyz._is_string_expr(s.value.orelse):
                return self.block(rest, env)     # message text
            if isinstance(tg, ast.Name) and pyz._is_plain_data(s.value) \
                    and not isinstance(s.value, (ast.Name, ast.Constant)):
                return super().block(stmts, env)
            if isinstance(tg, ast.Name):
                t, ty = self.expr(s.value, env) if not pyz._is_string_expr(s.value) else (None, None)
                if t is not None and is_r(ty) and ty not in ("RZ", "RL", "RV", "RLP", "RU"):
                    if self.kind not in ("rfun", "proc", "rgen", "loopchk", "inl"):
                        raise Unsupported("raising call in total function")
                    env2 = dict(env)
                    env2[tg.id] = (cname(tg.id), ty[1:])
                    body, bty = self.block(rest, env2)
                    if self.kind == "inl":
                        body, bty = self.lift(body, bty)
                    return "(match %s with Err => Err | Ok %s => %s end)" % (t, cname(tg.id), body), bty
                if t is not None and (ty in ("STRS", "KS", "TYS", "NL", "MKL", "ML", "IX", "MK", "K")
                                      or ty.startswith("TY_")):
                    env2 = dict(env)
                    env2[tg.id] = (t, ty)      # pure value: substituted (no let)
                    return self.block(rest, env2)
        if isinstance(s, ast.For) and not s.orelse and self.kind not in ("gen", "rgen") \
                and isinstance(s.target, ast.Name):
            src, sty = self.expr(s.iter, env)
            elem = {"LS": "S", "MKL": "MK", "NL": "N"}.get(sty)
            if elem is None:
                raise Unsupported("loop over " + sty)
            x = cname(s.target.id)
            env2 = dict(env)
            env2[s.target.id] = (x, elem)
            saved = self.kind
            self.kind = "loopchk"
            try:
                inner, _ = self.block(s.body, env2)
            finally:
                self.kind = saved
            body, bty = self.block(rest, env)
            if not is_r(bty):
                raise Unsupported("raising loop in a total function")
            return "(match (rforall (fun %s => %s) %s) with Err => Err | Ok _ => %s end)" \
                % (x, inner, src, body), bty
        if isinstance(s, ast.Raise) and self.kind == "loopchk":
            return "Err", "RU"
        if isinstance(s, ast.Continue) and self.kind == "loopchk":
            return "(Ok tt)", "RU"          # this element passes; the rest of the body is skipped
        if isinstance(s, ast.Return) and self.kind == "inl":
            return super().block(stmts, env)
        if isinstance(s, ast.Return):
            if self.kind == "proc" and self.cfg.get("ignore_return"):
                return self.finish(env)
            if self.kind == "rfun" and self.cfg.get("ret") == "YX" and isinstance(s.value, ast.Tuple) \
                    and len(s.value.elts) == 2:
                a, ta = self.expr(s.value.elts[0], env)
                if isinstance(s.value.elts[1], ast.Constant) and s.value.elts[1].value is None:
                    b, tb = "None", "OS"
                else:
                    b, tb = self.expr(s.value.elts[1], env)
                self.need(ta, "S", s)
                if tb == "S":
                    b, tb = "(Some %s)" % b, "OS"
                self.need(tb, "OS", s)
                return "(Ok (%s, %s))" % (a, b), "RYX"
            if self.kind in ("fun", "rfun"):
                t, ty = self.expr(s.value, env)
                want = self.cfg.get("ret", "Z")
                if self.kind == "rfun" and ty == "R" + want:
                    return t, ty
                self.need(ty, want, s)
                return (t, ty) if self.kind == "fun" else ("(Ok %s)" % t, "R" + ty)
        return super().block(stmts, env)


# ---- primitive call handlers -----------------------------------------------------------------------


def copy_node(n):
    import copy
    return copy.deepcopy(n)


def h_isinstance(tr, e, env):
    if len(e.args) != 2 or e.keywords:
        raise Unsupported("isinstance arity")
    t, ty = tr.expr(e.args[0], env)
    what = ast.unparse(e.args[1]).replace(" ", "")
    if ty == "V":
        if what == "(int,np.integer)":
            return "(pv_isinstance_int %s)" % t, "B"
        if what == "bool":
            return "(pv_is_bool %s)" % t, "B"
    if ty == "S":
        if what in ("pd.DataFrame", "np.ndarray", "pd.Series"):
            return "(s_isinstance %s [%s])" % (t, {"pd.DataFrame": "TyFrame", "np.ndarray": "TyNdarray",
                                                   "pd.Series": "TySeries"}[what]), "B"
        b, tb = tr.expr(e.args[1], env)
        if tb == "TYS":
            return "(s_isinstance %s %s)" % (t, b), "B"
    if ty == "IX" and what == "np.ndarray":
        return "(ix_is_ndarray %s)" % t, "B"
    if ty == "CV" and what == "BaseSplitter":
        return "(cv_is_splitter %s)" % t, "B"
    if ty == "FCS" and what == "list":
        return "(fcs_is_list %s)" % t, "B"
    if ty == "MK":
        cls = what
        if isinstance(e.args[1], ast.Name) and e.args[1].id in env and env[e.args[1].id][1] == "CLS":
            cls = env[e.args[1].id][0]
        if cls == "BaseForecaster":
            return "(mk_is_forecaster %s)" % t, "B"
        if cls == "_SeriesToSeriesTransformer":
            return "(mk_is_transformer %s)" % t, "B"
    raise Unsupported("isinstance(%s : %s, %s)" % (ast.unparse(e.args[0]), ty, what))


def h_len(tr, e, env):
    if len(e.args) != 1 or e.keywords:
        raise Unsupported("len arity")
    a = e.args[0]
    if isinstance(a, ast.Call) and ast.unparse(a.func) == "set" and len(a.args) == 1:
        t, ty = tr.expr(a.args[0], env)
        tr.need(ty, "NL", e)
        return "(n_distinct %s)" % t, "Z"
    t, ty = tr.expr(a, env)
    f = {"IX": "(ix_len %s)", "S": "(s_len %s)", "NL": "(n_names %s)", "FCS": "(fcs_len %s)",
         "L": "(Z.of_nat (length %s))"}.get(ty)
    if f is None:
        raise Unsupported("len of " + ty)
    return f % t, "Z"


def h_tuple(tr, e, env):
    """tuple(<the members of a tuple of container types except one>), written with filter(lambda)
    or with a generator expression / comprehension over the same tuple."""
    if len(e.args) != 1 or e.keywords:
        raise Unsupported("tuple(...) shape")
    a = e.args[0]
    src = var = test = None
    if isinstance(a, ast.Call) and ast.unparse(a.func) == "filter" and len(a.args) == 2 \
            and isinstance(a.args[0], ast.Lambda) and len(a.args[0].args.args) == 1:
        var, test, src = a.args[0].args.args[0].arg, a.args[0].body, a.args[1]
    elif isinstance(a, (ast.GeneratorExp, ast.ListComp)) and len(a.generators) == 1 \
            and isinstance(a.generators[0].target, ast.Name) and len(a.generators[0].ifs) == 1 \
            and isinstance(a.elt, ast.Name) and a.elt.id == a.generators[0].target.id:
        var, test, src = a.elt.id, a.generators[0].ifs[0], a.generators[0].iter
    if var is None or not (isinstance(test, ast.Compare) and len(test.ops) == 1
                           and isinstance(test.ops[0], (ast.IsNot, ast.NotEq))
                           and isinstance(test.left, ast.Name) and test.left.id == var):
        raise Unsupported("tuple(...) shape")
    dropped = {"np.ndarray": "TyNdarray", "pd.DataFrame": "TyFrame", "pd.Series": "TySeries"}.get(
        ast.unparse(test.comparators[0]))
    if dropped is None:
        raise Unsupported("tuple(...) drops " + ast.unparse(test.comparators[0]))
    t, ty = tr.expr(src, env)
    tr.need(ty, "TYS", e)
    return "(tys_without %s %s)" % (dropped, t), "TYS"


def h_pd_index(tr, e, env):
    if len(e.args) != 1 or e.keywords:
        raise Unsupported("pd.Index arity")
    t, ty = tr.expr(e.args[0], env)
    tr.need(ty, "IX", e)
    return "(ix_from_ndarray %s)" % t, "IX"


def h_np_all(tr, e, env):
    if len(e.args) == 1 and isinstance(e.args[0], ast.Compare):
        c = e.args[0]
        l_ = ast.unparse(c.left)
        if len(c.ops) == 1 and isinstance(c.ops[0], ast.Eq) \
                and ast.unparse(c.comparators[0]) == l_ + ".iloc[0]":
            t, ty = tr.expr(c.left, env)
            tr.need(ty, "S", e)
            return "(sconst %s)" % t, "B"
    raise Unsupported("np.all shape")


def h_hasattr(tr, e, env):
    if len(e.args) == 2 and isinstance(e.args[1], ast.Constant):
        t, ty = tr.expr(e.args[0], env)
        if ty == "CV" and e.args[1].value == "start_with_window":
            return "(cv_has_sww %s)" % t, "B"
    raise Unsupported("hasattr shape")


def h_callable(tr, e, env):
    if len(e.args) == 1:
        t, ty = tr.expr(e.args[0], env)
        if ty == "B":       # refined optional scoring: the flag says whether it is callable
            return t, "B"
    raise Unsupported("callable shape")


def _quantifier(name, coq):
    """any(<test of x> for x in <list>) / all(..): existsb / forallb over the list (generator
    expression or list comprehension, any loop variable; the test may call private predicates)."""
    def h(tr, e, env):
        if len(e.args) == 1 and not e.keywords \
                and isinstance(e.args[0], (ast.GeneratorExp, ast.ListComp)):
            g = e.args[0]
            if len(g.generators) == 1 and not g.generators[0].ifs \
                    and isinstance(g.generators[0].target, ast.Name):
                v = g.generators[0].target.id
                src, sty = tr.expr(g.generators[0].iter, env)
                if sty == "NL" and ast.unparse(g.elt) == "'__' in %s" % v:
                    return "(%s has_dunder %s)" % (coq, src), "B"
                tr.need(sty, "MKL", e)
                x = cname(v)
                env2 = dict(env)
                env2[v] = (x, "MK")
                t, ty = tr.expr(g.elt, env2)
                tr.need(ty, "B", e)
                return "(%s (fun %s => %s) %s)" % (coq, x, t, src), "B"
        raise Unsupported("%s(...) shape" % name)
    return h


h_any = _quantifier("any", "existsb")
h_all = _quantifier("all", "forallb")


BASE_CALLS = {
    "isinstance": h_isinstance, "len": h_len, "tuple": h_tuple, "pd.Index": h_pd_index,
    "np.all": h_np_all, "hasattr": h_hasattr, "callable": h_callable, "any": h_any, "all": h_all,
}


def translate_function_x(mod, cfg, calls, gens=None):
    """Like pyz.translate_function, with TrX, variadic parameters and statement selection."""
    fn = find(mod, cfg["path"])
    if not isinstance(fn, ast.FunctionDef):
        raise Unsupported(cfg["path"] + " is not a function")
    if fn.args.kwarg or fn.args.kwonlyargs or fn.args.posonlyargs:
        raise Unsupported(cfg["path"] + ": signature")
    declared = [a.arg for a in fn.args.args]
    env = {}
    params = []
    for py, coq, ty in cfg["params"]:
        if "." not in py and "[" not in py and not py.startswith("@") and py not in declared:
            raise Unsupported("%s has no parameter %s" % (cfg["path"], py))
        if not py.startswith("@"):
            env[py] = (coq, ty)
        params.append((coq, ty))
    for py, (coq, ty) in cfg.get("env", {}).items():
        env[py] = (coq, ty)
    if fn.args.vararg is not None and fn.args.vararg.arg != cfg.get("vararg"):
        raise Unsupported("%s: variadic parameter" % cfg["path"])
    for a in declared:
        if a != "self" and a not in env and a not in cfg.get("ignore", ()) \
                and a not in cfg.get("specialise", {}):
            raise Unsupported("%s: parameter %s is not configured" % (cfg["path"], a))
    # defaults the translation relies on (specialised parameters must default to the same value)
    names = [a for a in declared if a != "self"]
    dflt = dict(zip(names[len(names) - len(fn.args.defaults):], fn.args.defaults))
    for p, v in cfg.get("specialise", {}).items():
        d = dflt.get(p)
        if not (isinstance(d, ast.Constant) and d.value == v):
            raise Unsupported("%s: default of %s is not %r" % (cfg["path"], p, v))
    body = fn.body
    if "select" in cfg:
        body = cfg["select"](fn)
    tr = TrX(fn, cfg, calls, gens)
    tr.mod = mod
    term, ty = tr.block(list(body), env)
    seen = []
    for coq, ty_ in params:
        if coq not in [c for c, _ in seen]:
            seen.append((coq, ty_))
    sig = " ".join("(%s : %s)" % (c, cfg.get("coqtypes", {}).get(c) or coqty(t)) for c, t in seen)
    return "Definition %s %s : %s :=\n  %s.\n" % (cfg["coq"], sig, coqty(tr.ret_type()), term)
