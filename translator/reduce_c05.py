"""C05 site-fact extractor, by DATA FLOW.

The anchored code is reached from PUBLIC entry points and executed SYMBOLICALLY by a small interpreter
for the Python subset it is written in: `predict(self, fh, X)` of the four strategy classes (for
out-of-sample horizons: `fh.is_all_out_of_sample(cutoff)` is taken to hold), `fit(self, y, X, fh)` of the
dirrec class, and the sliding-window transform, which is found by its ROLE (the one function of
_reduce.py that `fit` of every strategy class reaches).  No private helper or hook is looked up by name:
whatever `predict` / `fit` call is followed through the class hierarchy (sktime/base/_base.py,
forecasting/base/_base.py, forecasting/base/_sktime.py, utils/datetime.py are parsed as well).  What is
compared with the expected shape is the VALUE the entry point computes (a term over its inputs: which
array is allocated with which extents, which cells are written with which values under which
conditions and loops, which slice of it reaches `estimator.predict`, what is returned / raised), not
the text or the order of the statements.  Integer expressions are kept as canonical linear forms over
the base symbols, tests in a normal form (negations pushed inward, conjunctions flattened and
ordered, comparisons only <, <=, ==), so `window_length + fh_max`, a temporary holding it, the same sum
written the other way round, `n <= e` for `e >= n`, nested ifs for `a and b` give the same term.

The interpreter follows (generally, not for one patch):
  * calls of module-level functions of the same file / of `sktime.utils.datetime._shift`, and
    `self._helper(...)` calls resolved through the class hierarchy (interprocedural, with argument
    binding; staticmethods; recursion refused);
  * guard clauses: `if c: return a` + rest == `if c: return a else: rest`, `if c: raise E` and
    `assert c` likewise (a raise is a result of the function); conditional expressions vs if/else
    assignments; `if c: x = f(x)` vs an else branch; `is None` / `is not None` / `not`;
  * renamed locals, temporaries introduced or inlined, repeated sub-expressions computed once,
    reordering of statements without data dependence (evaluation is by environment, the writes to an
    array are kept with the path condition and loop they occur under);
  * every counting loop form over one canonical 0-based counter: range(a, b, +-1), enumerate(it, start),
    zip, itertools.count, reversed(range), `for x in xs`; `continue`; private helpers imported from other
    modules of the package; simple module-level constants by value; dict()/list(); string formatting.
It REFUSES (raises Unsupported, a broken tie): statements outside the subset, loop-carried local
variables, writes through views, calls with side effects it does not know, recursion.

Emitted (build/coq/C05/Gen.v): Gallina functions over the base symbols (wl, fm, n, k, h, i, c).
coq/C05/Bridge.v proves each equal to the model's expression for all arguments (`unfold; lia`, i.e.
semantically: any equivalent linear form proves).  Facts that are not integer expressions (which array
is sliced, that the window comes from `_get_last_window`, that it is selected by label, the
variable-major reshape, which regressor is asked) are checked here on the symbolic value and fail
closed.
"""
import ast
import os


class Unsupported(Exception):
    pass


def _u(node):
    try:
        return ast.unparse(node)
    except Exception:
        return repr(node)


# ------------------------------------------------------------------------------------------------
# values


class Lin:
    """canonical linear form  sum coeff * atom + const  (atoms: symbol names or opaque values)"""
    __slots__ = ("t", "c")

    def __init__(self, t=None, c=0):
        self.t = {a: k for a, k in (t or {}).items() if k != 0}
        self.c = c

    def key(self):
        return (tuple(sorted(((repr(a), k) for a, k in self.t.items()))), self.c)

    def __eq__(self, o):
        return isinstance(o, Lin) and self.t == o.t and self.c == o.c

    def __hash__(self):
        return hash(self.key())

    def __repr__(self):
        return "Lin(%s)" % (" + ".join(["%d*%r" % (k, a) for a, k in sorted(
            self.t.items(), key=lambda x: repr(x[0]))] + [str(self.c)]))

    def is_const(self):
        return not self.t

    def add(self, o, s=1):
        t = dict(self.t)
        for a, k in o.t.items():
            t[a] = t.get(a, 0) + s * k
        return Lin(t, self.c + s * o.c)

    def scale(self, k):
        return Lin({a: k * v for a, v in self.t.items()}, k * self.c)

    def atoms(self):
        return set(self.t)

    def subst(self, m):
        """replace atoms by Lin forms / names"""
        r = Lin({}, self.c)
        for a, k in self.t.items():
            v = m.get(a, a)
            r = r.add(v.scale(k) if isinstance(v, Lin) else Lin({v: k}))
        return r


def lin(x):
    return Lin({}, x) if isinstance(x, int) else Lin({x: 1})


class Arr:
    """np.zeros(shape) with the writes made to it (identity matters)"""
    _n = 0

    def __init__(self, shape, guards, loops):
        Arr._n += 1
        self.id = Arr._n
        self.shape = shape
        self.birth_guards = tuple(guards)
        self.birth_loops = tuple(loops)
        self.writes = []      # (guards relative to birth, loops relative to birth, index, value)

    def __repr__(self):
        return "Arr#%d%r" % (self.id, (self.shape,))


class ListObj:
    """a list literal bound to a name / attribute, with the appends made to it"""

    def __init__(self, items):
        self.items = list(items)
        self.appends = []     # (guards, loops, value)

    def __repr__(self):
        return "List%r+%r" % (self.items, self.appends)


NONE = ("none",)
TRUE = ("bool", True)
FALSE = ("bool", False)


def _junction(tag, ts):
    unit, zero = (TRUE, FALSE) if tag == "and" else (FALSE, TRUE)
    out = []
    for t in ts:
        for x in (t[1:] if isinstance(t, tuple) and t and t[0] == tag else (t,)):
            if x == unit:
                continue
            if x == zero:
                return zero
            if x not in out:
                out.append(x)
    if not out:
        return unit
    if len(out) == 1:
        return out[0]
    return (tag,) + tuple(sorted(out, key=repr))


def mk_and(*ts):
    return _junction("and", ts)


def mk_or(*ts):
    return _junction("or", ts)


def mk_cmp(op, a, b):
    """canonical comparison: only <, <=, == (operands of == in a fixed order)"""
    if op == ">":
        op, a, b = "<", b, a
    elif op == ">=":
        op, a, b = "<=", b, a
    elif op == "==" and repr(b) < repr(a):
        a, b = b, a
    return ("cmp", op, a, b)


def mk_not(t):
    """negation normal form: De Morgan, not (a < b) == (b <= a)"""
    if t == TRUE:
        return FALSE
    if t == FALSE:
        return TRUE
    if isinstance(t, tuple) and t:
        if t[0] == "not":
            return t[1]
        if t[0] == "and":
            return mk_or(*[mk_not(x) for x in t[1:]])
        if t[0] == "or":
            return mk_and(*[mk_not(x) for x in t[1:]])
        if t[0] == "cmp" and t[1] == "<":
            return ("cmp", "<=", t[3], t[2])
        if t[0] == "cmp" and t[1] == "<=":
            return ("cmp", "<", t[3], t[2])
    return ("not", t)


# ordered sequences of column labels: frame.columns, concatenations, order-keeping filters
def is_seq(v):
    return isinstance(v, tuple) and len(v) > 0 and (v[0] in ("seqcat", "seqdiff", "seqinter")
                                                    or (v[0] == "attr" and len(v) == 3 and v[2] == "columns"))


def mk_seqcat(*parts):
    out = []
    for p in parts:
        out += list(p[1:]) if isinstance(p, tuple) and p and p[0] == "seqcat" else [p]
    return out[0] if len(out) == 1 else ("seqcat",) + tuple(out)


def _boolish(v):
    return isinstance(v, tuple) and len(v) > 0 and v[0] in ("bool", "and", "or", "not", "cmp", "isnone")


def mk_cond(t, a, b):
    if t == TRUE:
        return a
    if t == FALSE:
        return b
    if isinstance(t, tuple) and t[0] == "not":
        return mk_cond(t[1], b, a)
    if a == b and not isinstance(a, (Arr, ListObj)):
        return a
    if a is b:
        return a
    if isinstance(a, tuple) and a and a[0] == "cond" and len(a) == 4 and not isinstance(b, (Arr, ListObj)) \
            and a[3] == b:
        # nested ifs with the same alternative == one if with the merged condition
        return mk_cond(mk_and(t, a[1]), a[2], b)
    if isinstance(a, tuple) and a and a[0] == "cond" and len(a) == 4 and not isinstance(b, (Arr, ListObj)) \
            and a[2] == b:
        return mk_cond(mk_and(t, mk_not(a[1])), a[3], b)
    if _boolish(a) and _boolish(b) and (a in (TRUE, FALSE) or b in (TRUE, FALSE)):
        # a conditional between truth values is a connective
        if b == FALSE:
            return mk_and(t, a)
        if b == TRUE:
            return mk_or(mk_not(t), a)
        if a == FALSE:
            return mk_and(mk_not(t), b)
        return mk_or(t, b)
    if isinstance(a, tuple) and isinstance(b, tuple) and a and b and a[0] == b[0] == "tuple" \
            and len(a) == len(b):
        # a conditional pair is the pair of the conditionals
        return ("tuple",) + tuple(mk_cond(t, x, y) for x, y in zip(a[1:], b[1:]))
    return ("cond", t, a, b)


# ------------------------------------------------------------------------------------------------
# the interpreter


class World:
    """the parsed modules: where functions and classes live"""

    def __init__(self, mods, alias, repo=None):
        self.repo = repo
        self.core = set(mods)                  # the modules whose functions the runs follow freely
        self.mods = mods                       # name -> ast.Module
        self.alias = alias                     # dotted module name -> name
        self.funcs = {}                        # (modname, fname) -> FunctionDef
        self.classes = {}                      # cname -> (modname, ClassDef)
        self.imports = {}                      # modname -> {local name: (source module, name)}
        for mn, m in mods.items():
            self.imports[mn] = {}
            for n in m.body:
                if isinstance(n, ast.FunctionDef):
                    self.funcs[(mn, n.name)] = n
                elif isinstance(n, ast.ClassDef):
                    if n.name in self.classes:
                        raise Unsupported("class %s defined twice" % n.name)
                    self.classes[n.name] = (mn, n)
                elif isinstance(n, ast.ImportFrom):
                    for a in n.names:
                        self.imports[mn][a.asname or a.name] = (alias.get(n.module, n.module), a.name)

    def constant(self, mn, name):
        """the literal a module binds `name` to at top level, exactly once (else None); also through a
        `from module import name` of a parsed module"""
        if name in self.imports.get(mn, {}):
            src, nm = self.imports[mn][name]
            if nm.startswith("_") or nm.isupper():
                self.load_private(src, None)
            return self.constant(src, nm) if src in self.mods and src != mn else None
        m = self.mods.get(mn)
        if m is None:
            return None
        hits = [n for n in ast.walk(m) if isinstance(n, (ast.Assign, ast.AugAssign, ast.AnnAssign))
                and any(isinstance(a, ast.Name) and a.id == name and isinstance(a.ctx, ast.Store)
                        for t in (n.targets if isinstance(n, ast.Assign) else [n.target]) for a in ast.walk(t))]
        top = [n for n in m.body if isinstance(n, ast.Assign) and len(n.targets) == 1
               and isinstance(n.targets[0], ast.Name) and n.targets[0].id == name]
        if len(hits) != 1 or len(top) != 1 or hits[0] is not top[0]:
            return None

        def literal(x):
            return isinstance(x, ast.Constant) or (isinstance(x, (ast.Tuple, ast.List))
                                                   and all(literal(y) for y in x.elts)) \
                or (isinstance(x, ast.UnaryOp) and isinstance(x.op, ast.USub) and literal(x.operand)) \
                or (isinstance(x, ast.Name) and x.id != name and self.constant(mn, x.id) is not None)
        return top[0].value if literal(top[0].value) else None

    def load_private(self, dotted, name):
        """a PRIVATE helper imported from another module of the package is followed there (public
        functions, e.g. the validation API, stay opaque atoms of the symbolic runs; what the tie needs
        from them is established by the pass-through analysis, see _Flow)"""
        if name is not None and not name.startswith("_"):
            return
        self.load_module(dotted)

    def load_module(self, dotted):
        if dotted in self.mods or self.repo is None or not dotted.startswith("sktime"):
            return
        base = os.path.join(self.repo, *dotted.split("."))
        for path in (base + ".py", os.path.join(base, "__init__.py")):
            if os.path.exists(path):
                with open(path) as f:
                    m = ast.parse(f.read())
                self.mods[dotted] = m
                self.imports[dotted] = {}
                for n in m.body:
                    if isinstance(n, ast.FunctionDef):
                        self.funcs[(dotted, n.name)] = n
                    elif isinstance(n, ast.ImportFrom) and n.module:
                        for a in n.names:
                            self.imports[dotted][a.asname or a.name] = (self.alias.get(n.module, n.module), a.name)
                return

    def mro(self, cname):
        """left-to-right depth-first linearisation over the classes we can see (the hierarchies here
        are mixin + single inheritance; an unknown base ends the search on that branch)"""
        out = []

        def go(c):
            if c in out or c not in self.classes:
                return
            out.append(c)
            for b in self.classes[c][1].bases:
                go(_u(b))
        go(cname)
        # a class must come before its bases: move every class after all classes deriving from it
        changed = True
        while changed:
            changed = False
            for i, c in enumerate(out):
                for j in range(i + 1, len(out)):
                    if c in [_u(b) for b in self.classes[out[j]][1].bases]:
                        out.insert(j, out.pop(i))
                        changed = True
                        break
                if changed:
                    break
        return out

    def method(self, cname, name):
        for c in self.mro(cname):
            mn, cd = self.classes[c]
            hits = [n for n in cd.body if isinstance(n, ast.FunctionDef) and n.name == name]
            others = [n for n in cd.body if isinstance(n, (ast.Assign, ast.AnnAssign))
                      and any(isinstance(t, ast.Name) and t.id == name
                              for t in (n.targets if isinstance(n, ast.Assign) else [n.target]))]
            if others or len(hits) > 1:
                raise Unsupported("%s.%s is bound in an unusual way" % (c, name))
            if hits:
                return c, mn, hits[0]
        return None


SIDE_EFFECT_METHODS = ("fit", "predict", "append")
PURE_NP = ("zeros",)


class Interp:
    def __init__(self, world, modname, cls=None, opaque_funcs=(), int_attrs=("cutoff", "window_length_"),
                 assume_true=()):
        self.w = world
        self.int_attrs = set(int_attrs)   # attributes of self that are integers (integer time index)
        self.assume_true = set(assume_true)   # methods of other objects assumed to answer True
        self.pending = []                 # (test, exception): the call just made raises unless test
        self.loop_base = 0                # loops opened by callers of the function being executed
        self.modname = modname
        self.cls = cls
        self.opaque_funcs = set(opaque_funcs)
        self.guards = []
        self.loops = []
        self.loopsets = []            # per open loop: (names assigned in the body, assigned so far)
        self.nloop = 0
        self.effects = []             # ordered: (kind, guards, loops, payload)
        self.selfattrs = {}
        self.inlined = []             # (class or None, function name) inlined, in order
        self.stack = []

    # --- expressions -----------------------------------------------------------------------------
    def atomise(self, v, node=None):
        if isinstance(v, Lin):
            return v
        if isinstance(v, tuple) and v and v[0] == "bool":
            raise Unsupported("boolean in arithmetic: " + _u(node))
        try:
            hash(v)
        except TypeError:
            raise Unsupported("value cannot be an integer atom: %r" % (v,))
        return lin(v)

    def ev(self, e, env):
        m = getattr(self, "ev_" + type(e).__name__, None)
        if m is None:
            raise Unsupported("expression %s: %s" % (type(e).__name__, _u(e)))
        return m(e, env)

    def ev_Constant(self, e, env):
        v = e.value
        if isinstance(v, bool):
            return TRUE if v else FALSE
        if isinstance(v, int):
            return lin(v)
        if v is None:
            return NONE
        if isinstance(v, str):
            return ("str", v)
        raise Unsupported("constant %r" % (v,))

    def ev_Name(self, e, env):
        for names, done in self.loopsets[self.loop_base:]:
            if e.id in names and e.id not in done:
                raise Unsupported("loop-carried local variable %s" % e.id)
        if e.id in env:
            v = env[e.id]
            if v == ("undef",):
                raise Unsupported("name %s is not bound on every path" % e.id)
            return v
        c = self.w.constant(self.modname, e.id)
        if c is not None:
            return self.ev(c, {})      # a simple module-level constant, by value
        return ("name", e.id)

    def ev_Attribute(self, e, env):
        b = self.ev(e.value, env)
        if b == ("name", "self") and e.attr in self.selfattrs:
            return self.selfattrs[e.attr]
        if b == ("name", "self") and e.attr in self.int_attrs:
            return lin(("attr", b, e.attr))
        if isinstance(b, Arr) and e.attr == "shape":
            return ("tuple",) + tuple(b.shape)
        return ("attr", b, e.attr)

    def ev_Tuple(self, e, env):
        return ("tuple",) + tuple(self.ev(x, env) for x in e.elts)

    def ev_List(self, e, env):
        if e.elts and all(isinstance(x, ast.Starred) for x in e.elts):
            parts = [self.ev(x.value, env) for x in e.elts]
            if all(is_seq(p) for p in parts):
                return mk_seqcat(*parts)
        return ("list",) + tuple(self.ev(x, env) for x in e.elts)

    def ev_ListComp(self, e, env):
        """[c for c in S if c (not) in T] over label sequences: the labels of S that are (not) in T, in
        the order of S"""
        if len(e.generators) == 1:
            g = e.generators[0]
            if isinstance(g.target, ast.Name) and not g.is_async and isinstance(e.elt, ast.Name) \
                    and e.elt.id == g.target.id and len(g.ifs) == 1:
                t = g.ifs[0]
                if isinstance(t, ast.Compare) and len(t.ops) == 1 and isinstance(t.ops[0], (ast.In, ast.NotIn)) \
                        and isinstance(t.left, ast.Name) and t.left.id == g.target.id:
                    S, T = self.ev(g.iter, env), self.ev(t.comparators[0], env)
                    if is_seq(S) and is_seq(T):
                        return ("seqdiff" if isinstance(t.ops[0], ast.NotIn) else "seqinter", S, T)
        raise Unsupported("comprehension: " + _u(e))

    ev_GeneratorExp = ev_ListComp

    def ev_UnaryOp(self, e, env):
        v = self.ev(e.operand, env)
        if isinstance(e.op, ast.USub):
            return self.atomise(v, e).scale(-1)
        if isinstance(e.op, ast.Not):
            return mk_not(v)
        raise Unsupported("unary operator: " + _u(e))

    def ev_BinOp(self, e, env):
        a, b = self.ev(e.left, env), self.ev(e.right, env)
        if isinstance(e.op, ast.Add) and is_seq(a) and is_seq(b):
            return mk_seqcat(a, b)
        if isinstance(e.op, (ast.Add, ast.Mod)) and (_is(a, "str") or _is(a, "fstr") or
                                                     (isinstance(e.op, ast.Add) and (_is(b, "str") or _is(b, "fstr")))):
            return ("fstr",)           # "..." % x, "..." + s: a formatted message
        if isinstance(e.op, (ast.Add, ast.Sub)):
            return self.atomise(a, e).add(self.atomise(b, e), 1 if isinstance(e.op, ast.Add) else -1)
        if isinstance(e.op, ast.Mult):
            a, b = self.atomise(a, e), self.atomise(b, e)
            if a.is_const():
                return b.scale(a.c)
            if b.is_const():
                return a.scale(b.c)
        raise Unsupported("arithmetic: " + _u(e))

    def ev_BoolOp(self, e, env):
        vs = [self.ev(x, env) for x in e.values]
        return mk_and(*vs) if isinstance(e.op, ast.And) else mk_or(*vs)

    def ev_JoinedStr(self, e, env):
        return ("fstr",)

    def ev_Dict(self, e, env):
        items = []
        for k, v in zip(e.keys, e.values):
            if not (isinstance(k, ast.Constant) and isinstance(k.value, str)):
                raise Unsupported("dict key: " + _u(e))
            items.append((k.value, self.ev(v, env)))
        return ("dict",) + tuple(items)

    def ev_Compare(self, e, env):
        if len(e.ops) != 1:
            raise Unsupported("chained comparison: " + _u(e))
        a, b = self.ev(e.left, env), self.ev(e.comparators[0], env)
        op = e.ops[0]
        if isinstance(op, (ast.Is, ast.IsNot)):
            if b != NONE:
                raise Unsupported("`is` with something else than None: " + _u(e))
            t = FALSE if isinstance(a, (Lin, Arr)) else TRUE if a == NONE else ("isnone", a)
            return t if isinstance(op, ast.Is) else mk_not(t)
        name = {ast.Gt: ">", ast.GtE: ">=", ast.Lt: "<", ast.LtE: "<=", ast.Eq: "==",
                ast.NotEq: "!="}.get(type(op))
        if name is None:
            raise Unsupported("comparison: " + _u(e))
        if not (_is(a, "str") or _is(b, "str")):
            a, b = self.atomise(a, e), self.atomise(b, e)
        if isinstance(a, Lin) and isinstance(b, Lin) and a.is_const() and b.is_const():
            r = {">": a.c > b.c, ">=": a.c >= b.c, "<": a.c < b.c, "<=": a.c <= b.c,
                 "==": a.c == b.c, "!=": a.c != b.c}[name]
            return TRUE if r else FALSE
        if name == "!=":
            return mk_not(mk_cmp("==", a, b))
        return mk_cmp(name, a, b)

    def ev_IfExp(self, e, env):
        t = self.ev(e.test, env)
        if t == TRUE:
            return self.ev(e.body, env)
        if t == FALSE:
            return self.ev(e.orelse, env)
        self.guards.append(t)
        a = self.ev(e.body, env)
        self.guards[-1] = mk_not(t)
        b = self.ev(e.orelse, env)
        self.guards.pop()
        return mk_cond(t, a, b)

    def index(self, s, env):
        if isinstance(s, ast.Tuple):
            return tuple(self.index1(x, env) for x in s.elts)
        return (self.index1(s, env),)

    def index1(self, s, env):
        if isinstance(s, ast.Slice):
            lo = None if s.lower is None else self.atomise(self.ev(s.lower, env), s)
            hi = None if s.upper is None else self.atomise(self.ev(s.upper, env), s)
            if s.step is not None:
                raise Unsupported("slice with a step: " + _u(s))
            if lo is None and hi is None:
                return ("full",)
            return ("slice", lo, hi)
        v = self.ev(s, env)
        if _is(v, "sliceobj", 3):
            if v[1] is None and v[2] is None:
                return ("full",)
            return ("slice", v[1], v[2])
        return ("at", v)

    def ev_Subscript(self, e, env):
        b = self.ev(e.value, env)
        ix = self.index(e.slice, env)
        if isinstance(b, tuple) and b and b[0] in ("tuple", "list") and len(ix) == 1 \
                and ix[0][0] == "at" and isinstance(ix[0][1], Lin) and ix[0][1].is_const():
            k = ix[0][1].c
            if -(len(b) - 1) <= k < len(b) - 1:
                return b[1:][k]
        if _is(b, "range", 4) and len(ix) == 1 and ix[0][0] == "at" and isinstance(ix[0][1], Lin) \
                and ix[0][1].is_const() and ix[0][1].c >= 0:
            n = self.range_len(b)
            if n.is_const() and ix[0][1].c < n.c:
                return b[1].add(lin(b[3] * ix[0][1].c))     # element of a range of known length
        if isinstance(b, Arr):
            return ("sub", b, ix, len(b.writes))
        if len(ix) == 1 and ix[0][0] == "at" and is_seq(ix[0][1]):
            return ("select", b, ix[0][1])           # frame[labels]
        if _is(b, "attr", 3) and b[2] == "loc" and len(ix) == 2 and ix[0] == ("full",) \
                and ix[1][0] == "at" and is_seq(ix[1][1]):
            return ("select", b[1], ix[1][1])        # frame.loc[:, labels]
        return ("sub", b, ix, 0)

    def isinstance_(self, v, t):
        """isinstance(v, T) for an integer time point v: the integer RangeIndex modelling assumption"""
        names = [_u(x) for x in (t.elts if isinstance(t, ast.Tuple) else [t])]
        if not isinstance(v, Lin):
            return None
        ints = {"int", "np.integer", "np.int64"}
        times = {"pd.Period", "pd.Timestamp", "pd.Timedelta", "pd.Int64Index", "pd.Index"}
        if any(n in ints for n in names):
            return TRUE
        if all(n in times for n in names):
            return FALSE
        return None

    def ev_Call(self, e, env):
        f = e.func
        fu = _u(f)
        if any(isinstance(a, ast.Starred) for a in e.args):
            raise Unsupported("star arguments: " + _u(e))
        if fu == "isinstance" and len(e.args) == 2:
            r = self.isinstance_(self.ev(e.args[0], env), e.args[1])
            if r is not None:
                return r
        args = [self.ev(a, env) for a in e.args]
        kw = {}
        for k in e.keywords:
            v = self.ev(k.value, env)
            if k.arg is None:
                # **d for a dict literal with string keys
                if not _is(v, "dict"):
                    raise Unsupported("** of something that is not a dict literal: " + _u(e))
                for kk, vv in v[1:]:
                    if kk in kw:
                        raise Unsupported("duplicate keyword " + kk)
                    kw[kk] = vv
            else:
                if k.arg in kw:
                    raise Unsupported("duplicate keyword " + k.arg)
                kw[k.arg] = v
        if fu == "range" and not kw and 1 <= len(args) <= 3:
            a3 = [self.atomise(a, e) for a in args]
            start, stop = (lin(0), a3[0]) if len(a3) == 1 else a3[:2]
            step = a3[2] if len(a3) == 3 else lin(1)
            if not step.is_const() or step.c == 0:
                raise Unsupported("range step: " + _u(e))
            return ("range", start, stop, step.c)
        if fu in ("count", "itertools.count") and not kw and len(args) <= 2:
            a2 = [self.atomise(a, e) for a in args]
            step = a2[1] if len(a2) == 2 else lin(1)
            if not step.is_const():
                raise Unsupported("count step: " + _u(e))
            return ("count", a2[0] if a2 else lin(0), step.c)
        if fu == "dict" and not args:
            return ("dict",) + tuple(kw.items())
        if fu in ("list", "tuple") and not args and not kw:
            return (fu,)
        if fu in ("list", "tuple") and len(args) == 1 and not kw and is_seq(args[0]):
            return args[0]             # the same labels in the same order
        if fu == "slice" and not kw and 1 <= len(args) <= 2:
            lo, hi = (None, args[0]) if len(args) == 1 else args
            lo = None if lo is None or lo == NONE else self.atomise(lo, e)
            hi = None if hi == NONE else self.atomise(hi, e)
            return ("sliceobj", lo, hi)
        # np.zeros
        if fu == "np.zeros":
            if "shape" in kw and not args:
                args = [kw.pop("shape")]
            if len(args) != 1 or kw:
                raise Unsupported("np.zeros arguments: " + _u(e))
            if _is(args[0], "list"):
                args[0] = ("tuple",) + args[0][1:]
            shp = args[0][1:] if isinstance(args[0], tuple) and args[0][0] == "tuple" else (args[0],)
            shp = tuple(d if isinstance(d, Lin) or _is(d, "cond") else self.atomise(d, e) for d in shp)
            return Arr(shp, self.guards, self.loops)
        if fu == "len" and len(args) == 1 and not kw:
            if isinstance(args[0], Arr):
                return args[0].shape[0]
            if _is(args[0], "range", 4):
                return self.range_len(args[0])
            return lin(("len", args[0]))
        # functions of this file / imported helpers
        if isinstance(f, ast.Name):
            tgt = None
            if (self.modname, f.id) in self.w.funcs:
                tgt = (self.modname, f.id)
            elif f.id in self.w.imports[self.modname]:
                src, nm = self.w.imports[self.modname][f.id]
                self.w.load_private(src, nm)
                if (src, nm) in self.w.funcs and (src in self.w.core or nm.startswith("_")):
                    tgt = (src, nm)      # public functions of other modules stay opaque atoms
            if tgt and f.id not in self.opaque_funcs:
                return self.inline(tgt[0], None, self.w.funcs[tgt], None, args, kw, e)
            if tgt:
                # a function we know but do not follow here: bind the arguments to its parameters,
                # so that positional and keyword calls are the same call
                env2 = self.bind(self.w.funcs[tgt], None, args, dict(kw), e)
                return ("call", ("name", f.id), (), tuple(sorted(env2.items())))
            return ("call", ("name", f.id), tuple(args), tuple(sorted(kw.items())))
        if isinstance(f, ast.Attribute):
            recv = self.ev(f.value, env)
            if recv == ("name", "self") and self.cls is not None:
                hit = self.w.method(self.cls, f.attr)
                if hit is not None:
                    c, mn, fn = hit
                    return self.inline(mn, c, fn, recv, args, kw, e)
                raise Unsupported("method %s not found in the class hierarchy of %s" % (f.attr, self.cls))
            if isinstance(recv, ListObj):
                if f.attr == "append" and len(args) == 1 and not kw:
                    recv.appends.append((tuple(self.guards), tuple(self.loops), args[0]))
                    return NONE
                raise Unsupported("list method: " + _u(e))
            if (_is(recv, "str") or _is(recv, "fstr")) and f.attr == "format":
                return ("fstr",)
            if is_seq(recv):
                # pandas Index / list operations that keep the order of the labels
                if f.attr in ("tolist", "to_list", "copy") and not args and not kw:
                    return recv
                unsorted = kw.get("sort") == FALSE
                if f.attr == "append" and len(args) == 1 and not kw and is_seq(args[0]):
                    return mk_seqcat(recv, args[0])
                if f.attr == "difference" and len(args) == 1 and is_seq(args[0]) and unsorted and len(kw) == 1:
                    return ("seqdiff", recv, args[0])
                if f.attr == "union" and len(args) == 1 and is_seq(args[0]) and unsorted and len(kw) == 1:
                    return mk_seqcat(recv, ("seqdiff", args[0], recv))
                if f.attr == "intersection" and len(args) == 1 and is_seq(args[0]) and unsorted and len(kw) == 1:
                    return ("seqinter", recv, args[0])
            if f.attr == "reindex" and not args and set(kw) == {"columns"} and is_seq(kw["columns"]):
                return ("select", recv, kw["columns"])
            if isinstance(recv, Arr) and f.attr not in ("reshape", "ravel", "copy"):
                raise Unsupported("method of a tracked array: " + _u(e))
            if f.attr in self.assume_true and recv != ("name", "np"):
                return TRUE
            v = ("mcall", recv, f.attr, tuple(args), tuple(sorted(kw.items())))
            if f.attr in SIDE_EFFECT_METHODS:
                self.effects.append((f.attr, tuple(self.guards), tuple(self.loops), v))
            return v
        raise Unsupported("call: " + _u(e))

    def bind(self, fn, selfv, args, kw, site):
        deco = [_u(d) for d in fn.decorator_list]
        if any(d not in ("staticmethod",) for d in deco):
            raise Unsupported("decorated function %s" % fn.name)
        a = fn.args
        if a.vararg or a.kwarg or a.kwonlyargs or a.posonlyargs:
            raise Unsupported("signature of %s" % fn.name)
        params = [p.arg for p in a.args]
        env = {}
        if selfv is not None and "staticmethod" not in deco:
            if not params or params[0] != "self":
                raise Unsupported("method %s without self" % fn.name)
            env["self"] = selfv
            params = params[1:]
        if len(args) > len(params):
            raise Unsupported("too many arguments for %s: %s" % (fn.name, _u(site)))
        for p, v in zip(params, args):
            env[p] = v
        defaults = dict(zip([p.arg for p in a.args][len(a.args) - len(a.defaults):], a.defaults))
        for p in params[len(args):]:
            if p in kw:
                env[p] = kw.pop(p)
            elif p in defaults:
                env[p] = self.ev(defaults[p], {})
            else:
                raise Unsupported("missing argument %s of %s" % (p, fn.name))
        if kw:
            raise Unsupported("unknown keyword arguments of %s: %s" % (fn.name, sorted(kw)))
        return env

    def inline(self, mn, cname, fn, selfv, args, kw, site):
        key = (cname, fn.name)
        if key in self.stack:
            raise Unsupported("recursion through %s" % fn.name)
        if len(self.stack) > 12:
            raise Unsupported("call depth")
        env = self.bind(fn, selfv, args, dict(kw), site)
        self.inlined.append(key)
        self.stack.append(key)
        old = (self.modname, self.loop_base)
        self.modname = mn
        self.loop_base = len(self.loopsets)
        try:
            r = self.run(self.body(fn), env)
        finally:
            self.modname, self.loop_base = old
            self.stack.pop()
        return self.strip_raises(r, fn.name)

    def run(self, stmts, env):
        """the value a function body returns (None when it falls off the end)"""
        r = self.block(stmts, env)
        return r.v if isinstance(r, Ret) else _fold(r.items, NONE)

    def strip_raises(self, v, what):
        """the value of a call whose body may raise: the exceptional exits become pending conditions
        of the caller (the rest of the caller runs only if they do not fire)"""
        while _is(v, "cond", 4) and (_is(v[2], "raise") or _is(v[3], "raise")):
            if _is(v[3], "raise"):
                self.pending.append((v[1], v[3][1]))
                v = v[2]
            else:
                self.pending.append((mk_not(v[1]), v[2][1]))
                v = v[3]
        if _is(v, "raise"):
            raise Unsupported("%s always raises" % what)
        return v

    @staticmethod
    def body(fn):
        b = list(fn.body)
        if b and isinstance(b[0], ast.Expr) and isinstance(getattr(b[0], "value", None), ast.Constant) \
                and isinstance(b[0].value.value, str):
            b = b[1:]
        return b

    # --- statements ------------------------------------------------------------------------------
    def mark(self, name):
        for names, done in self.loopsets[self.loop_base:]:
            done.add(name)

    def assign(self, tgt, v, env, node):
        if isinstance(tgt, ast.Name):
            env[tgt.id] = v
            self.mark(tgt.id)
        elif isinstance(tgt, (ast.Tuple, ast.List)) and any(isinstance(x, ast.Starred) for x in tgt.elts):
            stars = [i for i, x in enumerate(tgt.elts) if isinstance(x, ast.Starred)]
            if len(stars) != 1 or not (_is(v, "tuple") or _is(v, "list")) or len(v) - 1 < len(tgt.elts) - 1:
                raise Unsupported("star-unpacking of something that is not a tuple of known length: " + _u(node))
            k, items = stars[0], list(v[1:])
            after = len(tgt.elts) - k - 1
            for t, p in zip(tgt.elts[:k], items[:k]):
                self.assign(t, p, env, node)
            self.assign(tgt.elts[k].value, ("list",) + tuple(items[k:len(items) - after]), env, node)
            for t, p in zip(tgt.elts[k + 1:], items[len(items) - after:]):
                self.assign(t, p, env, node)
        elif isinstance(tgt, (ast.Tuple, ast.List)):
            n = len(tgt.elts)
            if isinstance(v, tuple) and v and v[0] == "tuple" and len(v) - 1 == n:
                parts = v[1:]
            elif isinstance(v, tuple) and v and v[0] == "cond":
                # unpacking a conditional pair: push the unpacking into the branches
                parts = None
                for k, t in enumerate(tgt.elts):
                    self.assign(t, self.proj(v, k, n), env, node)
                return
            else:
                parts = [("sub", v, (("at", lin(k)),), 0) for k in range(n)]
            for t, p in zip(tgt.elts, parts):
                self.assign(t, p, env, node)
        elif isinstance(tgt, ast.Subscript):
            b = self.ev(tgt.value, env)
            if not isinstance(b, Arr):
                raise Unsupported("write through something that is not a tracked array: " + _u(node))
            g, lp = tuple(self.guards), tuple(self.loops)
            if g[:len(b.birth_guards)] != b.birth_guards or lp[:len(b.birth_loops)] != b.birth_loops:
                raise Unsupported("array written outside the scope it was created in: " + _u(node))
            b.writes.append((g[len(b.birth_guards):], lp[len(b.birth_loops):],
                             self.index(tgt.slice, env), v))
        elif isinstance(tgt, ast.Attribute) and _u(tgt.value) == "self":
            if self.loops:
                raise Unsupported("attribute assigned inside a loop: " + _u(node))
            if _is(v, "list"):
                v = ListObj(v[1:])
            self.selfattrs[tgt.attr] = v
            self.effects.append(("setattr", tuple(self.guards), tuple(self.loops), (tgt.attr, v)))
        else:
            raise Unsupported("assignment target: " + _u(node))

    def proj(self, v, k, n):
        if isinstance(v, tuple) and v and v[0] == "cond":
            return mk_cond(v[1], self.proj(v[2], k, n), self.proj(v[3], k, n))
        if isinstance(v, tuple) and v and v[0] == "tuple" and len(v) - 1 == n:
            return v[1 + k]
        if isinstance(v, tuple) and v and v[0] == "raise":
            return v
        return ("sub", v, (("at", lin(k)),), 0)

    def block(self, stmts, env):
        """Ret(v): the block returns v on every path.  Part(items): it returns v_i if t_i (tested in
        order) and falls through otherwise; what follows runs under `not t_i`"""
        items = []
        npush = 0
        try:
            for st in stmts:
                n0 = len(self.pending)
                r = self.step(st, env)
                pend = self.pending[n0:]
                del self.pending[n0:]
                new = [(mk_not(t), ("raise", exc)) for t, exc in pend]
                if isinstance(r, Ret):
                    return Ret(_fold(items + new, r.v))
                new += r.items
                if any(v != CONTINUE for _, v in new) and self.stack_loops_open():
                    raise Unsupported("return / raise / a call that may raise inside a loop: " + _u(st)[:60])
                for t, _ in new:
                    self.guards.append(mk_not(t))
                    npush += 1
                items += new
            return Part(items)
        finally:
            if npush:
                del self.guards[len(self.guards) - npush:]

    def step(self, st, env):
        if isinstance(st, ast.Expr):
            if isinstance(st.value, ast.Constant) and isinstance(st.value.value, str):
                return _NOTHING
            if isinstance(st.value, ast.Call):
                if _u(st.value.func) in ("warn", "warnings.warn"):
                    return _NOTHING
                n0 = len(self.inlined)
                v = self.ev(st.value, env)
                if len(self.inlined) > n0 or v == NONE or (_is(v, "mcall") and v[2] in SIDE_EFFECT_METHODS):
                    return _NOTHING      # followed into its body, or a recorded effect
            raise Unsupported("expression statement: " + _u(st))
        if isinstance(st, ast.Assign):
            v = self.ev(st.value, env)
            for t in st.targets:
                self.assign(t, v, env, st)
            return _NOTHING
        if isinstance(st, ast.AugAssign):
            if not isinstance(st.target, ast.Name):
                raise Unsupported("augmented assignment: " + _u(st))
            v = self.ev(ast.BinOp(left=ast.Name(id=st.target.id, ctx=ast.Load()), op=st.op,
                                  right=st.value), env)
            self.assign(st.target, v, env, st)
            return _NOTHING
        if isinstance(st, ast.Return):
            if self.stack_loops_open():
                raise Unsupported("return inside a loop")
            return Ret(NONE if st.value is None else self.ev(st.value, env))
        if isinstance(st, ast.Raise):
            if self.stack_loops_open():
                raise Unsupported("raise inside a loop")
            exc = st.exc.func if isinstance(st.exc, ast.Call) else st.exc
            return Ret(("raise", _u(exc)))
        if isinstance(st, ast.Assert):
            t = self.ev(st.test, env)
            if t == FALSE:
                raise Unsupported("assert that always fails: " + _u(st))
            if t != TRUE:
                self.pending.append((t, "AssertionError"))
            return _NOTHING
        if isinstance(st, ast.If):
            return self.if_(st, env)
        if isinstance(st, ast.For):
            self.for_(st, env)
            return _NOTHING
        if isinstance(st, ast.Pass):
            return _NOTHING
        if isinstance(st, ast.Continue):
            return Ret(CONTINUE)       # leaves the iteration: what follows in the body runs otherwise
        raise Unsupported("statement %s: %s" % (type(st).__name__, _u(st)[:80]))

    def stack_loops_open(self):
        """is a loop of the function being executed open (loops of its callers do not count)"""
        return len(self.loopsets) > self.loop_base

    def if_(self, st, env):
        t = self.ev(st.test, env)
        if t == TRUE or t == FALSE:
            return self.block(st.body if t == TRUE else st.orelse, env)
        ea, eb = dict(env), dict(env)
        sa, sb = dict(self.selfattrs), dict(self.selfattrs)
        self.guards.append(t)
        self.selfattrs = sa
        try:
            ra = self.block(st.body, ea)
            sa = self.selfattrs                 # (a nested if may have replaced the dict)
            self.guards[-1] = mk_not(t)
            self.selfattrs = sb
            rb = self.block(st.orelse, eb)
            sb = self.selfattrs
        finally:
            self.guards.pop()
        if isinstance(ra, Ret) and isinstance(rb, Ret):
            self.selfattrs = sa
            return Ret(mk_cond(t, ra.v, rb.v))
        if isinstance(ra, Ret):
            # guard clause: what follows runs on the other path only
            self.selfattrs = sb
            env.clear()
            env.update(eb)
            return Part([(t, ra.v)] + rb.items)
        if isinstance(rb, Ret):
            self.selfattrs = sa
            env.clear()
            env.update(ea)
            return Part([(mk_not(t), rb.v)] + ra.items)
        # both fall through: merge what they bound
        self.selfattrs = {}
        for k in set(sa) | set(sb):
            # an attribute one branch does not assign keeps the value it had
            was = lin(("attr", ("name", "self"), k)) if k in self.int_attrs else ("attr", ("name", "self"), k)
            va, vb = sa.get(k, was), sb.get(k, was)
            self.selfattrs[k] = va if va is vb or self.same(va, vb) else mk_cond(t, va, vb)
        for k in set(ea) | set(eb):
            va, vb = ea.get(k, ("undef",)), eb.get(k, ("undef",))
            if va is vb or self.same(va, vb):
                env[k] = va
            elif va == ("undef",) or vb == ("undef",):
                env[k] = ("undef",)
            else:
                env[k] = mk_cond(t, va, vb)
        return Part([(mk_and(t, u), v) for u, v in ra.items] + [(mk_and(mk_not(t), u), v) for u, v in rb.items])

    @staticmethod
    def same(a, b):
        if isinstance(a, (Arr, ListObj)) or isinstance(b, (Arr, ListObj)):
            return a is b
        try:
            return a == b
        except Exception:
            return False

    def iterable(self, e, env, lv):
        """(element at the 0-based position lv, number of elements or None when unbounded) of an
        iterable expression: range / itertools.count / enumerate / zip / reversed(range) / any indexable
        value.  Every counting form is expressed over the same canonical 0-based counter."""
        L = lin(lv)
        if isinstance(e, ast.Call) and _u(e.func) == "enumerate" and len(e.args) + len(e.keywords) <= 2 \
                and e.args and all(k.arg == "start" for k in e.keywords):
            el, n = self.iterable(e.args[0], env, lv)
            st = e.args[1] if len(e.args) == 2 else e.keywords[0].value if e.keywords else None
            start = self.atomise(self.ev(st, env), e) if st is not None else lin(0)
            return ("tuple", L.add(start), el), n
        if isinstance(e, ast.Call) and isinstance(e.func, (ast.Name, ast.Attribute)) and not e.keywords:
            fu = _u(e.func)
            if fu == "zip" and e.args:
                parts = [self.iterable(a, env, lv) for a in e.args]
                ns = [n for _, n in parts if n is not None]
                if not ns or any(n != ns[0] for n in ns):
                    raise Unsupported("zip of iterables whose lengths are not the same expression: " + _u(e))
                return ("tuple",) + tuple(el for el, _ in parts), ns[0]
            if fu == "reversed" and len(e.args) == 1:
                v = self.ev(e.args[0], env)
                if _is(v, "range", 4):
                    n = self.range_len(v)
                    return v[1].add(n.add(lin(1), -1).scale(v[3])).add(L.scale(-v[3])), n
                raise Unsupported("reversed of something that is not a range: " + _u(e))
        v = self.ev(e, env)
        if _is(v, "range", 4):
            return v[1].add(L.scale(v[3])), self.range_len(v)
        if _is(v, "count", 3):
            return v[1].add(L.scale(v[2])), None
        if isinstance(v, (Arr, ListObj)) or _is(v, "raise") or isinstance(v, Lin):
            raise Unsupported("iteration over " + _u(e))
        return ("sub", v, (("at", L),), 0), lin(("len", v))

    @staticmethod
    def range_len(v):
        if v[3] == 1:
            return v[2].add(v[1], -1)
        if v[3] == -1:
            return v[1].add(v[2], -1)
        raise Unsupported("range with a step other than 1 / -1")

    def for_(self, st, env):
        if st.orelse:
            raise Unsupported("for/else")
        self.nloop += 1
        lv = ("loop", self.nloop)
        el, bound = self.iterable(st.iter, env, lv)
        if bound is None:
            raise Unsupported("unbounded loop: " + _u(st.iter))
        assigned = set()
        for n in ast.walk(ast.Module(body=st.body, type_ignores=[])):
            if isinstance(n, ast.Name) and isinstance(n.ctx, ast.Store):
                assigned.add(n.id)
            if isinstance(n, (ast.Break, ast.While, ast.Return, ast.Raise, ast.Try, ast.With)):
                raise Unsupported("%s inside a loop" % type(n).__name__)
        bound_names = {n.id for n in ast.walk(st.target) if isinstance(n, ast.Name)}
        assigned -= bound_names
        benv = dict(env)
        self.loops.append((lv, bound))
        self.loopsets.append((assigned, set()))
        try:
            self.assign(st.target, el, benv, st)
            r = self.block(st.body, benv)
        finally:
            self.loops.pop()
            self.loopsets.pop()
        if (isinstance(r, Ret) and r.v != CONTINUE) or any(v != CONTINUE for _, v in getattr(r, "items", [])):
            raise Unsupported("return inside a loop")
        for n in assigned | bound_names:
            env[n] = ("undef",)


CONTINUE = ("continue",)


class Ret:
    def __init__(self, v):
        self.v = v


class Part:
    def __init__(self, items):
        self.items = list(items)


_NOTHING = Part([])


def _fold(items, final):
    r = final
    for t, v in reversed(items):
        r = mk_cond(t, v, r)
    return r


# ------------------------------------------------------------------------------------------------
# reading facts off symbolic values


def _need(cond, what, v=None):
    if not cond:
        raise Unsupported(what + ("" if v is None else ": %s" % (_show(v),)))


def _show(v, depth=0):
    if depth > 6:
        return "..."
    if isinstance(v, Arr):
        return "zeros%s{%s}" % (_show(("tuple",) + v.shape, depth + 1),
                                "; ".join("%s%s[%s] <- %s" % (
                                    "if %s: " % _show(g, depth + 1) if g else "",
                                    "for %s<%s: " % (l[0][0], _show(l[0][1], depth + 1)) if l else "",
                                    _show(ix, depth + 1), _show(x, depth + 1))
                                    for g, l, ix, x in v.writes))
    if isinstance(v, Lin):
        parts = ["%s%s" % ("" if k == 1 else "%d*" % k, a if isinstance(a, str) else _show(a, depth + 1))
                 for a, k in sorted(v.t.items(), key=lambda x: repr(x[0]))]
        if v.c or not parts:
            parts.append(str(v.c))
        return "+".join(parts)
    if isinstance(v, tuple):
        return "(" + " ".join(_show(x, depth + 1) for x in v) + ")"
    return repr(v) if not isinstance(v, str) else v


def _is(v, tag, n=None):
    return isinstance(v, tuple) and len(v) > 0 and v[0] == tag and (n is None or len(v) == n)


def _peel_asserts(v, asserts):
    """result of a function with leading asserts: cond(t, rest, raise AssertionError)"""
    while _is(v, "cond", 4) and v[3] == ("raise", "AssertionError"):
        asserts.append(v[1])
        v = v[2]
    return v


def _lin_in(v, allowed, what, rename=None):
    _need(isinstance(v, Lin), what + " is not an integer expression", v)
    if rename:
        v = v.subst(rename)
    bad = [a for a in v.atoms() if a not in allowed]
    _need(not bad, what + " depends on %s" % ", ".join(_show(b) for b in bad), v)
    return v


def _gallina(v):
    parts = ["(%d * %s)" % (k, a) for a, k in sorted(v.t.items())]
    parts.append("(%d)" % v.c)
    return "(" + " + ".join(parts) + ")"


def _cond_reshape(v, test_ok, what):
    """`X.reshape(rows, -1)` when the scitype is tabular, X otherwise (if/else, conditional
    expression or guard form); returns (X, rows)"""
    _need(_is(v, "cond", 4) and test_ok(v[1]), what + ": expected a reshape under the tabular scitype", v)
    r, x = v[2], v[3]
    _need(_is(r, "mcall", 5) and r[2] == "reshape" and not r[4] and len(r[3]) == 2
          and r[3][1] == lin(-1), what + ": expected X.reshape(rows, -1)", r)
    _need(r[1] is x or (not isinstance(x, Arr) and r[1] == x), what + ": reshape of another array", v)
    return x, r[3][0]


def _tab_self(t):
    return t == mk_cmp("==", ("attr", ("name", "self"), "_estimator_scitype"), ("str", "tabular-regressor"))


def _slice(ix, what):
    _need(_is(ix, "slice", 3), what + ": expected a slice", ix)
    return ix[1], ix[2]


FULL = ("full",)
SELF = ("name", "self")


def NP(f, *args, **kw):
    return ("mcall", ("name", "np"), f, tuple(args), tuple(sorted(kw.items())))


def aslin(v):
    return v if isinstance(v, Lin) else lin(v)


def _split(v):
    """peel the exceptional exits off a function result: (normal value, [(raise condition, exception)])"""
    exits = []
    while _is(v, "cond", 4):
        if _is(v[2], "raise"):
            exits.append((v[1], v[2][1]))
            v = v[3]
        elif _is(v[3], "raise"):
            exits.append((mk_not(v[1]), v[3][1]))
            v = v[2]
        else:
            break
    return v, exits


STRATEGY_CLASSES = ("_DirectReducer", "_MultioutputReducer", "_RecursiveReducer", "_DirRecReducer")
FH_MIXINS = ("_OptionalForecastingHorizonMixin", "_RequiredForecastingHorizonMixin")


def _transform_function(world):
    """the sliding-window transform BY ROLE: the one function defined in _reduce.py that the `fit` of
    every strategy class reaches through its methods (whatever it and the methods in between are
    called)"""
    found = {}
    for cname in STRATEGY_CLASSES:
        seen, todo, hits = set(), ["fit"], set()
        while todo:
            m = todo.pop()
            if m in seen:
                continue
            seen.add(m)
            hit = world.method(cname, m)
            if hit is None:
                continue
            for n in ast.walk(hit[2]):
                if isinstance(n, ast.Call):
                    if isinstance(n.func, ast.Attribute) and _u(n.func.value) == "self":
                        todo.append(n.func.attr)
                    elif isinstance(n.func, ast.Name) and ("reduce", n.func.id) in world.funcs:
                        hits.add(n.func.id)
        found[cname] = hits
    names = set().union(*found.values())
    _need(len(names) == 1 and all(h == names for h in found.values()),
          "expected exactly one function of _reduce.py reached from fit of every strategy class, found %s"
          % {k: sorted(v) for k, v in found.items()})
    return names.pop()


def _swt(world, defs, fname):
    fn = world.funcs[("reduce", fname)]
    params = [a.arg for a in fn.args.args]
    _need(params == ["y", "window_length", "fh", "X", "scitype"], "signature of " + fname)
    it = Interp(world, "reduce")
    res = it.run(it.body(fn), {})
    res, exits = _split(res)
    fh0 = ("name", "fh")
    asserts = set(_lits(tuple(mk_not(t) for t, exc in exits if exc == "AssertionError")))
    want = {("attr", fh0, "is_relative"), ("mcall", fh0, "is_all_out_of_sample", (), ())}
    _need(asserts == want, "the transform must assert fh.is_relative and fh.is_all_out_of_sample()",
          ("tuple",) + tuple(asserts))
    rej = [t for t, exc in exits if exc != "AssertionError"]
    _need(len(rej) == 1 and [exc for t, exc in exits if exc != "AssertionError"] == ["ValueError"]
          and _is(res, "tuple", 3), "one rejection raising ValueError, and (yt, Xt) returned otherwise", res)
    t = rej[0]
    neg = False
    if _is(t, "not", 2):
        neg, t = True, t[1]
    _need(_is(t, "cmp", 4), "rejection test is not a comparison", t)
    # base symbols: wl = check_window_length(window_length); the indexer array h with last element fm;
    # n = rows of z
    wl_atom = ("call", ("name", "check_window_length"), (("name", "window_length"),), ())
    fhi = ("mcall", ("mcall", fh0, "to_indexer", (), ()), "to_numpy", (), ())
    fm_atom = ("sub", fhi, (("at", lin(-1)),), 0)
    yv = ("mcall", ("name", "y"), "to_numpy", (), ())
    y2 = ("cond", mk_cmp("==", lin(("attr", yv, "ndim")), lin(1)),
          ("mcall", yv, "reshape", (lin(-1), lin(1)), ()), yv)
    zv = ("cond", ("isnone", ("name", "X")), y2,
          NP("column_stack", ("list", y2, ("mcall", ("name", "X"), "to_numpy", (), ()))))
    n_atom = ("sub", ("attr", zv, "shape"), (("at", lin(0)),), 0)
    nv_atom = ("sub", ("attr", zv, "shape"), (("at", lin(1)),), 0)
    ren = {wl_atom: "wl", fm_atom: "fm", n_atom: "n", fhi: "h"}
    ops = {"<": "<?", "<=": "<=?", "==": "=?"}
    lhs = _lin_in(t[2], {"wl", "fm", "n"}, "rejection test (lhs)", ren)
    rhs = _lin_in(t[3], {"wl", "fm", "n"}, "rejection test (rhs)", ren)
    cmp = "(%s %s %s)" % (_gallina(lhs), ops[t[1]], _gallina(rhs))
    defs.append(("gen_reject", "wl fm n", "bool", "(negb %s)" % cmp if neg else cmp))
    yt, xt = res[1], res[2]
    # Xt: reshape(rows, -1) iff tabular
    X3, rows = _cond_reshape(
        xt, lambda c: c == mk_cmp("==", ("name", "scitype"), ("str", "tabular-regressor")), "returned Xt")
    _need(_is(X3, "sub", 4) and len(X3[2]) == 3 and X3[2][0] == FULL and X3[2][1] == FULL,
          "Xt must be Zt[:, :, :hi]", X3)
    flo, fhi_ = _slice(X3[2][2], "feature columns")
    _need(flo is None or flo == lin(0), "feature columns must start at 0", X3)
    ZT = X3[1]
    _need(aslin(rows) == lin(("sub", ("attr", X3, "shape"), (("at", lin(0)),), 0)),
          "tabular reshape must keep the rows of Xt", rows)
    defs.append(("gen_feat_hi", "wl", "Z", _gallina(_lin_in(fhi_, {"wl"}, "feature columns", ren))))
    # yt = Zt[:, 0, wl + fh]
    _need(_is(yt, "sub", 4) and len(yt[2]) == 3 and yt[2][0] == FULL and yt[2][1] == ("at", lin(0))
          and yt[2][2][0] == "at", "yt must be Zt[:, 0, columns]", yt)
    _need(yt[1] == ZT, "yt and Xt are cut from different arrays", yt)
    tc = _lin_in(yt[2][2][1], {"wl", "h"}, "target columns", ren)
    _need(tc.t.get("h") == 1, "target columns must be an offset of the horizon indexer", tc)
    defs.append(("gen_tgt_col", "wl h", "Z", _gallina(tc)))
    # Zt = Z0[lo:stop] on the first axis
    _need(_is(ZT, "sub", 4) and len(ZT[2]) == 1 and isinstance(ZT[1], Arr), "truncation Zt[lo:hi]", ZT)
    Z0 = ZT[1]
    _need(ZT[3] == len(Z0.writes) == 1, "the array must be truncated after it has been filled", ZT)
    tlo, thi = _slice(ZT[2][0], "truncation")
    _need(tlo is not None and thi is not None, "truncation needs both bounds", ZT)
    _need(len(Z0.shape) == 3 and Z0.shape[1] == lin(nv_atom) and not Z0.birth_loops,
          "np.zeros((rows, n_variables, columns))", Z0)
    R = _lin_in(Z0.shape[0], {"wl", "fm", "n"}, "allocated rows", ren)
    C = _lin_in(Z0.shape[2], {"wl", "fm"}, "allocated columns", ren)
    defs.append(("gen_alloc_rows", "wl fm n", "Z", _gallina(R)))
    defs.append(("gen_alloc_cols", "wl fm", "Z", _gallina(C)))
    defs.append(("gen_trunc_lo", "wl fm", "Z", _gallina(_lin_in(tlo, {"wl", "fm"}, "truncation start", ren))))
    stop = _lin_in(thi, {"wl", "fm", "n"}, "truncation stop", ren)
    coeffs = list(stop.t.values()) + [stop.c]
    if all(k <= 0 for k in coeffs) and any(k < 0 for k in coeffs):
        stop = R.add(stop)                 # a negative stop counts from the end of the axis
    else:
        _need(all(k >= 0 for k in coeffs), "cannot tell whether the truncation stop counts from the end", stop)
    defs.append(("gen_trunc_stop", "wl fm n", "Z", _gallina(stop)))
    # the fill: for k in range(K): Z0[i:j, :, k] = z
    (g, lp, ix, val), = Z0.writes
    _need(not g and len(lp) == 1, "the fill must be one unconditional loop", Z0)
    kv, K = lp[0]
    rk = dict(ren)
    rk[kv] = "k"
    defs.append(("gen_nk", "wl fm", "Z", _gallina(_lin_in(K, {"wl", "fm"}, "loop bound", ren))))
    _need(len(ix) == 3 and ix[1] == FULL and ix[2] == ("at", lin(kv)), "fill Zt[i:j, :, k] = z", Z0)
    i_, j_ = _slice(ix[0], "filled rows")
    _need(i_ is not None and j_ is not None, "fill needs both row bounds", Z0)
    defs.append(("gen_i", "wl fm k", "Z", _gallina(_lin_in(i_, {"wl", "fm", "k"}, "fill start", rk))))
    defs.append(("gen_j", "wl fm n k", "Z", _gallina(_lin_in(j_, {"wl", "fm", "n", "k"}, "fill stop", rk))))
    _need(val == zv, "the fill writes something else than y (as a column) followed by the columns of X", val)
    _need(not it.effects, fname + " has side effects")


def _raises_when(exits, test, exc):
    """one of the exceptional exits raises `exc` whenever `test` holds (its condition is the test, or a
    disjunction that contains it: adjacent raises of the same exception are one exit)"""
    return any(e == exc and (c == test or (_is(c, "or") and test in c[1:])) for c, e in exits)


def _lits(guards):
    """a path condition (tuple of tests) as the set of its conjuncts"""
    t = mk_and(*guards)
    return frozenset(t[1:]) if _is(t, "and") else frozenset() if t == TRUE else frozenset([t])


def _predicts(world, defs, fname):
    """public entry points: `predict` of each strategy class (for out-of-sample relative horizons:
    fh.is_all_out_of_sample(cutoff) is taken to hold) and `fit` of the dirrec class, followed through
    whatever private methods they call"""
    wl = ("attr", SELF, "window_length_")
    cut = lin(("attr", SELF, "cutoff"))
    selfX = ("attr", SELF, "_X")
    Xp = ("name", "X")
    used = {}
    windows = []

    def run(cname, entry, params):
        hit = world.method(cname, entry)
        _need(hit is not None, "%s.%s missing" % (cname, entry))
        fn = hit[2]
        _need([a.arg for a in fn.args.args][:len(params)] == params, "%s.%s signature" % (cname, entry))
        it = Interp(world, hit[1], cls=cname, opaque_funcs=(fname,), assume_true=("is_all_out_of_sample",))
        env = {a.arg: ("name", a.arg) for a in fn.args.args}
        res = it.run(it.body(fn), env)
        used.setdefault(cname, set()).update(n for c, n in it.inlined)
        used[cname].add(entry)
        return it, res

    def forecast(res, what):
        """predict returns pd.Series(y_pred, index=fh'.to_absolute(cutoff)) with fh' the out-of-sample
        part of self.fh; gives (y_pred, fh', exits)"""
        v, exits = _split(res)
        _need(_is(v, "mcall", 5) and v[1] == ("name", "pd") and v[2] == "Series" and len(v[3]) == 1
              and len(v[4]) == 1 and v[4][0][0] == "index", what + ": predict must return "
              "pd.Series(y_pred, index=...)", v)
        idx = v[4][0][1]
        fhv = ("mcall", ("attr", SELF, "fh"), "to_out_of_sample", (cut,), ())
        _need(idx == ("mcall", fhv, "to_absolute", (cut,), ()),
              what + ": the forecast must be labelled fh.to_absolute(cutoff)", idx)
        return v[3][0], fhv, exits

    def window(v, what):
        """the label-based window self._y.loc[lo:hi].to_numpy(): returns (lo, hi)"""
        def loc(x, base):
            _need(_is(x, "mcall", 5) and x[2] == "to_numpy" and not x[3] and not x[4] and _is(x[1], "sub", 4)
                  and x[1][1] == ("attr", ("attr", SELF, base), "loc") and len(x[1][2]) == 1,
                  what + ": expected the label-based selection self.%s.loc[lo:hi].to_numpy()" % base, x)
            return _slice(x[1][2][0], what)
        return loc(v, "_y")

    def xwindow(v, bounds, what):
        _need(_is(v, "attr", 3) and v[2] == "T" and _is(v[1], "cond", 4) and v[1][1] == ("isnone", selfX)
              and v[1][2] == NONE, what + ": X_last.T with X_last None when no X was given", v)
        x = v[1][3]
        _need(_is(x, "mcall", 5) and x[2] == "to_numpy" and not x[3] and not x[4] and _is(x[1], "sub", 4)
              and x[1][1] == ("attr", selfX, "loc") and len(x[1][2]) == 1
              and _slice(x[1][2][0], what) == bounds,
              what + ": the window of X must be self._X.loc[lo:hi] with the bounds of y", x)

    def unguard(hook, fhv, what):
        """the hook answers NaN (np.full(len(fh), np.nan)) on one path: (condition of the other path,
        its value)"""
        _need(_is(hook, "cond", 4), what + ": no guard for an unusable window", hook)
        nan = NP("full", lin(("len", fhv)), ("attr", ("name", "np"), "nan"))
        if not isinstance(hook[3], (Arr, ListObj)) and hook[3] == nan:
            return hook[1], hook[2]
        _need(not isinstance(hook[2], (Arr, ListObj)) and hook[2] == nan,
              what + ": one path must answer np.full(len(fh), np.nan)", hook)
        return mk_not(hook[1]), hook[3]

    def predictable_guard(t, y_last, what):
        ok = mk_and(mk_cmp("==", lin(("len", y_last)), lin(wl)),
                    mk_cmp("==", lin(NP("sum", NP("isnan", y_last))), lin(0)),
                    mk_cmp("==", lin(NP("sum", NP("isinf", y_last))), lin(0)))
        _need(t == ok, what + ": the NaN answer must be given exactly when the window that is fed has "
              "not window_length values or holds NaN / inf", t)

    def ncols(v, src, what):
        want = mk_cond(("isnone", src), lin(1), lin(("sub", ("attr", src, "shape"), (("at", lin(1)),), 0)).add(lin(1)))
        _need(v == want, what + ": number of variables", v)

    def norm_ix(ix):
        return tuple(("slice", None, i[2]) if _is(i, "slice", 3) and i[1] == lin(0) else i for i in ix)

    def window_array(A, what):
        """np.zeros((1, n_columns, wl)) <- y_last at [:, 0, :], X_last.T at [:, 1:, :] if self._X;
        returns y_last"""
        _need(isinstance(A, Arr) and len(A.shape) == 3 and A.shape[0] == lin(1)
              and A.shape[2] == lin(wl), what + ": window array", A)
        ncols(A.shape[1], selfX, what)
        _need(len(A.writes) == 2, what + ": expected the two fills", A)
        w = sorted(A.writes, key=lambda x: len(x[0]))
        _need(not w[0][0] and not w[0][1] and w[0][2] == (FULL, ("at", lin(0)), FULL),
              what + ": X_pred[:, 0, :] = y_last", A)
        y_last = w[0][3]
        b = window(y_last, what)
        _need(_lits(w[1][0]) == {mk_not(("isnone", selfX))} and not w[1][1]
              and w[1][2] == (FULL, ("slice", lin(1), None), FULL),
              what + ": X_pred[:, 1:, :] = X_last.T when X was given in fit", A)
        xwindow(w[1][3], b, what)
        windows.append((what, b))
        return y_last

    def pred_input(v, what):
        x, rows = _cond_reshape(v, _tab_self, what)
        _need(aslin(rows) == lin(1), what + ": reshape(1, -1)", v)
        return x

    def only_predicts(it, what):
        bad = [e[0] for e in it.effects if e[0] not in ("predict", "setattr")]
        _need(not bad and [e[0] for e in it.effects].count("predict") == 1,
              what + ": exactly one estimator.predict site expected, effects %s" % [e[0] for e in it.effects])

    nsteps = (lin(("len", ("attr", SELF, "estimators_"))), lin(("len", ("attr", SELF, "fh"))))
    PARAMS = ["self", "fh", "X"]

    # --- direct
    it, res = run("_DirectReducer", "predict", PARAMS)
    hook, fhv, exits = forecast(res, "direct")
    tguard, yp = unguard(hook, fhv, "direct")
    _need(isinstance(yp, Arr) and yp.shape == (lin(("len", fhv)),) and len(yp.writes) == 1,
          "direct: y_pred = np.zeros(len(fh)) filled by one loop", yp)
    (g, lp, ix, val), = yp.writes
    _need(not g and len(lp) == 1 and lp[0][1] in nsteps
          and ix == (("at", lin(lp[0][0])),), "direct: y_pred[i] for every fitted estimator", yp)
    _need(_is(val, "mcall", 5) and val[2] == "predict" and len(val[3]) == 1 and not val[4]
          and val[1] == ("sub", ("attr", SELF, "estimators_"), (("at", lin(lp[0][0])),), 0),
          "direct: y_pred[i] = estimators_[i].predict(X_pred)", val)
    y_last = window_array(pred_input(val[3][0], "direct predict input"), "direct")
    predictable_guard(tguard, y_last, "direct")
    only_predicts(it, "direct")

    # --- multioutput
    it, res = run("_MultioutputReducer", "predict", PARAMS)
    hook, fhv, exits = forecast(res, "multioutput")
    tguard, yp = unguard(hook, fhv, "multioutput")
    _need(_is(yp, "mcall", 5) and yp[2] == "ravel" and not yp[3] and _is(yp[1], "mcall", 5)
          and yp[1][2] == "predict" and yp[1][1] == ("attr", SELF, "estimator_") and len(yp[1][3]) == 1,
          "multioutput: return estimator_.predict(X_pred).ravel()", yp)
    y_last = window_array(pred_input(yp[1][3][0], "multioutput predict input"), "multioutput")
    predictable_guard(tguard, y_last, "multioutput")
    only_predicts(it, "multioutput")

    # --- recursive
    it, res = run("_RecursiveReducer", "predict", PARAMS)
    hook, fhv, exits = forecast(res, "recursive")
    _need(_raises_when(exits, mk_and(mk_not(("isnone", selfX)), ("isnone", Xp)), "ValueError"),
          "recursive: X must be passed to predict if it was given in fit", ("tuple",) + tuple(exits))
    tguard, yp = unguard(hook, fhv, "recursive")
    fm_atom = ("sub", ("mcall", fhv, "to_relative", (cut,), ()), (("at", lin(-1)),), 0)
    fhidx = ("mcall", fhv, "to_indexer", (cut,), ())
    _need(_is(yp, "sub", 4) and yp[2] == (("at", fhidx),) and isinstance(yp[1], Arr),
          "recursive: return y_pred[fh.to_indexer(self.cutoff)]", yp)
    Y = yp[1]
    _need(Y.shape == (lin(fm_atom),) and len(Y.writes) == 1 and yp[3] == 1,
          "recursive: y_pred = np.zeros(fh_max) filled by the loop before it is returned", Y)
    (g, lp, ix, val), = Y.writes
    _need(not g and len(lp) == 1 and lp[0][1] == lin(fm_atom) and ix == (("at", lin(lp[0][0])),),
          "recursive: one step per i in range(fh_max)", Y)
    iv = lp[0][0]
    ren = {wl: "wl", fm_atom: "fm", iv: "i"}
    _need(_is(val, "mcall", 5) and val[2] == "predict" and val[1] == ("attr", SELF, "estimator_")
          and len(val[3]) == 1, "recursive: y_pred[i] = estimator_.predict(X_pred)", val)
    S = pred_input(val[3][0], "recursive predict input")
    _need(_is(S, "sub", 4) and isinstance(S[1], Arr) and len(S[2]) == 3 and S[2][0] == FULL
          and S[2][1] == FULL, "recursive: X_pred = last[:, :, lo:hi]", S)
    L = S[1]
    lo, hi = _slice(S[2][2], "recursive window")
    defs.append(("gen_rec_lo", "wl i", "Z", _gallina(_lin_in(lo if lo is not None else lin(0), {"wl", "i"},
                                                              "recursive window start", ren))))
    defs.append(("gen_rec_hi", "wl i", "Z", _gallina(_lin_in(hi, {"wl", "i"}, "recursive window stop", ren))))
    _need(len(L.shape) == 3 and L.shape[0] == lin(1), "recursive: last = np.zeros((1, n_columns, len))", L)
    ncols(L.shape[1], Xp, "recursive")
    defs.append(("gen_rec_buf", "wl fm", "Z", _gallina(_lin_in(L.shape[2], {"wl", "fm"}, "recursive buffer length", ren))))
    gx = frozenset([mk_not(("isnone", Xp))])
    fills = [w for w in L.writes if not w[1]]
    fb = [w for w in L.writes if w[1]]
    _need(len(fills) == 3 and len(fb) == 1 and S[3] == 3 and L.writes.index(fb[0]) == 3,
          "recursive: three fills before the loop, the window is read before the feedback is written", L)
    norm = {(_lits(w[0]), norm_ix(w[2])): w[3] for w in fills}
    k0 = (frozenset(), (FULL, ("at", lin(0)), ("slice", None, lin(wl))))
    k1 = (gx, (FULL, ("slice", lin(1), None), ("slice", None, lin(wl))))
    k2 = (gx, (FULL, ("slice", lin(1), None), ("slice", lin(wl), None)))
    _need(set(norm) == {k0, k1, k2}, "recursive: fills last[:, 0, :wl], last[:, 1:, :wl], last[:, 1:, wl:]", L)
    y_last = norm[k0]
    b = window(y_last, "recursive")
    xwindow(norm[k1], b, "recursive")
    windows.append(("recursive", b))
    _need(norm[k2] == ("attr", Xp, "T"), "recursive: last[:, 1:, wl:] = X.T (the X passed to predict)", norm[k2])
    g, lp2, ix, v = fb[0]
    _need(not g and lp2 == lp and len(ix) == 3 and ix[0] == FULL and ix[1] == ("at", lin(0))
          and ix[2][0] == "at" and v == ("sub", Y, (("at", lin(iv)),), 1),
          "recursive: last[:, 0, pos] = y_pred[i] after the prediction of step i", fb[0][2:])
    defs.append(("gen_rec_fb", "wl i", "Z", _gallina(_lin_in(ix[2][1], {"wl", "i"}, "recursive feedback position", ren))))
    predictable_guard(tguard, y_last, "recursive")
    only_predicts(it, "recursive")

    # --- dirrec
    it, res = run("_DirRecReducer", "predict", PARAMS)
    hook, fhv, exits = forecast(res, "dirrec")
    _need(_raises_when(exits, mk_not(("isnone", Xp)), "NotImplementedError"), "dirrec: exogenous X refused at predict",
          ("tuple",) + tuple(exits))
    tguard, Y = unguard(hook, fhv, "dirrec")
    q = ("len", ("attr", SELF, "fh"))
    _need(isinstance(Y, Arr) and Y.shape == (lin(("len", fhv)),) and len(Y.writes) == 1,
          "dirrec: y_pred = np.zeros(len(fh)) filled by one loop", Y)
    (g, lp, ix, val), = Y.writes
    _need(not g and len(lp) == 1 and lp[0][1] in nsteps and ix == (("at", lin(lp[0][0])),),
          "dirrec: one step per fitted estimator / step of self.fh", Y)
    iv = lp[0][0]
    ren = {wl: "wl", q: "q", iv: "i"}
    _need(_is(val, "mcall", 5) and val[2] == "predict" and len(val[3]) == 1
          and val[1] == ("sub", ("attr", SELF, "estimators_"), (("at", lin(iv)),), 0),
          "dirrec: y_pred[i] = estimators_[i].predict(X_pred)", val)
    S = pred_input(val[3][0], "dirrec predict input")
    _need(_is(S, "sub", 4) and isinstance(S[1], Arr) and len(S[2]) == 3 and S[2][0] == FULL
          and S[2][1] == FULL, "dirrec: X_pred = X_full[:, :, :hi]", S)
    F = S[1]
    lo, hi = _slice(S[2][2], "dirrec window")
    _need(lo is None or lo == lin(0), "dirrec window must start at 0", S)
    defs.append(("gen_dr_hi", "wl i", "Z", _gallina(_lin_in(hi, {"wl", "i"}, "dirrec window stop", ren))))
    _need(F.shape[:2] == (lin(1), lin(1)) and len(F.shape) == 3, "dirrec: X_full = np.zeros((1, 1, len))", F)
    defs.append(("gen_dr_buf", "wl q", "Z", _gallina(_lin_in(F.shape[2], {"wl", "q"}, "dirrec buffer length", ren))))
    _need(len(F.writes) == 2 and S[3] == 1, "dirrec: one fill, window read before the feedback", F)
    f0, f1 = F.writes
    _need(not f0[0] and not f0[1] and norm_ix(f0[2]) == (FULL, ("at", lin(0)), ("slice", None, lin(wl))),
          "dirrec: X_full[:, 0, :window_length] = y_last", f0[2:])
    y_last = f0[3]
    windows.append(("dirrec", window(y_last, "dirrec")))
    _need(not f1[0] and f1[1] == lp and len(f1[2]) == 3 and f1[2][0] == FULL
          and f1[2][1] in (FULL, ("at", lin(0))) and f1[2][2][0] == "at"
          and f1[3] == ("sub", Y, (("at", lin(iv)),), 1),
          "dirrec: X_full[:, :, pos] = y_pred[i] after the prediction of step i", f1[2:])
    defs.append(("gen_dr_fb", "wl i", "Z", _gallina(_lin_in(f1[2][2][1], {"wl", "i"}, "dirrec feedback position", ren))))
    predictable_guard(tguard, y_last, "dirrec")
    only_predicts(it, "dirrec")

    # --- the window every strategy feeds: self._y.loc[cutoff - window_length_ + 1 : cutoff]
    _need(all(b == windows[0][1] for _, b in windows), "the strategies feed different windows",
          ("tuple",) + tuple(windows))
    rw = {("attr", SELF, "cutoff"): "c", wl: "wl"}
    defs.append(("gen_lw_lo", "wl c", "Z", _gallina(_lin_in(windows[0][1][0], {"wl", "c"}, "window start", rw))))
    defs.append(("gen_lw_hi", "wl c", "Z", _gallina(_lin_in(windows[0][1][1], {"wl", "c"}, "window stop", rw))))

    # --- who owns the column order: what fit / update store as self._y / self._X (the frames the last
    # window is cut from) is the caller's data handed through validation functions that return their
    # argument UNCHANGED (pass-through analysis), and the training windows are built from the caller's
    # y / X themselves: both sides see the columns in the caller's order
    flow = _Flow(world)

    def validated(v, what):
        """v is component k of G(.., y, .., X, ..) for a followable G that returns (y, X) unchanged:
        gives (k, the y argument, the X argument)"""
        _need(_is(v, "sub", 4) and _is(v[1], "call") and _is(v[1][1], "name", 2) and len(v[2]) == 1
              and v[2][0][0] == "at" and isinstance(v[2][0][1], Lin) and v[2][0][1].is_const(),
              what + ": expected a component of the validated (y, X) pair", v)
        call = v[1]
        r = flow.resolve("sktime_base", call[1][1]) or flow.resolve("reduce", call[1][1])
        _need(r is not None, what + ": %s cannot be followed" % call[1][1])
        gm, gfn = r
        names = [p.arg for p in gfn.args.args]
        bound = dict(zip(names, call[2]))
        bound.update(dict(call[3]))
        _need(len(call[2]) <= len(names) and set(bound) <= set(names), what + ": arguments of " + gfn.name, call)
        py, pX = names[0], names[1] if len(names) > 1 else None
        _need(py in bound and pX in bound, what + ": %s must be given y and X" % gfn.name, call)
        flow.returns(gm, gfn, [py, pX])            # raises unless (y, X) come back unchanged
        used.setdefault("validation", set()).add(gfn.name)
        return v[2][0][1].c, bound[py], bound[pX]

    def calls_of(v, name, seen=None):
        """the opaque calls of `name` inside a value"""
        seen = set() if seen is None else seen
        out = []
        if isinstance(v, (Arr, ListObj)):
            if id(v) in seen:
                return out
            seen.add(id(v))
            parts = list(v.shape) + [x for w in v.writes for x in (w[2], w[3])] if isinstance(v, Arr) \
                else list(v.items) + [a[2] for a in v.appends]
        elif isinstance(v, Lin):
            parts = list(v.t)
        elif isinstance(v, tuple):
            if _is(v, "call") and v[1] == ("name", name):
                out.append(v)
            parts = list(v)
        else:
            parts = []
        for x in parts:
            out += calls_of(x, name, seen)
        return out

    for cname in STRATEGY_CLASSES:
        it, res = run(cname, "fit", ["self", "y", "X", "fh"])
        v, exits = _split(res)
        _need(v == SELF, cname + ".fit must return self", v)
        # the resolved settings every later step reads (self.window_length_ in the last-window
        # extraction and in the prediction loops) are assigned UNCONDITIONALLY from the constructor
        # parameters on every fit: a refit after set_params must behave like a fresh forecaster
        for attr, par, chk in (("window_length_", "window_length", "check_window_length"),
                               ("step_length_", "step_length", "check_step_length")):
            _need(it.selfattrs.get(attr) == ("call", ("name", chk), (("attr", SELF, par),), ()),
                  cname + ".fit must set self.%s = %s(self.%s) on every call (no guard, no cache)"
                  % (attr, chk, par), it.selfattrs.get(attr))
        ky, ay, aX = validated(it.selfattrs.get("_y"), cname + ".fit: self._y")
        kx, by, bX = validated(it.selfattrs.get("_X"), cname + ".fit: self._X")
        _need((ky, kx) == (0, 1) and ay == by == ("name", "y") and aX == bX == Xp,
              cname + ".fit must store the validated y and X it was given", ("tuple", ay, aX, by, bX))
        fits = [e for e in it.effects if e[0] == "fit"]
        _need(fits, cname + ".fit does not fit any regressor")
        tcalls = [c for e in fits for c in calls_of(e[3], fname)]
        _need(tcalls, cname + ".fit: the regressors are not fitted on the output of " + fname)
        for c in tcalls:
            kw = dict(c[3])
            # (the validated objects ARE the caller's, by the pass-through analysis above)
            _need(not c[2] and kw.get("y") in (("name", "y"), it.selfattrs.get("_y"))
                  and kw.get("X") in (Xp, it.selfattrs.get("_X")),
                  cname + ".fit: the training windows must be built from the caller's y and X", c)

    # update(y, X, update_params=False): the new data go through the same validation and are merged by
    # label into what is remembered
    for cname in ("_DirectReducer", "_RecursiveReducer"):
        hit = world.method(cname, "update")
        _need(hit is not None, cname + ".update missing")
        fn = hit[2]
        _need([a.arg for a in fn.args.args] == ["self", "y", "X", "update_params"], cname + ".update signature")
        it = Interp(world, hit[1], cls=cname, opaque_funcs=(fname,), assume_true=("is_all_out_of_sample",))
        res = it.run(it.body(fn), {"self": SELF, "y": ("name", "y"), "X": Xp, "update_params": FALSE})
        used[cname].update(n for c, n in it.inlined)
        used[cname].add("update")
        v, exits = _split(res)
        _need(v == SELF, cname + ".update must return self", v)
        for attr, k in (("_y", 0), ("_X", 1)):
            sv = it.selfattrs.get(attr)
            old = ("attr", SELF, attr)
            _need(_is(sv, "cond", 4), cname + ".update: self.%s" % attr, sv)
            new = sv[2] if sv[3] == old else sv[3] if sv[2] == old else None
            if attr == "_X":
                # a frame: merging by label may reorder the columns (pandas returns the sorted union
                # when the two frames list them differently), so the merged frame must be re-indexed by
                # a column-order-preserving selection: the columns remembered so far in their order,
                # then the columns seen for the first time in the order of the merged frame.  Such a
                # label list is a permutation of the merged frame's columns that keeps the old layout;
                # a selection that drops the new columns, a sort, or no selection at all is not.
                _need(_is(new, "select", 3), cname + ".update: the merged frame must be re-indexed to the "
                      "column order remembered so far", new)
                merged, labels = new[1], new[2]
                ocols, mcols = ("attr", old, "columns"), ("attr", merged, "columns")
                _need(labels == mk_seqcat(ocols, ("seqdiff", mcols, ocols)),
                      cname + ".update: the selection must be the old columns in their order followed by "
                      "the unseen columns of the merged frame", labels)
                new = merged
            _need(_is(new, "mcall", 5) and new[2] == "combine_first" and new[3] == (old,) and not new[4],
                  cname + ".update: self.%s = new.combine_first(self.%s)" % (attr, attr), sv)
            kk, ay, aX = validated(new[1], cname + ".update: the new " + attr)
            _need(kk == k and ay == ("name", "y") and aX == Xp,
                  cname + ".update must merge the validated y / X it was given", new)

    # --- dirrec fit, from the public `fit`
    it, res = run("_DirRecReducer", "fit", ["self", "y", "X", "fh"])
    v, exits = _split(res)
    _need(v == SELF, "dirrec fit must return self", v)
    _need(_raises_when(exits, mk_not(("isnone", Xp)), "NotImplementedError")
          or _raises_when(exits, mk_not(("isnone", it.selfattrs.get("_X"))), "NotImplementedError"),
          "dirrec fit: exogenous X refused", ("tuple",) + tuple(exits))
    fits = [e for e in it.effects if e[0] == "fit"]
    _need(len(fits) == 1 and not [e for e in it.effects if e[0] == "predict"],
          "dirrec fit: one estimator.fit in the loop")
    _, g, lp, v = fits[0]
    est = v[1]
    _need(est == ("call", ("name", "clone"), (("attr", SELF, "estimator"),), ()),
          "dirrec fit: a fresh clone of self.estimator per step", est)
    Xf, tgt = v[3]
    tcs = calls_of(v, fname)
    _need(tcs and all(c == tcs[0] for c in tcs), "dirrec fit: one call of " + fname, v)
    tkw = dict(tcs[0][3])
    # y / X: the caller's, or the validated objects (the same by the pass-through analysis)
    _need(tkw.get("y") in (("name", "y"), it.selfattrs.get("_y")) and tkw.get("X") in (Xp, it.selfattrs.get("_X")),
          "dirrec fit: the training windows must be built from the caller's y and X", tcs[0])
    swt = ("call", ("name", fname), (), (
        ("X", tkw["X"]), ("fh", ("mcall", ("attr", SELF, "fh"), "to_relative", (cut,), ())),
        ("scitype", ("attr", SELF, "_estimator_scitype")), ("window_length", ("attr", SELF, "window_length")),
        ("y", tkw["y"])))
    yt = ("sub", swt, (("at", lin(0)),), 0)
    xt0 = ("sub", swt, (("at", lin(1)),), 0)
    xt = ("cond", _tab_cmp_self(), NP("expand_dims", xt0, axis=lin(1)), xt0)
    full = NP("concatenate", ("list", xt, NP("expand_dims", yt, axis=lin(1))), axis=lin(2))
    # yt has one column per entry of the horizon handed to the transform (checked in _swt: yt =
    # Zt[:, 0, wl + indexer]), i.e. len(self.fh) columns: iterating over the rows of yt.T is the loop
    # over range(len(self.fh)), and yt.T[i] is yt[:, i]
    ytT = ("attr", yt, "T")
    _need(len(lp) == 1 and lp[0][1] in (lin(q), lin(("len", ytT))),
          "dirrec fit: one step per entry of self.fh / per target column", lp)
    iv = lp[0][0]
    if tgt == ("sub", ytT, (("at", lin(iv)),), 0):
        tgt = ("sub", yt, (FULL, ("at", lin(iv))), 0)
    _need(tgt == ("sub", yt, (FULL, ("at", lin(iv))), 0), "dirrec fit: target yt[:, i]", tgt)
    _need(_is(Xf, "cond", 4) and _tab_self(Xf[1]), "dirrec fit: tabular reshape of X_fit", Xf)
    sl = Xf[3]
    _need(_is(Xf[2], "mcall", 5) and Xf[2][2] == "reshape" and Xf[2][1] == sl and len(Xf[2][3]) == 2
          and Xf[2][3][1] == lin(-1)
          and aslin(Xf[2][3][0]) == lin(("sub", ("attr", sl, "shape"), (("at", lin(0)),), 0)),
          "dirrec fit: X_fit.reshape(X_fit.shape[0], -1)", Xf[2])
    _need(_is(sl, "sub", 4) and sl[1] == full and len(sl[2]) == 3 and sl[2][0] == FULL and sl[2][1] == FULL,
          "dirrec fit: X_fit = X_full[:, :, :hi] of np.concatenate([Xt, yt[:, None, :]], axis=2)", sl)
    lo, hi = _slice(sl[2][2], "dirrec fit window")
    _need(lo is None or lo == lin(0), "dirrec fit window must start at 0", sl)
    nt = ("sub", ("attr", xt, "shape"), (("at", lin(2)),), 0)      # Xt.shape[2] = window_length
    defs.append(("gen_dr_fit_hi", "wl i", "Z", _gallina(_lin_in(hi, {"wl", "i"}, "dirrec fit window stop",
                                                                 {nt: "wl", iv: "i"}))))
    est_list = it.selfattrs.get("estimators_")
    _need(isinstance(est_list, ListObj) and not est_list.items and len(est_list.appends) == 1
          and est_list.appends[0][1] == lp and est_list.appends[0][2] == est,
          "dirrec fit: estimators_ collects the fitted clones in step order", est_list)
    return used


# ------------------------------------------------------------------------------------------------
# "returns its argument unchanged": a conservative, fail-closed pass-through analysis of the public
# validation functions that stand between the caller's data and what the forecaster stores.  The
# symbolic runs keep those functions opaque (their checks use constructs outside the subset); what
# the tie needs from them is only that the object they return for y / X IS the object they were given,
# not modified - in particular with the columns in the caller's order.

READ_ONLY_METHODS = {"equals", "isna", "isnull", "notna", "any", "all", "to_numpy", "nunique", "copy",
                     "is_monotonic_increasing", "is_unique"}
PURE_CALLS = {"isinstance", "len", "type", "hasattr", "id", "repr", "str", "tuple", "list"}


class _Flow:
    def __init__(self, world):
        self.w = world
        self.seen = {}

    def resolve(self, mn, name):
        """(module, FunctionDef) of a plain-name callee, following imports inside the package"""
        if (mn, name) in self.w.funcs:
            return mn, self.w.funcs[(mn, name)]
        if name in self.w.imports.get(mn, {}):
            src, nm = self.w.imports[mn][name]
            self.w.load_module(src)
            if (src, nm) in self.w.funcs:
                return src, self.w.funcs[(src, nm)]
        return None

    def rooted(self, e, alias):
        """is the expression the tracked object itself (a name, or an element of a tracked container)"""
        if isinstance(e, ast.Name):
            return e.id in alias
        if isinstance(e, ast.Subscript):
            return self.rooted(e.value, alias)
        if isinstance(e, ast.Starred):
            return self.rooted(e.value, alias)
        return False

    def mentions(self, e, alias):
        return any(isinstance(n, ast.Name) and n.id in alias for n in ast.walk(e))

    def unchanged(self, mn, fn, params):
        """the function neither modifies the objects bound to `params` nor rebinds them to anything
        else than the result of a pass-through call; returns the alias set at the end"""
        key = (mn, fn.name, tuple(sorted(params)))
        if key in self.seen:
            if self.seen[key] is None:
                raise Unsupported("recursion in the validation functions: " + fn.name)
            return self.seen[key]
        self.seen[key] = None
        alias = set(params)
        for n in ast.walk(fn):
            if isinstance(n, (ast.Lambda, ast.ListComp, ast.SetComp, ast.DictComp, ast.GeneratorExp)) \
                    and self.mentions(n, alias):
                raise Unsupported("%s: the data are used inside %s" % (fn.name, type(n).__name__))
            if isinstance(n, (ast.Global, ast.Nonlocal, ast.With, ast.Try, ast.While)):
                if self.mentions(n, alias):
                    raise Unsupported("%s: %s around the data" % (fn.name, type(n).__name__))
        changed = True
        while changed:          # aliases: t = p, for t in ps[1:], t = passthrough(p)
            changed = False
            for n in ast.walk(fn):
                tgt = None
                if isinstance(n, ast.Assign) and len(n.targets) == 1 and isinstance(n.targets[0], ast.Name):
                    if self.rooted(n.value, alias) or self.passthrough_call(mn, n.value, alias):
                        tgt = n.targets[0].id
                elif isinstance(n, ast.For) and isinstance(n.target, ast.Name) and self.rooted(n.iter, alias):
                    tgt = n.target.id
                if tgt and tgt not in alias:
                    alias.add(tgt)
                    changed = True
        for n in ast.walk(fn):
            if isinstance(n, (ast.Assign, ast.AugAssign, ast.AnnAssign, ast.Delete)):
                tg = n.targets if isinstance(n, (ast.Assign, ast.Delete)) else [n.target]
                for t in tg:
                    for x in ast.walk(t):
                        if isinstance(x, (ast.Attribute, ast.Subscript)) and self.mentions(x.value, alias):
                            raise Unsupported("%s modifies the data: %s" % (fn.name, _u(n)[:80]))
                        if isinstance(x, ast.Name) and x.id in alias and isinstance(n, (ast.AugAssign, ast.Delete)):
                            raise Unsupported("%s modifies the data: %s" % (fn.name, _u(n)[:80]))
                if isinstance(n, ast.Assign):
                    for t in n.targets:
                        if isinstance(t, ast.Name) and t.id in alias and not (
                                self.rooted(n.value, alias) or self.passthrough_call(mn, n.value, alias)):
                            raise Unsupported("%s rebinds the data to something else: %s" % (fn.name, _u(n)[:80]))
                        if isinstance(t, (ast.Tuple, ast.List)) and self.mentions(t, alias):
                            raise Unsupported("%s rebinds the data in a tuple assignment: %s" % (fn.name, _u(n)[:80]))
            if isinstance(n, ast.Call):
                if any(k.arg in ("inplace", "out", "copy") for k in n.keywords) and self.mentions(n, alias):
                    raise Unsupported("%s: inplace / out / copy argument near the data: %s" % (fn.name, _u(n)[:80]))
                f = n.func
                if isinstance(f, ast.Attribute) and self.rooted(f.value, alias):
                    if f.attr not in READ_ONLY_METHODS:
                        raise Unsupported("%s calls %s on the data" % (fn.name, f.attr))
                    continue
                args = list(n.args) + [k.value for k in n.keywords]
                hit = [a for a in args if self.rooted(a, alias)]
                if not hit:
                    continue
                fu = _u(f)
                if fu in PURE_CALLS or fu.startswith("np.") or fu.startswith("pd.api.types."):
                    continue
                r = self.resolve(mn, fu) if isinstance(f, ast.Name) else None
                if r is None:
                    raise Unsupported("%s hands the data to %s, which cannot be followed" % (fn.name, fu))
                cmn, cfn = r
                self.unchanged(cmn, cfn, self.bound_params(cfn, n, alias))
        self.seen[key] = alias
        return alias

    def bound_params(self, cfn, call, alias):
        """the parameters of the callee that receive the tracked objects"""
        a = cfn.args
        names = [p.arg for p in a.args]
        out = set()
        for i, x in enumerate(call.args):
            if self.rooted(x, alias):
                if isinstance(x, ast.Starred) or i >= len(names):
                    if a.vararg is None and not isinstance(x, ast.Starred):
                        raise Unsupported("too many arguments for " + cfn.name)
                    out.add(a.vararg.arg if a.vararg else names[i])
                else:
                    out.add(names[i])
        for k in call.keywords:
            if self.rooted(k.value, alias):
                if k.arg is None or k.arg not in names:
                    raise Unsupported("keyword argument %s of %s" % (k.arg, cfn.name))
                out.add(k.arg)
        return out

    def passthrough_call(self, mn, e, alias):
        """e is G(p, ...) with p tracked, G followable, and G returns that argument unchanged"""
        if not (isinstance(e, ast.Call) and isinstance(e.func, ast.Name)):
            return False
        r = self.resolve(mn, e.func.id)
        if r is None:
            return False
        cmn, cfn = r
        ps = self.bound_params(cfn, e, alias)
        if len(ps) != 1:
            return False
        try:
            return self.returns(cmn, cfn, [next(iter(ps))]) is not None
        except Unsupported:
            return False

    def returns(self, mn, fn, params):
        """every return of fn yields the objects bound to `params` (a single one, or a tuple of them in
        this order), unchanged; raises Unsupported otherwise"""
        alias_all = self.unchanged(mn, fn, set(params))
        rets = [n for n in ast.walk(fn) if isinstance(n, ast.Return)]
        if not rets:
            raise Unsupported("%s returns nothing" % fn.name)

        def origin(e):
            """which parameter the returned expression is (through aliases / pass-through calls)"""
            for p in params:
                al = self.unchanged(mn, fn, {p})
                if self.rooted(e, al) and isinstance(e, ast.Name):
                    return p
                if isinstance(e, ast.Call) and self.passthrough_call(mn, e, al):
                    return p
            return None
        for r in rets:
            v = r.value
            got = [origin(x) for x in v.elts] if isinstance(v, ast.Tuple) else [origin(v)] if v is not None else [None]
            if got != list(params):
                raise Unsupported("%s does not return its argument(s) %s unchanged: return %s"
                                  % (fn.name, list(params), _u(v) if v is not None else "None"))
        return alias_all


def _tab_cmp_self():
    return mk_cmp("==", ("attr", SELF, "_estimator_scitype"), ("str", "tabular-regressor"))


def _class_facts(world, used):
    """structure the symbolic runs rely on: who derives from _Reducer, and that nobody below the four
    strategy classes (or from outside a class body) rebinds a method the runs went through"""
    mod, mod2 = world.mods["reduce"], world.mods["sktime_base"]
    classes = {n.name: n for n in mod.body if isinstance(n, ast.ClassDef)}
    _need("_Reducer" in classes and [_u(b) for b in classes["_Reducer"].bases] == ["_BaseWindowForecaster"],
          "_Reducer must derive from _BaseWindowForecaster only")
    imp = world.imports["reduce"]
    for x in ("_BaseWindowForecaster",) + FH_MIXINS:
        _need(imp.get(x) == ("sktime_base", x),
              "%s is not imported from sktime.forecasting.base._sktime" % x)
    reducers = {"_Reducer"}
    changed = True
    while changed:
        changed = False
        for cn, c in classes.items():
            if cn not in reducers and any(_u(b) in reducers for b in c.bases):
                reducers.add(cn)
                changed = True
    _need(len(reducers) >= 13, "expected _Reducer, 4 strategy classes and 8 public forecasters, found %d"
          % len(reducers))
    for s in STRATEGY_CLASSES:
        _need(s in reducers, "%s does not derive from _Reducer" % s)
    followed = set().union(*used.values())
    for cn in sorted(reducers):
        c = classes[cn]
        if cn != "_Reducer":
            for b in c.bases:
                _need(_u(b) in reducers or _u(b) in FH_MIXINS,
                      "reducer class %s has the unknown base %s" % (cn, _u(b)))
        _need(not c.keywords and not c.decorator_list, "reducer class %s has a metaclass / decorator" % cn)
        bound = set()
        for n in c.body:
            if isinstance(n, (ast.FunctionDef, ast.AsyncFunctionDef, ast.ClassDef)):
                bound.add(n.name)
            elif isinstance(n, (ast.Assign, ast.AnnAssign, ast.AugAssign)):
                for t in (n.targets if isinstance(n, ast.Assign) else [n.target]):
                    bound |= {a.id for a in ast.walk(t) if isinstance(a, ast.Name)}
        _need(not bound & {"__getattr__", "__getattribute__"}, "reducer class %s intercepts attribute access" % cn)
        if cn not in STRATEGY_CLASSES and cn != "_Reducer":
            # a public forecaster below a strategy class: it must not rebind anything the runs followed
            _need(not bound & followed, "%s overrides %s" % (cn, sorted(bound & followed)))
    # nobody patches a followed method from outside a class body
    for m, fname in ((mod, "_reduce.py"), (mod2, "_sktime.py")):
        for n in ast.walk(m):
            if isinstance(n, (ast.Assign, ast.AugAssign, ast.AnnAssign, ast.Delete)):
                tg = n.targets if isinstance(n, (ast.Assign, ast.Delete)) else [n.target]
                for t in tg:
                    for a in ast.walk(t):
                        _need(not (isinstance(a, ast.Attribute) and a.attr in followed
                                   and _u(a.value) != "self"),
                              "%s: %s is assigned from outside a class body" % (fname, _u(a)))
            _need(not (isinstance(n, ast.Constant) and isinstance(n.value, str) and n.value in followed
                       and n.value.startswith("_")),
                  "%s: the string %r is used (setattr / getattr?)" % (fname, getattr(n, "value", "")))


HEADER = """(* GENERATED by translator/reduce_c05.py from sktime/forecasting/compose/_reduce.py,
   sktime/forecasting/base/_sktime.py and sktime/utils/datetime.py by symbolic execution -- do not
   edit.  Integer expressions of the source as canonical linear forms over the base symbols:
   wl = window_length, fm = last entry of the horizon indexer (swt) / largest step (recursive),
   n = number of time points, k / i = loop variables, h = an entry of the horizon indexer,
   q = len(self.fh), c = cutoff. *)
From Coq Require Import ZArith Bool.
Open Scope Z_scope.

"""


def _world(repo):
    mods = {}
    for key, rel in (("reduce", "sktime/forecasting/compose/_reduce.py"),
                     ("sktime_base", "sktime/forecasting/base/_sktime.py"),
                     ("fbase", "sktime/forecasting/base/_base.py"),
                     ("base", "sktime/base/_base.py"),
                     ("datetime", "sktime/utils/datetime.py")):
        with open(os.path.join(repo, rel)) as f:
            mods[key] = ast.parse(f.read())
    world = World(mods, {"sktime.forecasting.base._sktime": "sktime_base",
                         "sktime.forecasting.base._base": "fbase",
                         "sktime.utils.datetime": "datetime",
                         "sktime.forecasting.compose._reduce": "reduce"}, repo=repo)
    return world


def transform_function_name(repo):
    """name of the sliding-window transform of _reduce.py, found by its role (see _transform_function)"""
    return _transform_function(_world(repo))


def translate(repo):
    world = _world(repo)
    defs = []
    fname = _transform_function(world)
    _swt(world, defs, fname)
    used = _predicts(world, defs, fname)
    _class_facts(world, used)
    order = ["gen_reject", "gen_feat_hi", "gen_tgt_col", "gen_alloc_rows", "gen_alloc_cols", "gen_trunc_lo",
             "gen_trunc_stop", "gen_nk", "gen_i", "gen_j", "gen_lw_lo", "gen_lw_hi", "gen_rec_lo",
             "gen_rec_hi", "gen_rec_buf", "gen_rec_fb", "gen_dr_hi", "gen_dr_buf", "gen_dr_fb",
             "gen_dr_fit_hi"]
    _need(sorted(d[0] for d in defs) == sorted(order), "generated definitions %s" % [d[0] for d in defs])
    defs.sort(key=lambda d: order.index(d[0]))
    out = [HEADER]
    for name, params, ty, body in defs:
        out.append("Definition %s (%s : Z) : %s := %s.\n" % (name, params, ty, body))
    return {"C05/Gen.v": "".join(out)}


if __name__ == "__main__":
    import sys
    print(translate(sys.argv[1] if len(sys.argv) > 1 else "/repo")["C05/Gen.v"])
