"""C05 site-fact extractor: regenerates the integer expressions (loop bounds, slice bounds, the
rejection test, feedback positions) of sktime/forecasting/compose/_reduce.py and of
_BaseWindowForecaster._get_last_window as Gallina functions (build/coq/C05/Gen.v).  The committed
coq/C05/Bridge.v proves each of them equal, for all arguments, to the expression the model uses.

Fail-closed: every statement of `_sliding_window_transform` must match the expected shape (the
function is walked statement by statement; an unknown, missing, extra or reordered statement raises),
and the sites extracted from the strategy classes must exist exactly once.  Only the expressions are
regenerated; the surrounding control flow is the hand model (tied by the correspondence run).

`_get_last_window` is pinned AS USED BY THE REDUCERS: every class of _reduce.py that derives from
`_Reducer` must inherit it from `_BaseWindowForecaster` (statically: known bases only, no override
unless it has the same recognised label-based shape, no assignment to the attribute, one call per
`_predict_last_window` whose result is written into the window slots), and the inherited method must
select `self._y.loc[cutoff - window_length_ + 1 : cutoff]` BY LABEL (gen_lw_lo / gen_lw_hi; `_shift`
on an integer is pinned as `x + by`).  A positional selection (`.iloc[-window_length:]`) is not
recognised and fails closed.
"""
import ast
import os


class Unsupported(Exception):
    pass


def _u(node):
    return ast.unparse(node)


def _expr(e, env):
    """integer expression over the names in env (python name -> coq name)"""
    if isinstance(e, ast.Constant) and isinstance(e.value, int) and not isinstance(e.value, bool):
        return "(%d)" % e.value
    if isinstance(e, ast.Name):
        if e.id in env:
            return env[e.id]
        raise Unsupported("unbound name %s" % e.id)
    if isinstance(e, ast.Attribute):
        u = _u(e)
        if u in env:
            return env[u]
        raise Unsupported("unbound attribute %s" % u)
    if isinstance(e, ast.UnaryOp) and isinstance(e.op, ast.USub):
        return "(- %s)" % _expr(e.operand, env)
    if isinstance(e, ast.BinOp) and type(e.op) in (ast.Add, ast.Sub, ast.Mult):
        op = {ast.Add: "+", ast.Sub: "-", ast.Mult: "*"}[type(e.op)]
        return "(%s %s %s)" % (_expr(e.left, env), op, _expr(e.right, env))
    raise Unsupported("expression %s" % _u(e))


def _cmp(e, env):
    if isinstance(e, ast.Compare) and len(e.ops) == 1:
        op = {ast.Gt: ">?", ast.GtE: ">=?", ast.Lt: "<?", ast.LtE: "<=?", ast.Eq: "=?"}.get(type(e.ops[0]))
        if op:
            return "(%s %s %s)" % (_expr(e.left, env), op, _expr(e.comparators[0], env))
    raise Unsupported("comparison %s" % _u(e))


def _need(cond, what, node=None):
    if not cond:
        raise Unsupported("%s%s" % (what, (": " + _u(node)) if node is not None else ""))


def _find(mod, path):
    node = mod
    for p in path.split("."):
        for n in node.body:
            if isinstance(n, (ast.FunctionDef, ast.ClassDef)) and n.name == p:
                node = n
                break
        else:
            raise Unsupported("missing " + path)
    return node


def _body(fn):
    b = list(fn.body)
    if b and isinstance(b[0], ast.Expr) and isinstance(getattr(b[0], "value", None), ast.Constant) \
            and isinstance(b[0].value.value, str):
        b = b[1:]
    return b


def _assign(st, target):
    _need(isinstance(st, ast.Assign) and len(st.targets) == 1 and _u(st.targets[0]) == target,
          "expected assignment to " + target, st)
    return st.value


def _is_full(s):
    return isinstance(s, ast.Slice) and s.lower is None and s.upper is None and s.step is None


def _subscript3(e, base):
    _need(isinstance(e, ast.Subscript) and _u(e.value) == base and isinstance(e.slice, ast.Tuple)
          and len(e.slice.elts) == 3, "expected %s[a, b, c]" % base, e)
    return e.slice.elts


ENV = {"window_length": "wl", "fh_max": "fm", "n_timepoints": "n", "effective_window_length": "e",
       "k": "k", "fh": "h", "i": "i", "self.window_length_": "wl"}


def _swt(mod, defs):
    fn = _find(mod, "_sliding_window_transform")
    args = [a.arg for a in fn.args.args]
    _need(args == ["y", "window_length", "fh", "X", "scitype"], "signature of _sliding_window_transform")
    b = _body(fn)
    _need(len(b) == 13, "_sliding_window_transform has %d statements, expected 13" % len(b))
    _need(_u(_assign(b[0], "window_length")) == "check_window_length(window_length)", "stmt 1", b[0])
    _need(_u(_assign(b[1], "z")) == "_concat_y_X(y, X)", "stmt 2", b[1])
    _need(_u(_assign(b[2], "(n_timepoints, n_variables)")) == "z.shape", "stmt 3", b[2])
    _need(_u(_assign(b[3], "fh")) == "_check_fh(fh)", "stmt 4", b[3])
    _need(_u(_assign(b[4], "fh_max")) == "fh[-1]", "stmt 5", b[4])
    st = b[5]
    _need(isinstance(st, ast.If) and not st.orelse and len(st.body) == 1
          and isinstance(st.body[0], ast.Raise) and _u(st.body[0].exc).startswith("ValueError("),
          "stmt 6: rejection", st)
    defs.append(("gen_reject", "wl fm n", "bool", _cmp(st.test, ENV)))
    defs.append(("gen_ewl", "wl fm", "Z", _expr(_assign(b[6], "effective_window_length"), ENV)))
    z = _assign(b[7], "Zt")
    _need(isinstance(z, ast.Call) and _u(z.func) == "np.zeros" and len(z.args) == 1 and not z.keywords
          and isinstance(z.args[0], ast.Tuple) and len(z.args[0].elts) == 3
          and _u(z.args[0].elts[1]) == "n_variables", "stmt 8: np.zeros((rows, n_variables, cols))", b[7])
    defs.append(("gen_alloc_rows", "n e", "Z", _expr(z.args[0].elts[0], ENV)))
    defs.append(("gen_alloc_cols", "e", "Z", _expr(z.args[0].elts[2], ENV)))
    lp = b[8]
    _need(isinstance(lp, ast.For) and _u(lp.target) == "k" and not lp.orelse
          and isinstance(lp.iter, ast.Call) and _u(lp.iter.func) == "range" and len(lp.iter.args) == 1
          and len(lp.body) == 3, "stmt 9: for k in range(...) with 3 statements", lp)
    defs.append(("gen_nk", "e", "Z", _expr(lp.iter.args[0], ENV)))
    defs.append(("gen_i", "e k", "Z", _expr(_assign(lp.body[0], "i"), ENV)))
    defs.append(("gen_j", "n e k", "Z", _expr(_assign(lp.body[1], "j"), ENV)))
    _need(isinstance(lp.body[2], ast.Assign) and len(lp.body[2].targets) == 1
          and _u(lp.body[2].value) == "z", "fill statement assigns z", lp.body[2])
    s0, s1, s2 = _subscript3(lp.body[2].targets[0], "Zt")
    _need(isinstance(s0, ast.Slice) and s0.step is None and _u(s0.lower) == "i" and _u(s0.upper) == "j"
          and _is_full(s1) and _u(s2) == "k", "fill statement is Zt[i:j, :, k] = z", lp.body[2])
    t = _assign(b[9], "Zt")
    _need(isinstance(t, ast.Subscript) and _u(t.value) == "Zt" and isinstance(t.slice, ast.Slice)
          and t.slice.step is None and t.slice.lower is not None
          and isinstance(t.slice.upper, ast.UnaryOp) and isinstance(t.slice.upper.op, ast.USub),
          "stmt 10: Zt = Zt[lo:-hi]", b[9])
    defs.append(("gen_trunc_lo", "e", "Z", _expr(t.slice.lower, ENV)))
    defs.append(("gen_trunc_hi", "e", "Z", _expr(t.slice.upper.operand, ENV)))
    s0, s1, s2 = _subscript3(_assign(b[10], "yt"), "Zt")
    _need(_is_full(s0) and _u(s1) == "0", "stmt 11: yt = Zt[:, 0, cols]", b[10])
    defs.append(("gen_tgt_col", "wl h", "Z", _expr(s2, ENV)))          # broadcast over the indexer
    s0, s1, s2 = _subscript3(_assign(b[11], "Xt"), "Zt")
    _need(_is_full(s0) and _is_full(s1) and isinstance(s2, ast.Slice) and s2.lower is None
          and s2.step is None and s2.upper is not None, "stmt 12: Xt = Zt[:, :, :hi]", b[11])
    defs.append(("gen_feat_hi", "wl", "Z", _expr(s2.upper, ENV)))
    r = b[12]
    _need(isinstance(r, ast.If) and _u(r.test) == "scitype == 'tabular-regressor'"
          and len(r.body) == 1 and len(r.orelse) == 1
          and _u(r.body[0]) == "return (yt, Xt.reshape(Xt.shape[0], -1))"
          and _u(r.orelse[0]) == "return (yt, Xt)", "stmt 13: tabular reshape / panel return", r)
    # the helpers the transform relies on
    cf = _body(_find(mod, "_check_fh"))
    _need(len(cf) == 3 and _u(cf[0]) == "assert fh.is_relative"
          and _u(cf[1]) == "assert fh.is_all_out_of_sample()"
          and _u(cf[2]) == "return fh.to_indexer().to_numpy()", "_check_fh body")
    cc = _body(_find(mod, "_concat_y_X"))
    _need(len(cc) == 4 and _u(cc[0]) == "z = y.to_numpy()"
          and _u(cc[2]).replace("\n", " ") ==
          "if X is not None:     z = np.column_stack([z, X.to_numpy()])"
          and _u(cc[3]) == "return z", "_concat_y_X body (y first, then the columns of X)")


def _unique_stmt(fn, pred, what):
    hits = [n for n in ast.walk(fn) if isinstance(n, ast.stmt) and pred(n)]
    _need(len(hits) == 1, "%s: expected exactly one site, found %d" % (what, len(hits)))
    return hits[0]


def _strategies(mod, defs):
    # recursive: X_pred = last[:, :, i:window_length + i]; last[:, 0, window_length + i] = y_pred[i]
    fn = _find(mod, "_RecursiveReducer._predict_last_window")
    st = _unique_stmt(fn, lambda n: isinstance(n, ast.Assign) and _u(n.targets[0]) == "X_pred"
                      and _u(n.value).startswith("last["), "recursive window slice")
    s0, s1, s2 = _subscript3(st.value, "last")
    _need(_is_full(s0) and _is_full(s1) and isinstance(s2, ast.Slice) and s2.step is None
          and s2.lower is not None and s2.upper is not None, "X_pred = last[:, :, lo:hi]", st)
    defs.append(("gen_rec_lo", "wl i", "Z", _expr(s2.lower, ENV)))
    defs.append(("gen_rec_hi", "wl i", "Z", _expr(s2.upper, ENV)))
    st = _unique_stmt(fn, lambda n: isinstance(n, ast.Assign) and _u(n.targets[0]).startswith("last[")
                      and _u(n.value) == "y_pred[i]", "recursive feedback")
    s0, s1, s2 = _subscript3(st.targets[0], "last")
    _need(_is_full(s0) and _u(s1) == "0", "last[:, 0, pos] = y_pred[i]", st)
    defs.append(("gen_rec_fb", "wl i", "Z", _expr(s2, ENV)))
    _unique_stmt(fn, lambda n: isinstance(n, ast.For) and _u(n.target) == "i"
                 and _u(n.iter) == "range(fh_max)", "recursive loop over range(fh_max)")
    _unique_stmt(fn, lambda n: isinstance(n, ast.Assign) and _u(n) == "window_length = self.window_length_",
                 "recursive window_length")
    _unique_stmt(fn, lambda n: isinstance(n, ast.Return) and _u(n) == "return y_pred[fh_idx]",
                 "recursive selection y_pred[fh_idx]")
    _unique_stmt(fn, lambda n: isinstance(n, ast.Assign) and _u(n) == "fh_idx = fh.to_indexer(self.cutoff)",
                 "recursive fh_idx")
    # dirrec: X_pred = X_full[:, :, :window_length + i]; X_full[:, :, window_length + i] = y_pred[i]
    fn = _find(mod, "_DirRecReducer._predict_last_window")
    st = _unique_stmt(fn, lambda n: isinstance(n, ast.Assign) and _u(n.targets[0]) == "X_pred"
                      and _u(n.value).startswith("X_full["), "dirrec window slice")
    s0, s1, s2 = _subscript3(st.value, "X_full")
    _need(_is_full(s0) and _is_full(s1) and isinstance(s2, ast.Slice) and s2.step is None
          and s2.lower is None and s2.upper is not None, "X_pred = X_full[:, :, :hi]", st)
    defs.append(("gen_dr_hi", "wl i", "Z", _expr(s2.upper, ENV)))
    st = _unique_stmt(fn, lambda n: isinstance(n, ast.Assign) and _u(n.targets[0]).startswith("X_full[")
                      and _u(n.value) == "y_pred[i]", "dirrec feedback")
    s0, s1, s2 = _subscript3(st.targets[0], "X_full")
    _need(_is_full(s0) and _is_full(s1), "X_full[:, :, pos] = y_pred[i]", st)
    defs.append(("gen_dr_fb", "wl i", "Z", _expr(s2, ENV)))
    _unique_stmt(fn, lambda n: isinstance(n, ast.Assign) and _u(n) == "window_length = self.window_length_",
                 "dirrec window_length")
    # dirrec fit: X_fit = X_full[:, :, :n_timepoints + i] with n_timepoints = Xt.shape[2]
    fn = _find(mod, "_DirRecReducer._fit")
    st = _unique_stmt(fn, lambda n: isinstance(n, ast.Assign) and _u(n.targets[0]) == "X_fit"
                      and _u(n.value).startswith("X_full["), "dirrec fit slice")
    s0, s1, s2 = _subscript3(st.value, "X_full")
    _need(_is_full(s0) and _is_full(s1) and isinstance(s2, ast.Slice) and s2.step is None
          and s2.lower is None and s2.upper is not None, "X_fit = X_full[:, :, :hi]", st)
    defs.append(("gen_dr_fit_hi", "wl i", "Z", _expr(s2.upper, dict(ENV, n_timepoints="wl"))))
    _unique_stmt(fn, lambda n: isinstance(n, ast.Assign) and _u(n) == "n_timepoints = Xt.shape[2]",
                 "dirrec n_timepoints = Xt.shape[2]")
    _unique_stmt(fn, lambda n: isinstance(n, ast.Assign)
                 and _u(n) == "X_full = np.concatenate([Xt, np.expand_dims(yt, axis=1)], axis=2)",
                 "dirrec X_full concatenation")


def _loc_bounds(e, base, what):
    """`<base>.loc[lo:hi].to_numpy()` -> (lo, hi) ast nodes; anything else (e.g. .iloc, a
    positional tail) is not recognised"""
    _need(isinstance(e, ast.Call) and not e.args and not e.keywords
          and isinstance(e.func, ast.Attribute) and e.func.attr == "to_numpy", what, e)
    sub = e.func.value
    _need(isinstance(sub, ast.Subscript) and isinstance(sub.value, ast.Attribute)
          and sub.value.attr == "loc" and _u(sub.value.value) == base
          and isinstance(sub.slice, ast.Slice) and sub.slice.step is None
          and sub.slice.lower is not None and sub.slice.upper is not None,
          what + ": expected a label-based slice %s.loc[lo:hi]" % base, e)
    return sub.slice.lower, sub.slice.upper


def _lw_shape(fn, owner):
    """the label-based last window: returns (shift, lo, hi) as Gallina expressions in wl and c"""
    b = _body(fn)
    args = [a.arg for a in fn.args.args]
    _need(args == ["self"] and not fn.decorator_list, "%s._get_last_window signature" % owner)
    _need(len(b) == 5, "%s._get_last_window has %d statements, expected 5" % (owner, len(b)))
    _need(_u(b[0]) == "cutoff = self.cutoff", "stmt 1", b[0])
    v = _assign(b[1], "start")
    _need(isinstance(v, ast.Call) and _u(v.func) == "_shift" and len(v.args) == 1
          and _u(v.args[0]) == "cutoff" and len(v.keywords) == 1 and v.keywords[0].arg == "by",
          "start = _shift(cutoff, by=...)", b[1])
    shift = _expr(v.keywords[0].value, ENV)
    env = {"cutoff": "c", "start": "(c + %s)" % shift}      # _shift(x, by) = x + by on integers
    lo, hi = _loc_bounds(_assign(b[2], "y"), "self._y", "stmt 3 (window of y)")
    glo, ghi = _expr(lo, env), _expr(hi, env)
    x = _assign(b[3], "X")
    _need(isinstance(x, ast.IfExp) and _u(x.test) == "self._X is not None" and _u(x.orelse) == "None",
          "stmt 4 (window of X)", b[3])
    xlo, xhi = _loc_bounds(x.body, "self._X", "stmt 4 (window of X)")
    _need(_expr(xlo, env) == glo and _expr(xhi, env) == ghi,
          "stmt 4: X is sliced with other bounds than y", b[3])
    _need(_u(b[4]) == "return (y, X)", "stmt 5", b[4])
    return shift, glo, ghi


REDUCER_PREDICTS = {
    "_DirectReducer": ["X_pred[:, 0, :] = y_last", "X_pred[:, 1:, :] = X_last.T"],
    "_MultioutputReducer": ["X_pred[:, 0, :] = y_last", "X_pred[:, 1:, :] = X_last.T"],
    "_RecursiveReducer": ["last[:, 0, :window_length] = y_last", "last[:, 1:, :window_length] = X_last.T",
                          "last[:, 1:, window_length:] = X.T"],
    "_DirRecReducer": ["X_full[:, 0, :window_length] = y_last"],
}
FH_MIXINS = ("_OptionalForecastingHorizonMixin", "_RequiredForecastingHorizonMixin")


def _defines(cls, name):
    """nodes in the class body that bind `name`"""
    hits = []
    for n in cls.body:
        if isinstance(n, (ast.FunctionDef, ast.AsyncFunctionDef, ast.ClassDef)) and n.name == name:
            hits.append(n)
        elif isinstance(n, (ast.Assign, ast.AnnAssign, ast.AugAssign)):
            tg = n.targets if isinstance(n, ast.Assign) else [n.target]
            if any(isinstance(t, ast.Name) and t.id == name for t in ast.walk(ast.Tuple(elts=tg))):
                hits.append(n)
    return hits


def _last_window(mod, mod2, mod3, defs):
    """`_get_last_window` AS USED BY THE REDUCERS: every class derived from _Reducer must resolve it
    to _BaseWindowForecaster._get_last_window (or to an override of the same recognised label-based
    shape), which selects self._y.loc[cutoff - window_length_ + 1 : cutoff]"""
    name = "_get_last_window"
    base_fn = _find(mod2, "_BaseWindowForecaster." + name)
    base_cls = _find(mod2, "_BaseWindowForecaster")
    _need(len(_defines(base_cls, name)) == 1, "_BaseWindowForecaster binds %s more than once" % name)
    shift, lo, hi = _lw_shape(base_fn, "_BaseWindowForecaster")
    for mx in FH_MIXINS:
        _need(not _defines(_find(mod2, mx), name), "%s defines %s" % (mx, name))
    # nobody patches the method from outside a class body
    for m, fname in ((mod, "_reduce.py"), (mod2, "_sktime.py")):
        for n in ast.walk(m):
            if isinstance(n, (ast.Assign, ast.AugAssign, ast.AnnAssign, ast.Delete)):
                tg = n.targets if isinstance(n, (ast.Assign, ast.Delete)) else [n.target]
                for t in tg:
                    for a in ast.walk(t):
                        _need(not (isinstance(a, ast.Attribute) and a.attr == name),
                              "%s: %s is assigned from outside a class body" % (fname, name), n)
            _need(not (isinstance(n, ast.Constant) and n.value == name),
                  "%s: the string %r is used (setattr / getattr?)" % (fname, name))
    # the classes of _reduce.py that derive from _Reducer
    classes = {n.name: n for n in mod.body if isinstance(n, ast.ClassDef)}
    _need("_Reducer" in classes and [_u(b) for b in classes["_Reducer"].bases] == ["_BaseWindowForecaster"],
          "_Reducer must derive from _BaseWindowForecaster only")
    imported = [a.name for n in mod.body if isinstance(n, ast.ImportFrom)
                and n.module == "sktime.forecasting.base._sktime" for a in n.names]
    _need(all(x in imported for x in ("_BaseWindowForecaster",) + FH_MIXINS),
          "_BaseWindowForecaster / the fh mixins are not imported from sktime.forecasting.base._sktime")
    reducers = {"_Reducer"}
    changed = True
    while changed:
        changed = False
        for cn, c in classes.items():
            if cn not in reducers and any(_u(b) in reducers for b in c.bases):
                reducers.add(cn)
                changed = True
    _need(len(reducers) >= 13, "expected _Reducer, 4 strategy classes and 8 public forecasters, found %d"
          % len(reducers))
    for cn in sorted(reducers):
        c = classes[cn]
        if cn != "_Reducer":
            for b in c.bases:
                _need(_u(b) in reducers or _u(b) in FH_MIXINS,
                      "reducer class %s has the unknown base %s" % (cn, _u(b)))
        _need(not c.keywords and not c.decorator_list, "reducer class %s has a metaclass / decorator" % cn)
        for d in _defines(c, name):
            # an override is accepted only if it is the same recognised label-based selection
            _need(isinstance(d, ast.FunctionDef), "%s.%s is overridden by a non-function" % (cn, name), d)
            got = _lw_shape(d, cn)
            _need(got == (shift, lo, hi), "%s.%s selects another window than the base class" % (cn, name))
        _need(not _defines(c, "__getattr__") and not _defines(c, "__getattribute__"),
              "reducer class %s intercepts attribute access" % cn)
    # how the reducers use it: one call per _predict_last_window, its result is the window
    uses = [n for n in ast.walk(mod) if isinstance(n, ast.Attribute) and n.attr == name]
    _need(len(uses) == len(REDUCER_PREDICTS), "expected %d uses of %s in _reduce.py, found %d"
          % (len(REDUCER_PREDICTS), name, len(uses)))
    for cn, fills in REDUCER_PREDICTS.items():
        fn = _find(mod, cn + "._predict_last_window")
        _unique_stmt(fn, lambda n: isinstance(n, ast.Assign)
                     and _u(n).replace("(", "").replace(")", "")
                     == "y_last, X_last = self._get_last_window",
                     "%s: y_last, X_last = self._get_last_window()" % cn)
        for fill in fills:
            _unique_stmt(fn, lambda n, fill=fill: isinstance(n, ast.Assign) and _u(n) == fill,
                         "%s: %s" % (cn, fill))
        for v in ("y_last", "X_last"):
            st = [n for n in ast.walk(fn) if isinstance(n, ast.Name) and n.id == v
                  and isinstance(n.ctx, ast.Store)]
            _need(len(st) == 1, "%s: %s is bound %d times" % (cn, v, len(st)))
    # _shift on an integer time point is x + by
    sh = _body(_find(mod3, "_shift"))
    _need([a.arg for a in _find(mod3, "_shift").args.args] == ["x", "by"], "_shift signature")
    _need(len(sh) == 4 and all(isinstance(x, ast.Assert) for x in sh[:2])
          and isinstance(sh[2], ast.If) and _u(sh[2].test) == "isinstance(x, pd.Timestamp)"
          and not sh[2].orelse and _u(sh[3]) == "return x + by", "_shift body (x + by on integers)")
    _need(any(isinstance(n, ast.ImportFrom) and n.module == "sktime.utils.datetime"
              and any(a.name == "_shift" and a.asname is None for a in n.names) for n in mod2.body),
          "_sktime.py does not import _shift from sktime.utils.datetime")
    defs.append(("gen_lw_shift", "wl", "Z", shift))
    defs.append(("gen_lw_lo", "wl c", "Z", lo))
    defs.append(("gen_lw_hi", "wl c", "Z", hi))


HEADER = """(* GENERATED by translator/reduce_c05.py from sktime/forecasting/compose/_reduce.py and
   sktime/forecasting/base/_sktime.py -- do not edit.  Integer expressions of the source. *)
From Coq Require Import ZArith Bool.
Open Scope Z_scope.

"""


def translate(repo):
    defs = []
    with open(os.path.join(repo, "sktime/forecasting/compose/_reduce.py")) as f:
        mod = ast.parse(f.read())
    _swt(mod, defs)
    _strategies(mod, defs)
    with open(os.path.join(repo, "sktime/forecasting/base/_sktime.py")) as f:
        mod2 = ast.parse(f.read())
    with open(os.path.join(repo, "sktime/utils/datetime.py")) as f:
        mod3 = ast.parse(f.read())
    _last_window(mod, mod2, mod3, defs)
    out = [HEADER]
    for name, params, ty, body in defs:
        out.append("Definition %s (%s : Z) : %s := %s.\n" % (name, params, ty, body))
    return {"C05/Gen.v": "".join(out)}


if __name__ == "__main__":
    import sys
    print(translate(sys.argv[1] if len(sys.argv) > 1 else "/repo")["C05/Gen.v"])
