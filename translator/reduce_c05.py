"""C05 site-fact extractor: regenerates the integer expressions (loop bounds, slice bounds, the
rejection test, feedback positions) of sktime/forecasting/compose/_reduce.py and of
_BaseWindowForecaster._get_last_window as Gallina functions (build/coq/C05/Gen.v).  The committed
coq/C05/Bridge.v proves each of them equal, for all arguments, to the expression the model uses.

Fail-closed: every statement of `_sliding_window_transform` must match the expected shape (the
function is walked statement by statement; an unknown, missing, extra or reordered statement raises),
and the sites extracted from the strategy classes must exist exactly once.  Only the expressions are
regenerated; the surrounding control flow is the hand model (tied by the correspondence run).
"""
import ast
import os


class Unsupported(Exception):
    pass


def _u(node):
    return ast.unparse(node)


def _expr(e, env):
    """integer expression over the names in env (python name -> coq name)"""
    if isinstance(e, ast.Constant) and isinstance(e.value, int) and not isinstance(e.value, bool):
        return "(%d)" % e.value
    if isinstance(e, ast.Name):
        if e.id in env:
            return env[e.id]
        raise Unsupported("unbound name %s" % e.id)
    if isinstance(e, ast.Attribute):
        u = _u(e)
        if u in env:
            return env[u]
        raise Unsupported("unbound attribute %s" % u)
    if isinstance(e, ast.UnaryOp) and isinstance(e.op, ast.USub):
        return "(- %s)" % _expr(e.operand, env)
    if isinstance(e, ast.BinOp) and type(e.op) in (ast.Add, ast.Sub, ast.Mult):
        op = {ast.Add: "+", ast.Sub: "-", ast.Mult: "*"}[type(e.op)]
        return "(%s %s %s)" % (_expr(e.left, env), op, _expr(e.right, env))
    raise Unsupported("expression %s" % _u(e))


def _cmp(e, env):
    if isinstance(e, ast.Compare) and len(e.ops) == 1:
        op = {ast.Gt: ">?", ast.GtE: ">=?", ast.Lt: "<?", ast.LtE: "<=?", ast.Eq: "=?"}.get(type(e.ops[0]))
        if op:
            return "(%s %s %s)" % (_expr(e.left, env), op, _expr(e.comparators[0], env))
    raise Unsupported("comparison %s" % _u(e))


def _need(cond, what, node=None):
    if not cond:
        raise Unsupported("%s%s" % (what, (": " + _u(node)) if node is not None else ""))


def _find(mod, path):
    node = mod
    for p in path.split("."):
        for n in node.body:
            if isinstance(n, (ast.FunctionDef, ast.ClassDef)) and n.name == p:
                node = n
                break
        else:
            raise Unsupported("missing " + path)
    return node


def _body(fn):
    b = list(fn.body)
    if b and isinstance(b[0], ast.Expr) and isinstance(getattr(b[0], "value", None), ast.Constant) \
            and isinstance(b[0].value.value, str):
        b = b[1:]
    return b


def _assign(st, target):
    _need(isinstance(st, ast.Assign) and len(st.targets) == 1 and _u(st.targets[0]) == target,
          "expected assignment to " + target, st)
    return st.value


def _is_full(s):
    return isinstance(s, ast.Slice) and s.lower is None and s.upper is None and s.step is None


def _subscript3(e, base):
    _need(isinstance(e, ast.Subscript) and _u(e.value) == base and isinstance(e.slice, ast.Tuple)
          and len(e.slice.elts) == 3, "expected %s[a, b, c]" % base, e)
    return e.slice.elts


ENV = {"window_length": "wl", "fh_max": "fm", "n_timepoints": "n", "effective_window_length": "e",
       "k": "k", "fh": "h", "i": "i", "self.window_length_": "wl"}


def _swt(mod, defs):
    fn = _find(mod, "_sliding_window_transform")
    args = [a.arg for a in fn.args.args]
    _need(args == ["y", "window_length", "fh", "X", "scitype"], "signature of _sliding_window_transform")
    b = _body(fn)
    _need(len(b) == 13, "_sliding_window_transform has %d statements, expected 13" % len(b))
    _need(_u(_assign(b[0], "window_length")) == "check_window_length(window_length)", "stmt 1", b[0])
    _need(_u(_assign(b[1], "z")) == "_concat_y_X(y, X)", "stmt 2", b[1])
    _need(_u(_assign(b[2], "(n_timepoints, n_variables)")) == "z.shape", "stmt 3", b[2])
    _need(_u(_assign(b[3], "fh")) == "_check_fh(fh)", "stmt 4", b[3])
    _need(_u(_assign(b[4], "fh_max")) == "fh[-1]", "stmt 5", b[4])
    st = b[5]
    _need(isinstance(st, ast.If) and not st.orelse and len(st.body) == 1
          and isinstance(st.body[0], ast.Raise) and _u(st.body[0].exc).startswith("ValueError("),
          "stmt 6: rejection", st)
    defs.append(("gen_reject", "wl fm n", "bool", _cmp(st.test, ENV)))
    defs.append(("gen_ewl", "wl fm", "Z", _expr(_assign(b[6], "effective_window_length"), ENV)))
    z = _assign(b[7], "Zt")
    _need(isinstance(z, ast.Call) and _u(z.func) == "np.zeros" and len(z.args) == 1 and not z.keywords
          and isinstance(z.args[0], ast.Tuple) and len(z.args[0].elts) == 3
          and _u(z.args[0].elts[1]) == "n_variables", "stmt 8: np.zeros((rows, n_variables, cols))", b[7])
    defs.append(("gen_alloc_rows", "n e", "Z", _expr(z.args[0].elts[0], ENV)))
    defs.append(("gen_alloc_cols", "e", "Z", _expr(z.args[0].elts[2], ENV)))
    lp = b[8]
    _need(isinstance(lp, ast.For) and _u(lp.target) == "k" and not lp.orelse
          and isinstance(lp.iter, ast.Call) and _u(lp.iter.func) == "range" and len(lp.iter.args) == 1
          and len(lp.body) == 3, "stmt 9: for k in range(...) with 3 statements", lp)
    defs.append(("gen_nk", "e", "Z", _expr(lp.iter.args[0], ENV)))
    defs.append(("gen_i", "e k", "Z", _expr(_assign(lp.body[0], "i"), ENV)))
    defs.append(("gen_j", "n e k", "Z", _expr(_assign(lp.body[1], "j"), ENV)))
    _need(isinstance(lp.body[2], ast.Assign) and len(lp.body[2].targets) == 1
          and _u(lp.body[2].value) == "z", "fill statement assigns z", lp.body[2])
    s0, s1, s2 = _subscript3(lp.body[2].targets[0], "Zt")
    _need(isinstance(s0, ast.Slice) and s0.step is None and _u(s0.lower) == "i" and _u(s0.upper) == "j"
          and _is_full(s1) and _u(s2) == "k", "fill statement is Zt[i:j, :, k] = z", lp.body[2])
    t = _assign(b[9], "Zt")
    _need(isinstance(t, ast.Subscript) and _u(t.value) == "Zt" and isinstance(t.slice, ast.Slice)
          and t.slice.step is None and t.slice.lower is not None
          and isinstance(t.slice.upper, ast.UnaryOp) and isinstance(t.slice.upper.op, ast.USub),
          "stmt 10: Zt = Zt[lo:-hi]", b[9])
    defs.append(("gen_trunc_lo", "e", "Z", _expr(t.slice.lower, ENV)))
    defs.append(("gen_trunc_hi", "e", "Z", _expr(t.slice.upper.operand, ENV)))
    s0, s1, s2 = _subscript3(_assign(b[10], "yt"), "Zt")
    _need(_is_full(s0) and _u(s1) == "0", "stmt 11: yt = Zt[:, 0, cols]", b[10])
    defs.append(("gen_tgt_col", "wl h", "Z", _expr(s2, ENV)))          # broadcast over the indexer
    s0, s1, s2 = _subscript3(_assign(b[11], "Xt"), "Zt")
    _need(_is_full(s0) and _is_full(s1) and isinstance(s2, ast.Slice) and s2.lower is None
          and s2.step is None and s2.upper is not None, "stmt 12: Xt = Zt[:, :, :hi]", b[11])
    defs.append(("gen_feat_hi", "wl", "Z", _expr(s2.upper, ENV)))
    r = b[12]
    _need(isinstance(r, ast.If) and _u(r.test) == "scitype == 'tabular-regressor'"
          and len(r.body) == 1 and len(r.orelse) == 1
          and _u(r.body[0]) == "return (yt, Xt.reshape(Xt.shape[0], -1))"
          and _u(r.orelse[0]) == "return (yt, Xt)", "stmt 13: tabular reshape / panel return", r)
    # the helpers the transform relies on
    cf = _body(_find(mod, "_check_fh"))
    _need(len(cf) == 3 and _u(cf[0]) == "assert fh.is_relative"
          and _u(cf[1]) == "assert fh.is_all_out_of_sample()"
          and _u(cf[2]) == "return fh.to_indexer().to_numpy()", "_check_fh body")
    cc = _body(_find(mod, "_concat_y_X"))
    _need(len(cc) == 4 and _u(cc[0]) == "z = y.to_numpy()"
          and _u(cc[2]).replace("\n", " ") ==
          "if X is not None:     z = np.column_stack([z, X.to_numpy()])"
          and _u(cc[3]) == "return z", "_concat_y_X body (y first, then the columns of X)")


def _unique_stmt(fn, pred, what):
    hits = [n for n in ast.walk(fn) if isinstance(n, ast.stmt) and pred(n)]
    _need(len(hits) == 1, "%s: expected exactly one site, found %d" % (what, len(hits)))
    return hits[0]


def _strategies(mod, defs):
    # recursive: X_pred = last[:, :, i:window_length + i]; last[:, 0, window_length + i] = y_pred[i]
    fn = _find(mod, "_RecursiveReducer._predict_last_window")
    st = _unique_stmt(fn, lambda n: isinstance(n, ast.Assign) and _u(n.targets[0]) == "X_pred"
                      and _u(n.value).startswith("last["), "recursive window slice")
    s0, s1, s2 = _subscript3(st.value, "last")
    _need(_is_full(s0) and _is_full(s1) and isinstance(s2, ast.Slice) and s2.step is None
          and s2.lower is not None and s2.upper is not None, "X_pred = last[:, :, lo:hi]", st)
    defs.append(("gen_rec_lo", "wl i", "Z", _expr(s2.lower, ENV)))
    defs.append(("gen_rec_hi", "wl i", "Z", _expr(s2.upper, ENV)))
    st = _unique_stmt(fn, lambda n: isinstance(n, ast.Assign) and _u(n.targets[0]).startswith("last[")
                      and _u(n.value) == "y_pred[i]", "recursive feedback")
    s0, s1, s2 = _subscript3(st.targets[0], "last")
    _need(_is_full(s0) and _u(s1) == "0", "last[:, 0, pos] = y_pred[i]", st)
    defs.append(("gen_rec_fb", "wl i", "Z", _expr(s2, ENV)))
    _unique_stmt(fn, lambda n: isinstance(n, ast.For) and _u(n.target) == "i"
                 and _u(n.iter) == "range(fh_max)", "recursive loop over range(fh_max)")
    _unique_stmt(fn, lambda n: isinstance(n, ast.Assign) and _u(n) == "window_length = self.window_length_",
                 "recursive window_length")
    _unique_stmt(fn, lambda n: isinstance(n, ast.Return) and _u(n) == "return y_pred[fh_idx]",
                 "recursive selection y_pred[fh_idx]")
    _unique_stmt(fn, lambda n: isinstance(n, ast.Assign) and _u(n) == "fh_idx = fh.to_indexer(self.cutoff)",
                 "recursive fh_idx")
    # dirrec: X_pred = X_full[:, :, :window_length + i]; X_full[:, :, window_length + i] = y_pred[i]
    fn = _find(mod, "_DirRecReducer._predict_last_window")
    st = _unique_stmt(fn, lambda n: isinstance(n, ast.Assign) and _u(n.targets[0]) == "X_pred"
                      and _u(n.value).startswith("X_full["), "dirrec window slice")
    s0, s1, s2 = _subscript3(st.value, "X_full")
    _need(_is_full(s0) and _is_full(s1) and isinstance(s2, ast.Slice) and s2.step is None
          and s2.lower is None and s2.upper is not None, "X_pred = X_full[:, :, :hi]", st)
    defs.append(("gen_dr_hi", "wl i", "Z", _expr(s2.upper, ENV)))
    st = _unique_stmt(fn, lambda n: isinstance(n, ast.Assign) and _u(n.targets[0]).startswith("X_full[")
                      and _u(n.value) == "y_pred[i]", "dirrec feedback")
    s0, s1, s2 = _subscript3(st.targets[0], "X_full")
    _need(_is_full(s0) and _is_full(s1), "X_full[:, :, pos] = y_pred[i]", st)
    defs.append(("gen_dr_fb", "wl i", "Z", _expr(s2, ENV)))
    _unique_stmt(fn, lambda n: isinstance(n, ast.Assign) and _u(n) == "window_length = self.window_length_",
                 "dirrec window_length")
    # dirrec fit: X_fit = X_full[:, :, :n_timepoints + i] with n_timepoints = Xt.shape[2]
    fn = _find(mod, "_DirRecReducer._fit")
    st = _unique_stmt(fn, lambda n: isinstance(n, ast.Assign) and _u(n.targets[0]) == "X_fit"
                      and _u(n.value).startswith("X_full["), "dirrec fit slice")
    s0, s1, s2 = _subscript3(st.value, "X_full")
    _need(_is_full(s0) and _is_full(s1) and isinstance(s2, ast.Slice) and s2.step is None
          and s2.lower is None and s2.upper is not None, "X_fit = X_full[:, :, :hi]", st)
    defs.append(("gen_dr_fit_hi", "wl i", "Z", _expr(s2.upper, dict(ENV, n_timepoints="wl"))))
    _unique_stmt(fn, lambda n: isinstance(n, ast.Assign) and _u(n) == "n_timepoints = Xt.shape[2]",
                 "dirrec n_timepoints = Xt.shape[2]")
    _unique_stmt(fn, lambda n: isinstance(n, ast.Assign)
                 and _u(n) == "X_full = np.concatenate([Xt, np.expand_dims(yt, axis=1)], axis=2)",
                 "dirrec X_full concatenation")


def _last_window(mod, defs):
    fn = _find(mod, "_BaseWindowForecaster._get_last_window")
    b = _body(fn)
    _need(len(b) == 5, "_get_last_window has %d statements, expected 5" % len(b))
    _need(_u(b[0]) == "cutoff = self.cutoff", "stmt 1", b[0])
    v = _assign(b[1], "start")
    _need(isinstance(v, ast.Call) and _u(v.func) == "_shift" and len(v.args) == 1
          and _u(v.args[0]) == "cutoff" and len(v.keywords) == 1 and v.keywords[0].arg == "by",
          "start = _shift(cutoff, by=...)", b[1])
    defs.append(("gen_lw_shift", "wl", "Z", _expr(v.keywords[0].value, ENV)))
    _need(_u(b[2]) == "y = self._y.loc[start:cutoff].to_numpy()", "stmt 3", b[2])
    _need(_u(b[3]) == "X = self._X.loc[start:cutoff].to_numpy() if self._X is not None else None",
          "stmt 4", b[3])
    _need(_u(b[4]) == "return (y, X)", "stmt 5", b[4])


HEADER = """(* GENERATED by translator/reduce_c05.py from sktime/forecasting/compose/_reduce.py and
   sktime/forecasting/base/_sktime.py -- do not edit.  Integer expressions of the source. *)
From Coq Require Import ZArith Bool.
Open Scope Z_scope.

"""


def translate(repo):
    defs = []
    with open(os.path.join(repo, "sktime/forecasting/compose/_reduce.py")) as f:
        mod = ast.parse(f.read())
    _swt(mod, defs)
    _strategies(mod, defs)
    with open(os.path.join(repo, "sktime/forecasting/base/_sktime.py")) as f:
        mod2 = ast.parse(f.read())
    _last_window(mod2, defs)
    out = [HEADER]
    for name, params, ty, body in defs:
        out.append("Definition %s (%s : Z) : %s := %s.\n" % (name, params, ty, body))
    return {"C05/Gen.v": "".join(out)}


if __name__ == "__main__":
    import sys
    print(translate(sys.argv[1] if len(sys.argv) > 1 else "/repo")["C05/Gen.v"])
