"""C20: the private validation helpers that are regenerated (GenV.v) and listed as chain events
(GenC.v) are found BY ROLE - through the call graph from a public entry point - not by name.

The labels are the names the helpers have in sktime 0.6.0; `resolve(repo)` returns, per label, where
the helper lives in the given tree and what it is called there.  A helper that was renamed, moved to
another base class, or whose parameters were renamed is still found; a helper that was removed
(inlined into its caller) is not - the lemma about it has nothing to be stated about - and the
translation fails closed.

Selection rules (every rule must leave exactly one candidate, else Unsupported):
  a candidate is a PRIVATE callee (leading underscore, not dunder) defined in the same file
  (functions) or on the class / its bases, wherever those are defined (methods), whose body raises;
    eval strategy     evaluate(.., strategy, ..) : function called with the sole argument `strategy`
    reduce strategy   make_reduction(..)         : function called with the sole argument `strategy`
    scitype           make_reduction(..)         : function called with the sole argument `scitype`
    infer scitype     make_reduction(..)         : function called with the sole argument `estimator`
    forecasters       EnsembleForecaster.fit     : method of self called without arguments (also
                      through private wrapper methods that do not raise themselves)
    steps             TransformedTargetForecaster.fit : method of self called without arguments
    names             the one-argument method of self both `forecasters` and `steps` call
"""
import ast
import os

from .pyz import Unsupported

SERIES = "sktime/utils/validation/series.py"
EVAL = "sktime/forecasting/model_evaluation/_functions.py"
REDUCE = "sktime/forecasting/compose/_reduce.py"
ENSEMBLE = "sktime/forecasting/compose/_ensemble.py"
PIPELINE = "sktime/forecasting/compose/_pipeline.py"


def private(name):
    return name.startswith("_") and not name.startswith("__")


class Tree:
    """Parsed files of one source tree, with class / method lookup across files."""

    def __init__(self, repo, mods=None):
        self.repo = repo
        self.mods = {} if mods is None else mods

    def mod(self, src):
        if src not in self.mods:
            with open(os.path.join(self.repo, src)) as f:
                self.mods[src] = ast.parse(f.read())
        return self.mods[src]

    def function(self, src, name):
        for n in self.mod(src).body:
            if isinstance(n, ast.FunctionDef) and n.name == name:
                return n
        return None

    def function_def(self, src, name, depth=0):
        """(source file, FunctionDef) of a module-level function visible under `name` in `src`."""
        mod = self.mod(src)
        for n in mod.body:
            if isinstance(n, ast.FunctionDef) and n.name == name:
                return src, n
        if depth >= 4:
            return None
        for n in mod.body:
            if isinstance(n, ast.ImportFrom) and n.module and n.level == 0:
                for a in n.names:
                    if (a.asname or a.name) == name:
                        base = n.module.replace(".", "/")
                        for rel in (base + ".py", base + "/__init__.py"):
                            if os.path.exists(os.path.join(self.repo, rel)):
                                r = self.function_def(rel, a.name, depth + 1)
                                if r is not None:
                                    return r
        return None

    def class_def(self, src, name, depth=0):
        """(source file, ClassDef) of a class visible under `name` in the file `src`."""
        mod = self.mod(src)
        for n in mod.body:
            if isinstance(n, ast.ClassDef) and n.name == name:
                return src, n
        if depth >= 4:
            return None
        for n in mod.body:
            if isinstance(n, ast.ImportFrom) and n.module and n.level == 0:
                for a in n.names:
                    if (a.asname or a.name) == name:
                        base = n.module.replace(".", "/")
                        for rel in (base + ".py", base + "/__init__.py"):
                            if os.path.exists(os.path.join(self.repo, rel)):
                                r = self.class_def(rel, a.name, depth + 1)
                                if r is not None:
                                    return r
        return None

    def method_def(self, src, cls, name):
        """(file, class name, FunctionDef) of `cls.name`, searching the bases in MRO-like order."""
        todo, seen = [(src, cls)], set()
        while todo:
            f, c = todo.pop(0)
            if (f, c) in seen:
                continue
            seen.add((f, c))
            r = self.class_def(f, c)
            if r is None:
                continue
            f2, cd = r
            for n in cd.body:
                if isinstance(n, ast.FunctionDef) and n.name == name:
                    return f2, cd.name, n
            todo += [(f2, ast.unparse(b)) for b in cd.bases]
        return None


# parameters of the validators that are options (written as keywords in the canonical form of a
# call); every other parameter is data (written positionally)
OPTION_PARAMS = ("allow_empty", "allow_constant", "allow_numpy", "enforce_index_type",
                 "enforce_univariate", "enforce_relative", "enforce_start_with_window",
                 "enforce_list")


def canonical_call(call, fn, takes_self):
    """`call` with its arguments bound against the signature of `fn` and re-written in one form:
    the leading data parameters positionally, everything else by keyword (so `f(y, X=X)`,
    `f(y=y, X=X)` and `f(y, X)` are the same call, and so are `g(fh, True)` and
    `g(fh, enforce_relative=True)`).  None if the call does not fit the signature."""
    a = fn.args
    if a.vararg or a.kwarg or a.kwonlyargs or a.posonlyargs \
            or any(isinstance(x, ast.Starred) for x in call.args) \
            or any(k.arg is None for k in call.keywords):
        return None
    names = [x.arg for x in a.args][1 if takes_self else 0:]
    if len(call.args) > len(names):
        return None
    given = dict(zip(names, call.args))
    for k in call.keywords:
        if k.arg not in names or k.arg in given:
            return None
        given[k.arg] = k.value
    args, kws, leading = [], [], True
    for n in names:
        if n not in given:
            leading = False
            continue
        if leading and n not in OPTION_PARAMS:
            args.append(given[n])
        else:
            leading = False
            kws.append(ast.keyword(arg=n, value=given[n]))
    return ast.copy_location(ast.Call(func=call.func, args=args, keywords=kws), call)


def _raises(fn):
    return any(isinstance(n, ast.Raise) for n in ast.walk(fn))


def _calls(fn):
    return [n for n in ast.walk(fn) if isinstance(n, ast.Call)]


def _one(label, cands):
    cands = sorted(set(cands))
    if len(cands) != 1:
        raise Unsupported("role %s: candidates %s" % (label, cands))
    return cands[0]


def _fun_role(tree, label, src, root, arg):
    """The private raising function of `src` that `root` calls with the sole argument `arg`."""
    fn = tree.function(src, root)
    if fn is None:
        raise Unsupported("%s: missing %s" % (src, root))
    params = [a.arg for a in fn.args.args]
    if isinstance(arg, int):
        if len(params) <= arg:
            raise Unsupported("%s: signature of %s" % (src, root))
        arg = params[arg]
    elif arg not in params:
        raise Unsupported("%s: %s has no parameter %s" % (src, root, arg))
    out = []
    for c in _calls(fn):
        if isinstance(c.func, ast.Name) and private(c.func.id):
            given = list(c.args) + [k.value for k in c.keywords]
            if len(given) == 1 and isinstance(given[0], ast.Name) and given[0].id == arg:
                d = tree.function(src, c.func.id)
                if d is not None and _raises(d):
                    out.append(c.func.id)
    return _one(label, out)


def _self_calls(tree, src, cls, fn, nargs, depth=0):
    """Private raising methods of self that `fn` (a method of `cls`) calls with `nargs` arguments,
    directly or through private wrappers that do not raise themselves:
    name -> (file, defining class, def)."""
    if not fn.args.args:
        raise Unsupported("signature of " + fn.name)
    recv = fn.args.args[0].arg
    out = {}
    for c in _calls(fn):
        f = c.func
        if isinstance(f, ast.Attribute) and isinstance(f.value, ast.Name) and f.value.id == recv \
                and private(f.attr):
            d = tree.method_def(src, cls, f.attr)
            if d is None:
                continue
            if _raises(d[2]):
                if len(c.args) + len(c.keywords) == nargs:
                    out[f.attr] = d
            elif depth < 3 and not any(ast.unparse(x) == "staticmethod"
                                       for x in d[2].decorator_list):
                out.update(_self_calls(tree, src, cls, d[2], nargs, depth + 1))
    return out


def _method_role(tree, label, src, cls, root, nargs=0):
    d = tree.method_def(src, cls, root)
    if d is None:
        raise Unsupported("%s: missing %s.%s" % (src, cls, root))
    cands = _self_calls(tree, src, cls, d[2], nargs)
    name = _one(label, cands)
    return name, cands[name]


def _plain_constants(v):
    return isinstance(v, (ast.Tuple, ast.List)) and all(isinstance(x, ast.Constant) for x in v.elts)


def setting_check(stmts, attr):
    """The statements of `stmts` that validate the constructor setting `self.<attr>` against a fixed
    set of values: `if <test reading self.attr>: raise ..` together with the assignments of constant
    tuples / lists its test reads, which directly precede it (found by shape: the names of the
    temporaries are free).  None if there is no such statement."""
    want = "self." + attr
    for i, s in enumerate(stmts):
        if isinstance(s, ast.If) and not s.orelse and len(s.body) == 1 \
                and isinstance(s.body[0], ast.Raise) \
                and any(isinstance(n, ast.Attribute) and ast.unparse(n) == want
                        for n in ast.walk(s.test)):
            names = {n.id for n in ast.walk(s.test) if isinstance(n, ast.Name)} - {"self"}
            j = i
            while j > 0 and isinstance(stmts[j - 1], ast.Assign) and len(stmts[j - 1].targets) == 1 \
                    and isinstance(stmts[j - 1].targets[0], ast.Name) \
                    and stmts[j - 1].targets[0].id in names \
                    and _plain_constants(stmts[j - 1].value):
                j -= 1
            return list(stmts[j:i + 1])
    return None


def is_self_call(s, name):
    """`self.<name>(..)` as a statement."""
    return isinstance(s, ast.Expr) and isinstance(s.value, ast.Call) \
        and ast.unparse(s.value.func) == "self." + name


def is_flag_set(s, attr):
    """`self.<attr> = True`."""
    return isinstance(s, ast.Assign) and len(s.targets) == 1 \
        and ast.unparse(s.targets[0]) == "self." + attr \
        and isinstance(s.value, ast.Constant) and s.value.value is True


class Roles:
    """label -> where the helper is in this tree.  Every role is resolved on its own: `name`, `src`,
    `cls` hold the resolved ones, `errors` why the others are not (asking for one of those raises)."""

    def __init__(self, repo, mods=None):
        t = self.tree = Tree(repo, mods)
        self.src, self.name, self.cls, self.errors = {}, {}, {}, {}
        defs = {}

        def put(label, f):
            try:
                src, name, cls = f()
            except (Unsupported, OSError, SyntaxError, KeyError) as e:
                self.errors[label] = str(e)
                return
            self.src[label], self.name[label], self.cls[label] = src, name, cls

        put("eval._check_strategy", lambda: (
            EVAL, _fun_role(t, "eval._check_strategy", EVAL, "evaluate", "strategy"), None))
        put("reduce._check_strategy", lambda: (
            REDUCE, _fun_role(t, "reduce._check_strategy", REDUCE, "make_reduction", "strategy"),
            None))
        put("_check_scitype", lambda: (
            REDUCE, _fun_role(t, "_check_scitype", REDUCE, "make_reduction", "scitype"), None))
        put("_infer_scitype", lambda: (
            REDUCE, _fun_role(t, "_infer_scitype", REDUCE, "make_reduction", "estimator"), None))

        def method(label, src, cls):
            def f():
                n, (fsrc, c, d) = _method_role(t, label, src, cls, "fit")
                defs[label] = d
                return fsrc, n, c
            return f
        put("_check_forecasters", method("_check_forecasters", ENSEMBLE, "EnsembleForecaster"))
        put("_check_steps", method("_check_steps", PIPELINE, "TransformedTargetForecaster"))

        def names():
            if "_check_forecasters" not in defs or "_check_steps" not in defs:
                raise Unsupported("role _check_names: its callers are not resolved")
            a = _self_calls(t, ENSEMBLE, "EnsembleForecaster", defs["_check_forecasters"], 1)
            b = _self_calls(t, PIPELINE, "TransformedTargetForecaster", defs["_check_steps"], 1)
            both = {k: v for k, v in a.items() if k in b and b[k][:2] == v[:2]}
            n = _one("_check_names", both)
            return both[n][0], n, both[n][1]
        put("_check_names", names)
        if len({(self.src[k], self.cls[k], self.name[k]) for k in self.name}) != len(self.name):
            raise Unsupported("roles not distinct")

    def need(self, label):
        if label not in self.name:
            raise Unsupported(self.errors.get(label, "unknown role " + label))
        return self.name[label]

    def path(self, label):
        """`Class.method` / `function` of the helper in this tree."""
        self.need(label)
        return (self.cls[label] + "." if self.cls[label] else "") + self.name[label]

    def params(self, label):
        self.need(label)
        fn = self.tree.function(self.src[label], self.name[label]) if self.cls[label] is None \
            else self.tree.method_def(self.src[label], self.cls[label], self.name[label])[2]
        a = fn.args
        if a.vararg or a.kwarg or a.kwonlyargs or a.posonlyargs:
            raise Unsupported("signature of " + self.path(label))
        return [x.arg for x in a.args][0 if self.cls[label] is None else 1:]


if __name__ == "__main__":
    import sys
    r = Roles(sys.argv[1] if len(sys.argv) > 1 else "/repo")
    for k in r.name:
        print(k, "->", r.src[k], r.path(k), r.params(k))
    for k, e in r.errors.items():
        print(k, "UNRESOLVED:", e)
