"""C16: row-flow extractor.  Classifies every statement of the apply-time methods (transform /
predict / predict_proba) of the panel estimators into the panel-program language of
coq/C16/Prog.v and emits build/coq/C16/Gen.v (one `raw` term per translated method).

The extractor is an abstract interpreter over the Python ast.  Every value has a KIND:

  P      batch independent (self.<fitted state>, constants, column labels, pure functions of those)
  N      the number of instances (len(X), X.shape[0]); usable ONLY as `range(N)` / in an allocation
         or reshape shape
  IDX    the index variable of a row loop; usable ONLY as the index of a row-aligned value at its
         instance axis (X[i], X.iloc[i, :], out[i] = ..) - never in arithmetic or a condition
  ROW    inside a row loop: depends on the current row (and P) only
  PANEL  a row-aligned array / frame / list: element i depends on input row i only; carries the
         `raw` term that computes it (axis numbers, index tuples, shapes AS WRITTEN; the
         instance-axis bookkeeping is re-done by `compile` in Coq, which is authoritative)
  PLIST  a Python list, over a batch-independent index, of PANELs
  B      anything else that reads the batch (a fixed row X.iloc[0, 0], a batch statistic, row
         labels, a value carried from one row iteration to the next, arithmetic on N).  B values may
         only be read by validation statements (a discarded `self._check_*(..)` call, an `if` whose
         body only raises): the program denotes the result WHEN NO EXCEPTION IS RAISED.
  RNG    a random generator object; may only be used in the row scope that created it

Fail closed: a statement / expression shape that is not listed in the rules below makes the method
`not-translated` (with the reason); it is never guessed.  In particular there is no rule for:
stores to `self.<attr>` or mutation of objects that outlive the row iteration, reductions without
an axis, `break` / `continue` of a row loop, conditions on N / IDX, P-lists indexed by IDX,
`zip` of rows with a batch-independent list, `global`, `with`, generators (`yield`).

Trusted (stated in props/c16.py): opaque callees (numpy / scipy / sklearn functions, methods of
other classes) are pure functions of their arguments; fitted members (`clf.predict(X)`,
`self.pca.transform(X)`, ..) are row-wise; an operation called with `axis=k` acts independently
along the other axes; batch-independent operands broadcast along non-instance axes.
"""
import ast
import os

from .pyz import Unsupported

FILES = [
    "sktime/transformations/panel/catch22_features.py",
    "sktime/transformations/panel/compose.py",
    "sktime/transformations/panel/dwt.py",
    "sktime/transformations/panel/hog1d.py",
    "sktime/transformations/panel/interpolate.py",
    "sktime/transformations/panel/matrix_profile.py",
    "sktime/transformations/panel/padder.py",
    "sktime/transformations/panel/pca.py",
    "sktime/transformations/panel/reduce.py",
    "sktime/transformations/panel/segment.py",
    "sktime/transformations/panel/shapelets.py",
    "sktime/transformations/panel/slope.py",
    "sktime/transformations/panel/truncation.py",
    "sktime/transformations/panel/tsfresh.py",
    "sktime/transformations/panel/dictionary_based/_paa.py",
    "sktime/transformations/panel/dictionary_based/_sax.py",
    "sktime/transformations/panel/dictionary_based/_sfa.py",
    "sktime/transformations/panel/summarize/_extract.py",
    "sktime/transformations/panel/rocket/_rocket.py",
    "sktime/transformations/panel/rocket/_minirocket.py",
    "sktime/transformations/panel/rocket/_minirocket_multivariate.py",
    "sktime/classification/base.py",
    "sktime/classification/interval_based/_tsf.py",
    "sktime/classification/interval_based/_rise.py",
    "sktime/classification/interval_based/_stsf.py",
    "sktime/classification/dictionary_based/_boss.py",
    "sktime/classification/dictionary_based/_cboss.py",
    "sktime/classification/dictionary_based/_tde.py",
    "sktime/classification/dictionary_based/_muse.py",
    "sktime/classification/compose/_column_ensemble.py",
    "sktime/regression/interval_based/_tsf.py",
]
# helper modules: indexed so that callees can be followed, their own methods are not table entries
HELPERS = [
    "sktime/utils/data_processing.py",
    "sktime/series_as_features/base/estimators/interval_based/_tsf.py",
]
METHODS = ("transform", "predict", "predict_proba")
# module-level functions every estimator reads its input through: analysed like a method, with the
# first parameter bound to the panel (all flags batch independent, both branches of every flag)
FUNCTIONS = [("sktime/utils/validation/panel.py", "check_X")]


class Reject(Exception):
    """this method is not in the language (reason in args[0])"""


# ------------------------------------------------------------------------------------------------
# module index


class Module:
    def __init__(self, path, tree):
        self.path = path
        self.tree = tree
        self.functions = {}
        self.classes = {}
        self.imports = {}      # local name -> (dotted module, original name)
        self.modnames = {}     # local name -> dotted module (import numpy as np)
        for n in tree.body:
            if isinstance(n, ast.FunctionDef):
                self.functions[n.name] = n
            elif isinstance(n, ast.ClassDef):
                self.classes[n.name] = n
            elif isinstance(n, ast.ImportFrom) and (n.module or n.level):
                base = n.module or ""
                if n.level:
                    parts = path[:-3].split("/")
                    if parts[-1] == "__init__":
                        parts = parts[:-1]
                    else:
                        parts = parts[:-1]
                    parts = parts[:len(parts) - (n.level - 1)] if n.level > 1 else parts
                    base = ".".join(parts + ([n.module] if n.module else []))
                for a in n.names:
                    self.imports[a.asname or a.name] = (base, a.name)
            elif isinstance(n, ast.Import):
                for a in n.names:
                    self.modnames[a.asname or a.name.split(".")[0]] = a.name


class Index:
    def __init__(self, repo):
        self.repo = repo
        self.mods = {}
        for rel in FILES + HELPERS:
            p = os.path.join(repo, rel)
            if not os.path.exists(p):
                raise Unsupported("anchored file missing: " + rel)
            with open(p) as f:
                self.mods[rel] = Module(rel, ast.parse(f.read()))

    def by_dotted(self, dotted):
        """module of the repository by dotted name; sktime modules outside the anchored list are
        parsed on demand (helpers and base classes may live anywhere in the package)"""
        for rel in (dotted.replace(".", "/") + ".py", dotted.replace(".", "/") + "/__init__.py"):
            if rel in self.mods:
                return self.mods[rel]
        if dotted.split(".")[0] != "sktime":
            return None
        for rel in (dotted.replace(".", "/") + ".py", dotted.replace(".", "/") + "/__init__.py"):
            p = os.path.join(self.repo, rel)
            if os.path.exists(p):
                with open(p) as f:
                    try:
                        tree = ast.parse(f.read())
                    except SyntaxError:
                        return None
                m = Module(rel, tree)
                m.pkg = dotted if rel.endswith("__init__.py") else dotted.rsplit(".", 1)[0]
                self.mods[rel] = m
                return m
        return None

    def anchored(self, mod):
        return mod.path in FILES

    def resolve_name(self, mod, name, seen=()):
        """-> (Module, FunctionDef | ClassDef) or None"""
        if name in mod.functions:
            return mod, mod.functions[name]
        if name in mod.classes:
            return mod, mod.classes[name]
        if name in mod.imports and (mod.path, name) not in seen:
            dotted, orig = mod.imports[name]
            m2 = self.by_dotted(dotted)
            if m2 is not None:
                return self.resolve_name(m2, orig, seen + ((mod.path, name),))
        return None

    def find_method(self, mod, cls, name, depth=0):
        """-> (Module, ClassDef, FunctionDef) searching the class, then its resolvable bases"""
        for n in cls.body:
            if isinstance(n, ast.FunctionDef) and n.name == name:
                return mod, cls, n
        if depth > 6:
            return None
        for b in cls.bases:
            if isinstance(b, ast.Name):
                r = self.resolve_name(mod, b.id)
                if r and isinstance(r[1], ast.ClassDef):
                    got = self.find_method(r[0], r[1], name, depth + 1)
                    if got:
                        return got
        return None


# ------------------------------------------------------------------------------------------------
# abstract values and raw terms


class Val:
    __slots__ = ("k", "raw", "iax", "nd", "scope", "elts", "fn", "cont", "member_out", "dims",
                 "base", "label")

    def __init__(self, k, **kw):
        self.k = k
        for s in self.__slots__[1:]:
            setattr(self, s, kw.get(s))

    def __repr__(self):
        return "<%s%s>" % (self.k, "" if self.raw is None else " " + str(self.raw)[:60])


P = Val("P")
N = Val("N")
B = Val("B")
SELF = Val("SELF")


def row(scope):
    return Val("ROW", scope=scope)


def panel(raw, iax=0, nd=None, cont=None, member_out=False):
    return Val("PANEL", raw=raw, iax=iax, nd=nd, cont=cont, member_out=member_out)


def cstr(s):
    return '"' + str(s).replace('"', "'") + '"%string'


def _clist(xs):
    return "[" + "; ".join(xs) + "]"


def _cz(z):
    return "(%d)%%Z" % z


def _cob(b):
    return "None" if b is None else ("(Some true)" if b else "(Some false)")


def _cix(ix):
    return _clist(ix)


def _cconv(c):
    if c[0] == "CCheckX":
        return "(CCheckX %s %s)" % ("true" if c[1] else "false", "true" if c[2] else "false")
    return c[0]


def raw_to_coq(r):
    t = r[0]
    if t == "RInput":
        return "RInput"
    if t == "RConv":
        return "(RConv %s %s)" % (_cconv(r[1]), raw_to_coq(r[2]))
    if t == "RIndex":
        return "(RIndex %s %s)" % (_cix(r[1]), raw_to_coq(r[2]))
    if t == "RAxisOp":
        return "(RAxisOp %s %s %s %s)" % (cstr(r[1]), _cz(r[2]), _cob(r[3]), raw_to_coq(r[4]))
    if t == "RSqueeze":
        return "(RSqueeze %s %s)" % (_cz(r[1]), raw_to_coq(r[2]))
    if t == "RTranspose":
        return "(RTranspose %s)" % raw_to_coq(r[1])
    if t == "RReshape":
        return "(RReshape %s %s)" % (_clist(r[1]), raw_to_coq(r[2]))
    if t == "RElem":
        return "(RElem %s %s)" % (cstr(r[1]), _clist([raw_to_coq(x) for x in r[2]]))
    if t == "RConcat":
        return "(RConcat %s %s)" % (_cz(r[1]), _clist([raw_to_coq(x) for x in r[2]]))
    if t == "RListOf":
        return "(RListOf %s)" % raw_to_coq(r[1])
    if t == "RConcatList":
        return "(RConcatList %s %s)" % (_cz(r[1]), raw_to_coq(r[2]))
    if t == "RMember":
        return "(RMember %s %s)" % (cstr(r[1]), raw_to_coq(r[2]))
    if t == "RAlloc":
        return "(RAlloc %s %s)" % (_clist(r[1]), cstr(r[2]))
    if t == "RMapRows":
        return "(RMapRows %s %s %s)" % (cstr(r[1]), _clist([raw_to_coq(x) for x in r[2]]),
                                        _clist([_cix(ix) for ix in r[3]]))
    if t == "RStoreRows":
        return "(RStoreRows %s %s %s %s %s)" % (
            cstr(r[1]), raw_to_coq(r[2]), _cix(r[3]), _clist([raw_to_coq(x) for x in r[4]]),
            _clist([_cix(ix) for ix in r[5]]))
    if t == "RStoreCols":
        return "(RStoreCols %s %s %s)" % (raw_to_coq(r[1]), _cix(r[2]), raw_to_coq(r[3]))
    if t == "RIf":
        return "(RIf %s %s %s)" % (cstr(r[1]), raw_to_coq(r[2]), raw_to_coq(r[3]))
    raise Unsupported("raw term " + str(t))


def raw_members(r, acc=None):
    """symbols of the fitted members a term delegates to"""
    acc = [] if acc is None else acc
    if isinstance(r, tuple):
        if r and r[0] == "RMember":
            acc.append(r[1])
        for x in r:
            raw_members(x, acc)
    elif isinstance(r, list):
        for x in r:
            raw_members(x, acc)
    return acc


# ------------------------------------------------------------------------------------------------
# the abstract interpreter

REDUCERS = {"mean", "std", "sum", "max", "min", "average", "median", "var", "argmax", "argmin",
            "prod", "any", "all", "nanmean", "nanstd", "nansum", "nanmax", "nanmin", "norm",
            "_slope", "amax", "amin", "ptp"}
KEEPERS = {"diff", "cumsum", "cumprod", "zscore", "sort", "argsort", "flip", "roll", "gradient"}
ELEMENTWISE = {"isnan", "isinf", "abs", "sqrt", "exp", "log", "where", "clip", "sign", "square",
               "nan_to_num", "floor", "ceil", "round", "absolute", "negative", "isfinite",
               "logical_not", "logical_and", "logical_or"}
ALLOCATORS = {"zeros", "ones", "empty", "full"}
MEMBER_METHODS = {"predict", "predict_proba", "transform", "decision_function",
                  "inverse_transform", "predict_log_proba"}
MUTATORS = {"append", "extend", "reverse", "sort", "update", "add", "pop", "insert", "clear",
            "setdefault", "remove", "popitem", "discard", "fit", "fit_transform", "partial_fit",
            "set_params", "seed", "shuffle", "fill", "put", "itemset", "resize", "partition",
            "setflags", "byteswap"}
# numpy functions that write into their FIRST argument
INPLACE_FUNCS = {"copyto", "put", "place", "putmask", "fill_diagonal", "put_along_axis", "shuffle"}
PURE_BUILTINS = {"int", "float", "str", "abs", "min", "max", "sum", "round", "sorted", "tuple",
                 "set", "dict", "any", "all", "bool", "repr", "type", "hasattr", "getattr",
                 "isinstance", "issubclass", "print", "warn", "divmod", "pow", "map", "filter",
                 "reversed", "frozenset", "format", "ord", "chr", "iter", "next", "callable", "id",
                 "defaultdict", "object", "slice", "complex", "bytes", "super", "vars"}
RNG_MAKERS = {"check_random_state", "RandomState", "default_rng"}
CONVERSIONS = {
    "from_nested_to_3d_numpy": ("CNestedTo3d", 3, "array"),
    "from_3d_numpy_to_nested": ("C3dToNested", None, "frame"),
    "from_nested_to_2d_array": ("CNestedTo2d", 2, "frame"),
    "from_3d_numpy_to_2d_array": ("C3dTo2d", 2, "array"),
    "from_2d_array_to_nested": ("C2dToNested", None, "frame"),
}


class Scope:
    def __init__(self, sid, line):
        self.sid = sid
        self.line = line
        self.srcs = []
        self.ixs = []
        self.local = set()
        self.appends = {}
        self.path_ends = []     # append counts of the paths that end in `continue`
        self.stores = []        # (accumulator name, ix)

    def access(self, raw, ix):
        for r, i in zip(self.srcs, self.ixs):
            if r == raw and i == ix:
                return
        self.srcs.append(raw)
        self.ixs.append(list(ix))


def _const_int(e):
    if isinstance(e, ast.Constant) and isinstance(e.value, int) and not isinstance(e.value, bool):
        return e.value
    if isinstance(e, ast.UnaryOp) and isinstance(e.op, ast.USub):
        v = _const_int(e.operand)
        return None if v is None else -v
    return None


def _fname(f):
    """dotted rendering of a call target: np.mean, self._foo, est.predict, name"""
    if isinstance(f, ast.Name):
        return f.id
    if isinstance(f, ast.Attribute):
        return _fname(f.value) + "." + f.attr
    if isinstance(f, ast.Subscript):
        return _fname(f.value) + "[]"
    if isinstance(f, ast.Call):
        return _fname(f.func) + "()"
    return "?"


def _stores_to_self(fn):
    """does a function body assign / mutate self.<attr> (purity scan of own methods)?"""
    for n in ast.walk(fn):
        tg = []
        if isinstance(n, ast.Assign):
            tg = n.targets
        elif isinstance(n, (ast.AugAssign, ast.AnnAssign)):
            tg = [n.target]
        elif isinstance(n, ast.Delete):
            tg = n.targets
        for t in tg:
            b = t
            while isinstance(b, (ast.Subscript, ast.Attribute)):
                if isinstance(b, ast.Attribute) and isinstance(b.value, ast.Name) \
                        and b.value.id == "self":
                    return "self.%s" % b.attr
                b = b.value
        if isinstance(n, ast.Call) and isinstance(n.func, ast.Attribute) \
                and n.func.attr in MUTATORS:
            b = n.func.value
            while isinstance(b, (ast.Subscript, ast.Attribute)):
                if isinstance(b, ast.Attribute) and isinstance(b.value, ast.Name) \
                        and b.value.id == "self":
                    return "self.%s.%s()" % (b.attr, n.func.attr)
                b = b.value
        if isinstance(n, (ast.Global, ast.Nonlocal)):
            return "global"
    return None


def _bag_member_attrs(index, mod, cls):
    """self.<attr> names of a class that hold SFA transformers (directly, or in (nested) lists),
    found by ROLE: the attribute is assigned / appended a call of the class SFA of the anchored
    sources (or a local bound to such a call) somewhere in the class or its resolvable bases"""
    def is_sfa_call(e, local):
        if isinstance(e, ast.Name) and e.id in local:
            return True
        if not isinstance(e, ast.Call):
            return False
        f = e.func
        nm = f.id if isinstance(f, ast.Name) else (f.attr if isinstance(f, ast.Attribute) else None)
        if nm is None:
            return False
        r = index.resolve_name(mod, nm) if isinstance(f, ast.Name) else None
        if r is not None and isinstance(r[1], ast.ClassDef):
            return r[1].name == "SFA" and r[0].path.endswith("dictionary_based/_sfa.py")
        return False

    def self_attr(e):
        while isinstance(e, ast.Subscript):
            e = e.value
        if isinstance(e, ast.Attribute) and isinstance(e.value, ast.Name) and e.value.id == "self":
            return e.attr
        return None

    out = set()
    todo, seen = [(mod, cls)], set()
    while todo:
        m, c = todo.pop()
        if id(c) in seen:
            continue
        seen.add(id(c))
        for b in c.bases:
            if isinstance(b, ast.Name):
                r = index.resolve_name(m, b.id)
                if r and isinstance(r[1], ast.ClassDef):
                    todo.append(r)
        for fn in c.body:
            if not isinstance(fn, ast.FunctionDef):
                continue
            local = set()
            for n in ast.walk(fn):
                if isinstance(n, ast.Assign) and len(n.targets) == 1 \
                        and isinstance(n.targets[0], ast.Name) and is_sfa_call(n.value, set()):
                    local.add(n.targets[0].id)
            for n in ast.walk(fn):
                if isinstance(n, ast.Assign) and is_sfa_call(n.value, local):
                    for t in n.targets:
                        a = self_attr(t)
                        if a:
                            out.add(a)
                if isinstance(n, ast.Call) and isinstance(n.func, ast.Attribute) \
                        and n.func.attr == "append" and len(n.args) == 1 \
                        and is_sfa_call(n.args[0], local):
                    a = self_attr(n.func.value)
                    if a:
                        out.add(a)
    return out


class Interp:
    def __init__(self, index, mod, cls, qual):
        self.index = index
        self.mod = mod
        self.cls = cls
        self.qual = qual
        self.clsmod = mod
        self.scopes = []
        self.deps = set()
        self.depth = 0
        self.nsid = 0
        self.assumptions = []
        self.retstack = []
        self.loops = []          # "row" / "plain", innermost last
        self.bag_attrs = _bag_member_attrs(index, mod, cls) if cls is not None else set()

    # ---------- helpers ----------
    def sym(self, node, what=""):
        return "%s:L%d%s" % (self.qual, getattr(node, "lineno", 0), (":" + what) if what else "")

    def cur(self):
        return self.scopes[-1] if self.scopes else None

    def active(self, scope):
        return scope is not None and any(s is scope for s in self.scopes)

    def opaque(self, vals, node, what="call"):
        """kind of an opaque pure function of `vals`"""
        if any(v.k == "B" for v in vals):
            return B
        r = None
        for v in vals:
            if v.k in ("P", "SELF", "MOD", "EXT", "FN", "EMPTYLIST", "EMPTYFRAME"):
                continue
            if v.k == "TUP":
                w = self.opaque(v.elts, node, what)
                if w.k == "ROW":
                    r = w
                elif w.k == "B":
                    return B
                continue
            if v.k == "ROW":
                if not self.active(v.scope):
                    return B
                r = v
                continue
            if v.k == "RNG":
                if v.scope is not self.cur():
                    raise Reject("L%d: a random generator created outside the row scope is "
                                 "used in it (draws depend on the row position)" % node.lineno)
                continue
            raise Reject("L%d: %s of a %s value has no rule" % (node.lineno, what, v.k))
        return row(r.scope) if r is not None else P

    def lenient(self, node, env):
        try:
            return self.ev(node, env)
        except Reject:
            return B

    # ---------- names ----------
    def lookup(self, name, env, node):
        if name in env:
            return env[name]
        if name in self.mod.modnames:
            return Val("MOD", label=self.mod.modnames[name])
        r = self.index.resolve_name(self.mod, name)
        if r is not None:
            m, d = r
            if isinstance(d, ast.FunctionDef):
                return Val("FN", fn=(m, None, d), label=name)
            return Val("EXT", label=name, fn=(m, d, None))
        if name in self.mod.imports:
            dotted, orig = self.mod.imports[name]
            if dotted.split(".")[0] in ("scipy", "numpy", "pandas", "math") and orig[:1].islower() \
                    and "." not in orig and orig in ("signal", "stats", "interpolate", "linalg"):
                return Val("MOD", label=dotted + "." + orig)
            return Val("EXT", label=name)
        return Val("EXT", label=name)      # builtins and module-level constants

    # ---------- expressions ----------
    def ev(self, e, env):
        m = getattr(self, "ev_" + type(e).__name__, None)
        if m is None:
            raise Reject("L%d: expression %s has no rule" % (getattr(e, "lineno", 0),
                                                             type(e).__name__))
        return m(e, env)

    def ev_Constant(self, e, env):
        return P

    def ev_Name(self, e, env):
        return self.lookup(e.id, env, e)

    def ev_JoinedStr(self, e, env):
        return self.opaque([self.ev(v, env) for v in e.values], e, "f-string")

    def ev_FormattedValue(self, e, env):
        return self.opaque([self.ev(e.value, env)], e, "f-string")

    def ev_Lambda(self, e, env):
        inner = dict(env)
        for a in e.args.args:
            inner[a.arg] = P
        v = self.ev(e.body, inner)
        if v.k != "P":
            raise Reject("L%d: lambda capturing batch data" % e.lineno)
        return P

    def ev_Tuple(self, e, env):
        return self.seq_literal(e, env)

    def ev_List(self, e, env):
        if not e.elts:
            return Val("EMPTYLIST")
        return self.seq_literal(e, env)

    def seq_literal(self, e, env):
        vals = [self.ev(x, env) for x in e.elts]
        if any(v.k in ("N", "SHAPE") for v in vals):
            dims = []
            for v in vals:
                if v.k == "N":
                    dims.append("DN")
                elif v.k == "SHAPE":
                    dims += v.dims
                elif v.k in ("P", "ROW"):
                    dims.append("DP")
                else:
                    raise Reject("L%d: shape entry of kind %s" % (e.lineno, v.k))
            return Val("SHAPE", dims=dims)
        if any(v.k in ("PANEL", "PLIST") for v in vals):
            return Val("TUP", elts=vals)
        return self.opaque(vals, e, "literal")

    def ev_Dict(self, e, env):
        vals = [self.ev(x, env) for x in list(e.keys) + list(e.values) if x is not None]
        return self.opaque(vals, e, "dict")

    def ev_Set(self, e, env):
        return self.opaque([self.ev(x, env) for x in e.elts], e, "set")

    def ev_Starred(self, e, env):
        raise Reject("L%d: starred expression" % e.lineno)

    def ev_UnaryOp(self, e, env):
        return self.arith([self.ev(e.operand, env)], e, type(e.op).__name__)

    def ev_BinOp(self, e, env):
        return self.arith([self.ev(e.left, env), self.ev(e.right, env)], e, type(e.op).__name__)

    def ev_BoolOp(self, e, env):
        return self.arith([self.ev(v, env) for v in e.values], e, type(e.op).__name__)

    def ev_Compare(self, e, env):
        vals = [self.ev(e.left, env)] + [self.ev(c, env) for c in e.comparators]
        return self.arith(vals, e, "cmp")

    def arith(self, vals, e, op):
        if any(v.k == "B" for v in vals):
            return B
        if any(v.k in ("N", "SHAPE") for v in vals):
            return B          # arithmetic / comparison on the number of instances
        if any(v.k == "IDX" for v in vals):
            raise Reject("L%d: the row index is used in arithmetic / a comparison "
                         "(position-dependent value)" % e.lineno)
        pans = [v for v in vals if v.k == "PANEL"]
        if pans:
            for v in vals:
                if v.k not in ("PANEL", "P", "SELF"):
                    raise Reject("L%d: a row-aligned value combined with a %s value" % (
                        e.lineno, v.k))
            if len(set(p.iax for p in pans)) != 1:
                raise Reject("L%d: operands with different instance axes" % e.lineno)
            return panel(("RElem", self.sym(e, op), [p.raw for p in pans]), pans[0].iax,
                         pans[0].nd, pans[0].cont)
        return self.opaque(vals, e, "operator")

    def ev_IfExp(self, e, env):
        c = self.ev(e.test, env)
        a, b = self.ev(e.body, env), self.ev(e.orelse, env)
        if c.k in ("P", "SELF"):
            return self.join(a, b, e)
        if c.k == "ROW" and self.active(c.scope):
            return self.opaque([c, a, b], e, "conditional")
        if c.k == "B":
            return B
        raise Reject("L%d: conditional on a %s value" % (e.lineno, c.k))

    def join(self, a, b, node):
        if a.k == "B" or b.k == "B":
            return B
        if a.k == "PANEL" and b.k == "PANEL":
            if a.iax != b.iax:
                raise Reject("L%d: branches with different instance axes" % node.lineno)
            if a.raw == b.raw:
                return a
            return panel(("RIf", self.sym(node, "if"), a.raw, b.raw), a.iax,
                         a.nd if a.nd == b.nd else None, a.cont if a.cont == b.cont else None,
                         a.member_out and b.member_out)
        if a.k == b.k and a.k in ("P", "N", "SELF", "MOD", "EXT", "FN", "EMPTYLIST", "EMPTYFRAME"):
            return a
        if a.k == "ROW" and b.k == "ROW" and a.scope is b.scope:
            return a
        if {a.k, b.k} <= {"P", "ROW", "SELF", "EXT", "EMPTYLIST"}:
            return a if a.k == "ROW" else b
        if a.k == "PLIST" and b.k == "PLIST":
            return a
        if a.k == "IDX" and b.k == "IDX" and a.scope is b.scope:
            return a
        if a.k == "RNG" and b.k == "RNG" and a.scope is b.scope:
            return a
        if a.k == "TUP" and b.k == "TUP" and len(a.elts) == len(b.elts):
            return Val("TUP", elts=[self.join(x, y, node) for x, y in zip(a.elts, b.elts)])
        if a.k == "SHAPE" and b.k == "SHAPE" and a.dims == b.dims:
            return a
        return Val("CONFLICT", label="%s/%s" % (a.k, b.k))

    def ev_Attribute(self, e, env):
        v = self.ev(e.value, env)
        a = e.attr
        if v.k == "SELF":
            r = self.index.find_method(self.clsmod, self.cls, a) if self.cls is not None else None
            if r is not None:
                return Val("FN", fn=r, label="self." + a, base=SELF)
            return P
        if v.k == "PANEL":
            if a == "shape":
                dims = None
                if v.nd is not None:
                    dims = ["DN" if j == v.iax else "DP" for j in range(v.nd)]
                return Val("SHAPE", dims=dims, iax=v.iax)
            if a in ("columns", "ndim", "dtype", "dtypes"):
                return P
            if a == "values":
                return panel(v.raw, v.iax, v.nd, "array" if v.cont != "frame" else "array")
            if a == "T":
                return self.transpose(v, e)
            if a in ("iloc", "loc", "iat"):
                return Val("ILOC", base=v)
            if a == "index":
                return B
            return Val("PMETH", base=v, label=a)
        if v.k == "PANELT":
            if a == "T":
                return panel(v.raw, 0, None, "frame")
            return Val("PMETH", base=v, label=a)
        if v.k in ("P", "MOD", "EXT", "ROW", "B", "FN", "RNG", "PLIST", "EMPTYLIST", "EMPTYFRAME",
                   "TUP", "SHAPE"):
            if v.k == "MOD":
                return Val("MOD", label=(v.label or "") + "." + a)
            if v.k in ("P", "FN"):
                return P
            if v.k == "EXT":
                return Val("EXT", label=(v.label or "") + "." + a)
            if v.k == "ROW":
                return v
            if v.k == "B":
                return B
            return Val("METH", base=v, label=a)
        raise Reject("L%d: attribute .%s of a %s value" % (e.lineno, a, v.k))

    def transpose(self, v, e):
        if v.nd == 2 or v.cont == "frame":
            return panel(("RTranspose", v.raw), 1 - v.iax if v.iax in (0, 1) else v.iax, 2, v.cont)
        raise Reject("L%d: transpose of an array whose rank is not known to be 2" % e.lineno)

    # ---------- subscripts ----------
    def index_elems(self, e):
        s = e.slice
        if isinstance(s, ast.Tuple):
            return list(s.elts)
        return [s]

    def classify(self, elems, env, node):
        """-> (ix, scope of the row index or None)"""
        ix, scope = [], None
        for el in elems:
            if isinstance(el, ast.Slice):
                parts = [self.ev(p, env) for p in (el.lower, el.upper, el.step) if p is not None]
                if not parts:
                    ix.append("IFull")
                    continue
                k = self.opaque(parts, node, "slice bound")
                if k.k == "B":
                    raise Reject("L%d: slice bound reads the batch" % node.lineno)
                ix.append("IOther")
                continue
            if isinstance(el, ast.Name) and el.id in env and env[el.id].k == "IDX":
                sc = env[el.id].scope
                if not self.active(sc):
                    raise Reject("L%d: row index used outside its loop" % node.lineno)
                if scope is not None:
                    raise Reject("L%d: two row indices in one subscript" % node.lineno)
                scope = sc
                ix.append("IIdx")
                continue
            v = self.ev(el, env)
            if v.k in ("P", "SELF"):
                if _const_int(el) is not None:
                    ix.append("IInt")
                elif isinstance(el, (ast.List, ast.ListComp, ast.Tuple)):
                    ix.append("IOther")
                else:
                    ix.append("IUnk")
            elif v.k == "ROW" and self.active(v.scope):
                ix.append("IOther")
            elif v.k == "B":
                raise Reject("L%d: index reads the batch" % node.lineno)
            else:
                raise Reject("L%d: index of kind %s" % (node.lineno, v.k))
        return ix, scope

    def index_panel(self, p, ix, scope, e, elems, env):
        if scope is not None:
            pos = ix.index("IIdx")
            if pos != p.iax:
                raise Reject("L%d: the row index is not at the instance axis" % e.lineno)
            scope.access(p.raw, ix)
            return row(scope)
        if any(isinstance(el, ast.Slice) is False and self.ev(el, env).k == "ROW"
               for el in elems if not isinstance(el, ast.Slice)):
            raise Reject("L%d: row-dependent index on a whole panel" % e.lineno)
        at = ix[p.iax] if len(ix) > p.iax else "IFull"
        if at != "IFull":
            return B        # a fixed row / a selection of rows
        before = ix[:p.iax]
        if "IUnk" in before:
            raise Reject("L%d: cannot track the instance axis through this index" % e.lineno)
        nints = ix.count("IInt")
        nd = None if (p.nd is None or "IUnk" in ix) else p.nd - nints
        return panel(("RIndex", ix, p.raw), p.iax - before.count("IInt"), nd, p.cont)

    def ev_Subscript(self, e, env):
        v = self.ev(e.value, env)
        elems = self.index_elems(e)
        if v.k == "SHAPE":
            if len(elems) == 1:
                c = _const_int(elems[0])
                if c is not None and c >= 0:
                    if v.dims is not None:
                        if c < len(v.dims):
                            return N if v.dims[c] == "DN" else P
                    elif v.iax is not None:
                        return N if c == v.iax else P
                if isinstance(elems[0], ast.Slice) and elems[0].lower is None \
                        and elems[0].step is None and _const_int(elems[0].upper) is not None \
                        and _const_int(elems[0].upper) > (v.iax or 0):
                    u = _const_int(elems[0].upper)
                    dims = v.dims[:u] if v.dims is not None else \
                        ["DN" if j == v.iax else "DP" for j in range(u)]
                    return Val("SHAPE", dims=dims, iax=v.iax)
                if isinstance(elems[0], ast.Slice) and _const_int(elems[0].lower) is not None \
                        and _const_int(elems[0].lower) > (v.iax or 0) and v.iax == 0:
                    return P
            raise Reject("L%d: this use of .shape has no rule" % e.lineno)
        if v.k == "ILOC":
            ix, scope = self.classify(elems, env, e)
            return self.index_panel(v.base, ix, scope, e, elems, env)
        if v.k == "PANEL":
            if v.member_out and len(elems) == 1 and _const_int(elems[0]) == 0:
                recv = (v.label or "")
                if recv.startswith("self.") and \
                        recv[5:].split(".")[0].split("[")[0] in self.bag_attrs:
                    self.assumptions.append("%s(X)[0] is the row-aligned list of bags" % v.label)
                    return panel(v.raw, 0, None, "list")
            ix, scope = self.classify(elems, env, e)
            if v.cont == "frame" and scope is None:
                if len(ix) != 1 or ix[0] not in ("IInt", "IOther", "IUnk"):
                    raise Reject("L%d: frame subscript" % e.lineno)
                return panel(("RIndex", ["IFull", ix[0]], v.raw), 0, None,
                             "frame" if ix[0] == "IOther" else "series")
            return self.index_panel(v, ix, scope, e, elems, env)
        if v.k == "PLIST":
            ix, scope = self.classify(elems, env, e)
            if scope is None and len(ix) == 1 and ix[0] in ("IInt", "IUnk"):
                return panel(v.raw, v.iax or 0, v.nd, v.cont)
            raise Reject("L%d: subscript of a list of panels" % e.lineno)
        if v.k == "TUP":
            c = _const_int(elems[0]) if len(elems) == 1 else None
            if c is not None and -len(v.elts) <= c < len(v.elts):
                return v.elts[c]
            raise Reject("L%d: subscript of a tuple of panels" % e.lineno)
        if v.k == "ROW":
            ix, scope = self.classify(elems, env, e)
            if scope is not None:
                raise Reject("L%d: the row index selects inside a row (position-dependent)"
                             % e.lineno)
            return v
        if v.k in ("P", "SELF", "EXT"):
            ix, scope = self.classify(elems, env, e)
            if scope is not None:
                raise Reject("L%d: a batch-independent sequence is indexed by the row index "
                             "(position-dependent)" % e.lineno)
            vals = [self.ev(el, env) for el in elems if not isinstance(el, ast.Slice)]
            return self.opaque([P] + vals, e, "subscript")
        if v.k == "B":
            return B
        raise Reject("L%d: subscript of a %s value" % (e.lineno, v.k))

    # ---------- comprehensions / iteration ----------
    def iter_kind(self, it, env, node):
        """classify an iterable -> ("rows", setup) | ("plain", element Val) | ("plist", Val)
        setup(scope, target, env) binds the loop targets for a row loop"""
        # range(...)
        if isinstance(it, ast.Call) and isinstance(it.func, ast.Name) \
                and it.func.id in ("range", "prange") and not it.keywords:
            args = [self.ev(a, env) for a in it.args]
            if len(args) == 1 and args[0].k == "N" or \
                    len(args) == 2 and _const_int(it.args[0]) == 0 and args[1].k == "N":
                def setup(scope, target, env2):
                    if not isinstance(target, ast.Name):
                        raise Reject("L%d: row loop target" % node.lineno)
                    env2[target.id] = Val("IDX", scope=scope)
                return "rows", setup
            if any(a.k in ("N", "SHAPE") for a in args):
                raise Reject("L%d: a loop whose bounds depend on the number of instances other "
                             "than range(n)" % node.lineno)
            return "plain", self.opaque(args, node, "range")
        if isinstance(it, ast.Call) and isinstance(it.func, ast.Name) and it.func.id == "enumerate" \
                and len(it.args) == 1 and not it.keywords:
            kind, inner = self.iter_kind(it.args[0], env, node)
            if kind == "rows":
                def setup(scope, target, env2):
                    if not (isinstance(target, ast.Tuple) and len(target.elts) == 2
                            and isinstance(target.elts[0], ast.Name)):
                        raise Reject("L%d: enumerate target" % node.lineno)
                    env2[target.elts[0].id] = Val("IDX", scope=scope)
                    inner(scope, target.elts[1], env2)
                return "rows", setup
            if kind == "plain":
                return "plain", Val("TUP", elts=[P if inner.k != "B" else B, inner])
            if kind == "unroll":
                return "unroll", [Val("TUP", elts=[P, x]) for x in inner]
            return "plist", Val("TUP", elts=[P, inner])
        if isinstance(it, ast.Call) and isinstance(it.func, ast.Name) and it.func.id == "zip" \
                and not it.keywords and it.args and not any(isinstance(a, ast.Starred)
                                                            for a in it.args):
            # an argument that just counts the rows (range(n), itertools.count()) is the row index
            def counts_rows(a):
                if not isinstance(a, ast.Call) or a.keywords:
                    return False
                fn = _fname(a.func)
                if fn in ("count", "itertools.count"):
                    return not a.args or (len(a.args) == 1 and _const_int(a.args[0]) == 0)
                if fn in ("range", "prange"):
                    av = [self.ev(x, env) for x in a.args]
                    return (len(av) == 1 and av[0].k == "N") or \
                        (len(av) == 2 and _const_int(a.args[0]) == 0 and av[1].k == "N")
                return False
            idx_pos = [j for j, a in enumerate(it.args) if counts_rows(a)]
            vals = [None if j in idx_pos else self.ev(a, env) for j, a in enumerate(it.args)]
            real = [v for v in vals if v is not None]
            if any(v.k == "PANEL" for v in real):
                if not all(v.k == "PANEL" and v.iax == 0 for v in real):
                    raise Reject("L%d: rows zipped with a batch-independent sequence "
                                 "(position-dependent)" % node.lineno)

                def setup(scope, target, env2):
                    if not (isinstance(target, ast.Tuple) and len(target.elts) == len(vals)):
                        raise Reject("L%d: zip target" % node.lineno)
                    for t, v in zip(target.elts, vals):
                        if v is None:
                            if not isinstance(t, ast.Name):
                                raise Reject("L%d: zip target" % node.lineno)
                            env2[t.id] = Val("IDX", scope=scope)
                        else:
                            scope.access(v.raw, ["IIdx"])
                            self.bind(t, row(scope), env2, node)
                return "rows", setup
            if idx_pos:
                raise Reject("L%d: a row counter zipped with batch-independent sequences"
                             % node.lineno)
            return "plain", Val("TUP", elts=[self.elem_of(v, node) for v in vals])
        v = self.ev(it, env)
        if v.k == "PANEL":
            if v.iax != 0:
                raise Reject("L%d: iteration over an array whose first axis is not the instance "
                             "axis" % node.lineno)

            def setup(scope, target, env2):
                scope.access(v.raw, ["IIdx"])
                self.bind(target, row(scope), env2, node)
            return "rows", setup
        if v.k == "PLIST":
            return "plist", panel(v.raw, v.iax or 0, v.nd, v.cont)
        if v.k == "TUP" and self.has_panel(v.elts):
            # a literal tuple / list holding panels: the loop is unrolled over its elements
            return "unroll", list(v.elts)
        return "plain", self.elem_of(v, node)

    def elem_of(self, v, node):
        if v.k in ("P", "SELF", "EXT", "EMPTYLIST"):
            return P
        if v.k == "ROW":
            return v
        if v.k == "B":
            return B
        if v.k == "TUP":
            return self.opaque(v.elts, node, "iteration")
        if v.k == "METH" and v.base.k in ("P", "ROW", "B"):
            return self.elem_of(v.base, node)
        raise Reject("L%d: iteration over a %s value" % (node.lineno, v.k))

    def bind(self, target, val, env, node):
        if isinstance(target, ast.Name):
            sc = self.cur()
            if sc is not None and val.k in ("EMPTYLIST", "EMPTYFRAME"):
                val = row(sc)           # a container created for this row only
            env[target.id] = val
            if sc is not None:
                sc.local.add(target.id)
            return
        if isinstance(target, (ast.Tuple, ast.List)) and \
                sum(isinstance(t, ast.Starred) for t in target.elts) == 1:
            j = [isinstance(t, ast.Starred) for t in target.elts].index(True)
            before, star, after = target.elts[:j], target.elts[j].value, target.elts[j + 1:]
            if val.k in ("P", "ROW", "B", "SELF", "EXT"):
                for t in before + [star] + after:
                    self.bind(t, P if val.k in ("SELF", "EXT") else val, env, node)
                return
            if val.k == "SHAPE" and val.dims is not None \
                    and len(val.dims) >= len(before) + len(after):
                dims = val.dims
                for t, d in zip(before, dims):
                    self.bind(t, N if d == "DN" else P, env, node)
                mid = dims[len(before):len(dims) - len(after)]
                self.bind(star, P if "DN" not in mid else Val("SHAPE", dims=mid), env, node)
                for t, d in zip(after, dims[len(dims) - len(after):] if after else []):
                    self.bind(t, N if d == "DN" else P, env, node)
                return
            if val.k == "SHAPE" and val.dims is None and val.iax == 0 and len(before) >= 1:
                self.bind(before[0], N, env, node)
                for t in before[1:] + [star] + after:
                    self.bind(t, P, env, node)
                return
            raise Reject("L%d: star-unpacking a %s value" % (node.lineno, val.k))
        if isinstance(target, (ast.Tuple, ast.List)):
            n = len(target.elts)
            if val.k == "TUP":
                if len(val.elts) != n:
                    raise Reject("L%d: unpacking arity" % node.lineno)
                for t, v in zip(target.elts, val.elts):
                    self.bind(t, v, env, node)
                return
            if val.k == "SHAPE":
                dims = val.dims
                if dims is None:
                    dims = ["DN" if j == val.iax else "DP" for j in range(n)]
                if len(dims) != n:
                    raise Reject("L%d: shape unpacking arity" % node.lineno)
                for t, d in zip(target.elts, dims):
                    self.bind(t, N if d == "DN" else P, env, node)
                return
            if val.k in ("P", "ROW", "B", "SELF", "EXT"):
                for t in target.elts:
                    self.bind(t, P if val.k in ("SELF", "EXT") else val, env, node)
                return
            raise Reject("L%d: unpacking a %s value" % (node.lineno, val.k))
        raise Reject("L%d: binding target %s" % (node.lineno, type(target).__name__))

    def new_scope(self, node):
        self.nsid += 1
        return Scope(self.nsid, getattr(node, "lineno", 0))

    def comprehension(self, e, elt, env):
        if len(e.generators) != 1:
            raise Reject("L%d: nested comprehension generators" % e.lineno)
        g = e.generators[0]
        kind, info = self.iter_kind(g.iter, env, e)
        inner = dict(env)
        if kind == "rows":
            if g.ifs:
                raise Reject("L%d: rows are filtered" % e.lineno)
            scope = self.new_scope(e)
            self.scopes.append(scope)
            try:
                info(scope, g.target, inner)
                v = self.ev(elt, inner)
                if v.k == "TUP":
                    v = self.opaque(v.elts, e, "row tuple")
                if v.k not in ("ROW", "P"):
                    raise Reject("L%d: the element of a row comprehension is a %s value" % (
                        e.lineno, v.k))
            finally:
                self.scopes.pop()
            return panel(("RMapRows", self.sym(e, "comp"), scope.srcs, scope.ixs), 0, None, "list")
        if kind == "unroll":
            if g.ifs:
                raise Reject("L%d: filter over a tuple of panels" % e.lineno)
            outs = []
            for x in info:
                innerx = dict(env)
                self.bind(g.target, x, innerx, e)
                outs.append(self.ev(elt, innerx))
            if self.has_panel(outs):
                return Val("TUP", elts=outs)
            return self.opaque(outs, e, "comprehension")
        self.bind(g.target, info, inner, e)
        for c in g.ifs:
            cv = self.ev(c, inner)
            if cv.k not in ("P", "ROW"):
                raise Reject("L%d: comprehension filter of kind %s" % (e.lineno, cv.k))
        v = self.ev(elt, inner)
        if v.k == "PANEL":
            return Val("PLIST", raw=v.raw, iax=v.iax, nd=v.nd, cont=v.cont)
        if v.k == "PLIST":
            raise Reject("L%d: list of lists of panels" % e.lineno)
        out = self.opaque([v, info] + [self.ev(c, inner) for c in g.ifs], e, "comprehension")
        return out

    def ev_ListComp(self, e, env):
        return self.comprehension(e, e.elt, env)

    def ev_GeneratorExp(self, e, env):
        return self.comprehension(e, e.elt, env)

    def ev_SetComp(self, e, env):
        v = self.comprehension(e, e.elt, env)
        if v.k == "PANEL":
            return B
        return v

    def ev_DictComp(self, e, env):
        v = self.comprehension(e, ast.Tuple(elts=[e.key, e.value], ctx=ast.Load(),
                                            lineno=e.lineno, col_offset=0), env)
        if v.k == "PANEL":
            return B
        return v

    # ---------- calls ----------
    def has_panel(self, vals):
        for v in vals:
            if v.k in ("PANEL", "PLIST", "PANELT", "UNZIP"):
                return True
            if v.k == "TUP" and self.has_panel(v.elts):
                return True
        return False

    def needs_inline(self, vals):
        for v in vals:
            if v.k in ("PANEL", "PLIST", "PANELT", "N", "IDX", "SHAPE", "UNZIP"):
                return True
            if v.k == "TUP" and self.needs_inline(v.elts):
                return True
        return False

    def root_name(self, e):
        while isinstance(e, (ast.Attribute, ast.Subscript, ast.Call)):
            e = e.func if isinstance(e, ast.Call) else e.value
        return e.id if isinstance(e, ast.Name) else None

    def is_local(self, e):
        sc = self.cur()
        n = self.root_name(e)
        return sc is not None and n is not None and n in sc.local

    def kwconst(self, e, name, default=None):
        for k in e.keywords:
            if k.arg == name:
                c = _const_int(k.value)
                if c is None and isinstance(k.value, ast.Constant):
                    return k.value.value
                if c is None:
                    raise Reject("L%d: %s= is not a literal" % (e.lineno, name))
                return c
        return default

    def ev_Call(self, e, env):
        f = e.func
        if self.cur() is not None and not (isinstance(f, ast.Attribute)
                                           and isinstance(f.value, ast.Name)
                                           and f.value.id in self.mod.modnames):
            for k in e.keywords:
                if k.arg == "out" and not self.is_local(k.value):
                    raise Reject("L%d: out= writes into a buffer that outlives the row iteration"
                                 % e.lineno)
        if any(k.arg is None for k in e.keywords):
            vals = [self.ev(k.value, env) for k in e.keywords if k.arg is None]
            if any(v.k != "P" for v in vals):
                raise Reject("L%d: **kwargs carrying batch data" % e.lineno)
        # Parallel(..)(<generator>)
        if isinstance(f, ast.Call) and _fname(f.func).split(".")[-1] == "Parallel":
            if len(e.args) == 1 and isinstance(e.args[0], (ast.GeneratorExp, ast.ListComp)):
                for k in f.keywords:
                    if self.ev(k.value, env).k not in ("P", "SELF"):
                        raise Reject("L%d: Parallel keyword reads the batch" % e.lineno)
                return self.comprehension(e.args[0], e.args[0].elt, env)
            raise Reject("L%d: Parallel call shape" % e.lineno)
        # delayed(f)(args)  ==  f(args)
        if isinstance(f, ast.Call) and isinstance(f.func, ast.Name) and f.func.id == "delayed" \
                and len(f.args) == 1 and not f.keywords:
            e2 = ast.Call(func=f.args[0], args=e.args, keywords=e.keywords)
            ast.copy_location(e2, e)
            return self.ev_Call(e2, env)
        if isinstance(f, ast.Name):
            return self.call_name(f.id, e, env)
        if isinstance(f, ast.Attribute):
            return self.call_attr(f, e, env)
        fv = self.ev(f, env)
        vals = self.argvals(e, env)
        if self.has_panel(vals):
            raise Reject("L%d: call of a computed function with a panel" % e.lineno)
        return self.opaque([fv] + vals, e)

    def argvals(self, e, env):
        out = []
        for a in e.args:
            if isinstance(a, ast.Starred):
                v = self.ev(a.value, env)
                if v.k not in ("P", "ROW", "SELF"):
                    raise Reject("L%d: *%s argument" % (e.lineno, v.k))
                out.append(v)
            else:
                out.append(self.ev(a, env))
        for k in e.keywords:
            if k.arg is not None:
                out.append(self.ev(k.value, env))
        return out

    def convert(self, conv, nd, cont, v, e):
        if v.k != "PANEL":
            if v.k in ("P", "ROW", "B"):
                return v
            raise Reject("L%d: container conversion of a %s value" % (e.lineno, v.k))
        if v.iax != 0:
            raise Reject("L%d: container conversion of a transposed panel" % e.lineno)
        return panel(("RConv", conv, v.raw), 0, nd if nd != "same" else v.nd, cont)

    def call_name(self, name, e, env):
        if name == "len" and len(e.args) == 1 and not e.keywords:
            v = self.ev(e.args[0], env)
            if v.k == "PANEL":
                if v.iax != 0:
                    raise Reject("L%d: len of a transposed panel" % e.lineno)
                return N
            if v.k in ("PLIST", "EMPTYLIST", "SHAPE", "TUP"):
                return P
            return self.opaque([v], e, "len")
        if name == "zip" and len(e.args) == 1 and isinstance(e.args[0], ast.Starred):
            v = self.ev(e.args[0].value, env)
            if v.k == "PANEL" and v.iax == 0:
                return Val("UNZIP", base=v, label=self.sym(e, "unzip"))
            raise Reject("L%d: zip(*%s)" % (e.lineno, v.k))
        if name in ("list", "tuple") and len(e.args) == 1 and not e.keywords:
            v = self.ev(e.args[0], env)
            if v.k == "PANEL":
                return panel(v.raw, v.iax, v.nd, "list", v.member_out)
            if v.k == "PLIST":
                return v
            return self.opaque([v], e, name)
        if name in ("list", "dict", "set", "tuple") and not e.args and not e.keywords:
            return Val("EMPTYLIST") if name == "list" else P
        if name == "check_X":
            v = self.ev(e.args[0], env)
            to_np = to_pd = False
            for k in e.keywords:
                if k.arg in ("coerce_to_numpy", "coerce_to_pandas"):
                    if not (isinstance(k.value, ast.Constant) and isinstance(k.value.value, bool)):
                        raise Reject("L%d: check_X coercion flag is not a literal" % e.lineno)
                    if k.arg == "coerce_to_numpy":
                        to_np = k.value.value
                    else:
                        to_pd = k.value.value
                elif self.ev(k.value, env).k not in ("P", "SELF"):
                    raise Reject("L%d: check_X keyword reads the batch" % e.lineno)
            return self.convert(("CCheckX", to_np, to_pd), 3 if to_np else ("same" if not to_pd else None),
                                "array" if to_np else ("frame" if to_pd else None), v, e)
        if name in CONVERSIONS:
            conv, nd, cont = CONVERSIONS[name]
            v = self.ev(e.args[0], env)
            for a in e.args[1:]:
                if self.ev(a, env).k not in ("P", "SELF"):
                    raise Reject("L%d: conversion argument reads the batch" % e.lineno)
            for k in e.keywords:
                if self.ev(k.value, env).k not in ("P", "SELF"):
                    raise Reject("L%d: conversion keyword reads the batch" % e.lineno)
                if k.arg == "return_numpy" and isinstance(k.value, ast.Constant) and k.value.value:
                    cont = "array"
            return self.convert((conv,), nd, cont, v, e)
        if name in RNG_MAKERS:
            vals = self.argvals(e, env)
            self.opaque(vals, e)
            return Val("RNG", scope=self.cur())
        if name in ("clone", "deepcopy", "copy") and self.cur() is not None:
            v = self.opaque(self.argvals(e, env), e)
            return row(self.cur()) if v.k == "P" else v      # a fresh object for this row
        fv = self.lookup(name, env, e)
        vals = self.argvals(e, env)
        if fv.k == "FN":
            return self.call_fn(fv, e, env)
        if name in PURE_BUILTINS or fv.k in ("EXT", "P", "MOD"):
            if fv.k in ("P", "EXT") and name not in PURE_BUILTINS and e.args and not \
                    isinstance(e.args[0], ast.Starred):
                first = self.ev(e.args[0], env)
                if first.k in ("PANEL", "PLIST") and any(k.arg == "axis" for k in e.keywords):
                    rest = [self.ev(a, env) for a in e.args[1:]] + \
                        [self.ev(k.value, env) for k in e.keywords]
                    if any(v.k not in ("P", "SELF") for v in rest):
                        raise Reject("L%d: %s with a second batch argument" % (e.lineno, name))
                    red = True if name in REDUCERS else (False if name in KEEPERS else None)
                    return self.axis_result(name, self.as_array(first, e), self.kwconst(e, "axis"),
                                            red, e, bool(self.kwconst(e, "keepdims", False)))
            if self.has_panel(vals) or any(v.k in ("N", "SHAPE") for v in vals):
                if name in ("isinstance", "type", "hasattr"):
                    return P
                return B if name in PURE_BUILTINS else self.reject_panel_call(name, e)
            if any(v.k == "IDX" for v in vals):
                raise Reject("L%d: the row index is passed to %s" % (e.lineno, name))
            return self.opaque(vals, e)
        raise Reject("L%d: call of %s (%s)" % (e.lineno, name, fv.k))

    def reject_panel_call(self, name, e):
        raise Reject("L%d: %s is applied to a whole panel and has no rule" % (e.lineno, name))

    def call_fn(self, fv, e, env):
        """a function whose definition is indexed: inline when it receives batch-level values"""
        m, cls, node = fv.fn
        vals = self.argvals(e, env)
        closure = fv.base if isinstance(fv.base, dict) else None
        if not self.needs_inline(vals) and closure is None:
            bad = _stores_to_self(node)
            if bad and fv.base is SELF:
                raise Reject("L%d: %s mutates %s" % (e.lineno, fv.label, bad))
            return self.opaque(vals, e)
        if self.depth >= 6:
            raise Reject("L%d: call depth" % e.lineno)
        params = [a.arg for a in node.args.args]
        is_static = any(isinstance(d, ast.Name) and d.id in ("staticmethod", "njit", "jit")
                        or isinstance(d, ast.Call) and _fname(d.func).split(".")[-1] in ("njit", "jit")
                        for d in node.decorator_list)
        is_staticmethod = any(isinstance(d, ast.Name) and d.id == "staticmethod"
                              for d in node.decorator_list)
        env2 = dict(closure) if closure is not None else {}
        if cls is not None and not is_staticmethod and params and params[0] == "self":
            env2["self"] = SELF
            params = params[1:]
        if node.args.vararg or node.args.kwarg or node.args.kwonlyargs:
            raise Reject("L%d: callee %s has *args / **kwargs" % (e.lineno, node.name))
        for pn in params:
            env2[pn] = P            # defaults are constants
        pos = []
        for a in e.args:
            if isinstance(a, ast.Starred):
                raise Reject("L%d: starred argument to an inlined callee" % e.lineno)
            pos.append(self.ev(a, env))
        if len(pos) > len(params):
            raise Reject("L%d: arity of %s" % (e.lineno, node.name))
        for pn, v in zip(params, pos):
            env2[pn] = v
        for k in e.keywords:
            if k.arg not in params:
                raise Reject("L%d: keyword %s of %s" % (e.lineno, k.arg, node.name))
            env2[k.arg] = self.ev(k.value, env)
        bad = _stores_to_self(node)
        if bad and "self" in env2 and env2["self"] is SELF:
            raise Reject("L%d: %s mutates %s" % (node.lineno, node.name, bad))
        saved_mod = self.mod
        self.mod = m
        self.depth += 1
        failed = None
        try:
            rets = self.run_body(node.body, env2)
        except Reject as r:
            failed = r
        finally:
            self.mod = saved_mod
            self.depth -= 1
        if failed is not None:
            # a utility of another (not anchored) module whose body is not in the subset, called
            # with a literal axis=: the same trust as for numpy's own functions
            if not self.index.anchored(m) and "axis" in params and pos \
                    and pos[0].k in ("PANEL", "PLIST") \
                    and any(k.arg == "axis" for k in e.keywords) \
                    and all(v.k in ("P", "SELF") for v in pos[1:]):
                red = True if node.name in REDUCERS else (False if node.name in KEEPERS else None)
                return self.axis_result(node.name, self.as_array(pos[0], e),
                                        self.kwconst(e, "axis"), red, e)
            raise failed
        if not rets:
            return P
        out = rets[0]
        for r in rets[1:]:
            out = self.join(out, r, e)
        return out

    def axis_result(self, name, operand, axis, red, e, keepdims=False):
        """operand: PANEL val; -> PANEL val with RAxisOp"""
        iax, nd = operand.iax, operand.nd
        k = axis
        if k < 0:
            if nd is None:
                raise Reject("L%d: negative axis on an array of unknown rank" % e.lineno)
            k = nd + k
        if k == iax:
            raise Reject("L%d: %s along the instance axis (a batch statistic)" % (e.lineno, name))
        if keepdims and red:
            red = False
        if red is True:
            niax, nnd = (iax - 1 if k < iax else iax), (None if nd is None else nd - 1)
        elif red is False:
            niax, nnd = iax, nd
        else:
            if k < iax:
                raise Reject("L%d: cannot track the instance axis through %s" % (e.lineno, name))
            niax, nnd = iax, None
        return panel(("RAxisOp", self.sym(e, name), axis, red, operand.raw), niax, nnd, "array")

    def as_array(self, v, e):
        """PANEL | PLIST | TUP of panels -> PANEL in the array view"""
        if v.k == "PANEL":
            return v
        if v.k == "PLIST":
            return panel(("RListOf", v.raw), (v.iax or 0) + 1, None if v.nd is None else v.nd + 1,
                         "array")
        raise Reject("L%d: a %s value where an array of rows is needed" % (e.lineno, v.k))

    def call_module(self, label, name, e, env):
        vals = [self.ev(a, env) for a in e.args if not isinstance(a, ast.Starred)]
        if any(isinstance(a, ast.Starred) for a in e.args):
            raise Reject("L%d: starred argument" % e.lineno)
        kws = {k.arg: k.value for k in e.keywords if k.arg is not None}
        kwvals = {k: self.ev(v, env) for k, v in kws.items()}
        allv = vals + list(kwvals.values())
        top = label.split(".")[0]
        # writes into an existing array (np.copyto(buf, ..), out=buf): only into an object created in
        # the current row iteration - a buffer that outlives the row carries one row into the next
        targets = []
        if name in INPLACE_FUNCS and e.args:
            targets.append(e.args[0])
        if "out" in kws:
            targets.append(kws["out"])
        for tg in targets:
            tv = self.ev(tg, env)
            if self.cur() is not None:
                if not self.is_local(tg):
                    raise Reject("L%d: %s writes into %s, a buffer that outlives the row iteration "
                                 "(state shared between rows)" % (e.lineno, name, _fname(tg)))
            elif tv.k not in ("P",) or self.root_name(tg) in (None, "self"):
                raise Reject("L%d: %s writes into a %s value" % (e.lineno, name, tv.k))
        if not self.has_panel(allv):
            if name == "DataFrame" and top == "pandas" and not allv:
                return Val("EMPTYFRAME")
            if name in ALLOCATORS and allv:
                s = vals[0] if vals else kwvals.get("shape")
                if s is not None and s.k == "N":
                    s = Val("SHAPE", dims=["DN"])
                if s is not None and s.k == "SHAPE":
                    if s.dims is None:
                        raise Reject("L%d: allocation with a shape of unknown rank" % e.lineno)
                    if s.dims.count("DN") != 1:
                        raise Reject("L%d: allocation shape must carry the number of instances "
                                     "exactly once" % e.lineno)
                    return panel(("RAlloc", list(s.dims), self.sym(e, name)), s.dims.index("DN"),
                                 len(s.dims), "array")
            if any(v.k in ("N", "SHAPE") for v in allv):
                return B
            if any(v.k == "IDX" for v in allv):
                raise Reject("L%d: the row index is passed to %s" % (e.lineno, name))
            if name in RNG_MAKERS:
                self.opaque(allv, e)
                return Val("RNG", scope=self.cur())
            if "random" in label.split("."):
                raise Reject("L%d: the global random state is used at apply time" % e.lineno)
            return self.opaque(allv, e)
        # ---- a panel is among the arguments
        first = vals[0] if vals else None
        rest = vals[1:] + [v for k, v in kwvals.items() if k not in ("data", "arr")]
        if name in ("DataFrame", "Series") and top == "pandas":
            src = first if first is not None else kwvals.get("data")
            if src is None or src.k != "PANEL":
                raise Reject("L%d: pd.%s of a %s value" % (e.lineno, name,
                                                           src.k if src else "?"))
            others = vals[1:] + [v for k, v in kwvals.items() if k != "data"]
            if any(v.k not in ("P", "SELF") for v in others):
                raise Reject("L%d: pd.%s keyword reads the batch" % (e.lineno, name))
            return self.convert(("CFrame",) if name == "DataFrame" else ("CSeries",), None,
                                "frame" if name == "DataFrame" else "series", src, e)
        if name in ("asarray", "array", "stack") and first is not None:
            if any(v.k not in ("P", "SELF") for v in rest):
                raise Reject("L%d: np.%s keyword reads the batch" % (e.lineno, name))
            if name == "stack" and self.kwconst(e, "axis", 0) != 0:
                raise Reject("L%d: np.stack with an axis" % e.lineno)
            if first.k == "PANEL":
                return self.convert(("CArray",), "same", "array", first, e)
            return self.as_array(first, e)
        if name in ("concatenate", "hstack", "column_stack", "concat") and first is not None:
            axis = self.kwconst(e, "axis", {"concatenate": 0, "concat": 0}.get(name, 1))
            if any(v.k not in ("P", "SELF") for v in rest if v is not kwvals.get("axis")):
                raise Reject("L%d: %s keyword reads the batch" % (e.lineno, name))
            if first.k == "TUP":
                if not all(v.k == "PANEL" for v in first.elts):
                    raise Reject("L%d: %s of panels and other values" % (e.lineno, name))
                iaxs = set(v.iax for v in first.elts)
                if len(iaxs) != 1 or axis == first.elts[0].iax:
                    raise Reject("L%d: concatenation along the instance axis" % e.lineno)
                p0 = first.elts[0]
                return panel(("RConcat", axis, [v.raw for v in first.elts]), p0.iax, p0.nd, p0.cont)
            if first.k == "PLIST":
                if axis == (first.iax or 0):
                    raise Reject("L%d: concatenation along the instance axis" % e.lineno)
                return panel(("RConcatList", axis, first.raw), first.iax or 0, first.nd,
                             "frame" if name == "concat" else "array")
            raise Reject("L%d: %s of a %s value" % (e.lineno, name, first.k))
        if name == "reshape" and len(vals) == 2 and first.k == "PANEL" and vals[1].k == "SHAPE" \
                and vals[1].dims:
            return panel(("RReshape", list(vals[1].dims), first.raw), 0, len(vals[1].dims), "array")
        if name == "apply_along_axis":
            arr = kwvals.get("arr") or (vals[2] if len(vals) > 2 else None)
            axis = self.kwconst(e, "axis")
            if arr is None or arr.k != "PANEL" or axis is None:
                raise Reject("L%d: apply_along_axis shape" % e.lineno)
            return self.axis_result(name, arr, axis, None, e)
        if name == "periodogram" and first is not None and first.k == "PANEL" and not rest:
            return Val("TUP", elts=[P, self.axis_result(name, first, -1, False, e)])
        if name in ELEMENTWISE:
            pans = [v for v in allv if v.k == "PANEL"]
            if any(v.k not in ("PANEL", "P", "SELF") for v in allv) or \
                    len(set(p.iax for p in pans)) != 1:
                raise Reject("L%d: np.%s of mixed values" % (e.lineno, name))
            return panel(("RElem", self.sym(e, name), [p.raw for p in pans]), pans[0].iax,
                         pans[0].nd, pans[0].cont)
        if first is not None and first.k in ("PANEL", "PLIST"):
            if any(v.k not in ("P", "SELF") for v in rest):
                raise Reject("L%d: %s with a second batch argument" % (e.lineno, name))
            axis = self.kwconst(e, "axis")
            if axis is None and name == "diff":
                axis = -1
            if axis is None:
                if name in REDUCERS or name in KEEPERS:
                    return B        # a statistic of the whole batch / default axis 0
                raise Reject("L%d: %s is applied to a whole panel and has no rule" % (e.lineno, name))
            red = True if name in REDUCERS else (False if name in KEEPERS else None)
            keep = bool(self.kwconst(e, "keepdims", False))
            return self.axis_result(name, self.as_array(first, e), axis, red, e, keep)
        raise Reject("L%d: %s.%s is applied to a panel and has no rule" % (e.lineno, label, name))

    def call_panel_method(self, p, name, e, env):
        vals = self.argvals(e, env)
        if p.k == "PANELT":
            if name == "transpose" and not vals:
                return panel(p.raw, 0, None, "frame")
            raise Reject("L%d: .%s of a column-per-instance frame" % (e.lineno, name))
        if any(v.k not in ("P", "SELF", "N", "SHAPE", "FN", "EXT", "MOD") for v in vals):
            raise Reject("L%d: .%s with a batch argument" % (e.lineno, name))
        if name in ("astype", "copy", "to_numpy", "to_frame", "fillna", "round", "tolist",
                    "infer_objects"):
            if any(v.k in ("N", "SHAPE") for v in vals):
                raise Reject("L%d: .%s argument" % (e.lineno, name))
            return panel(p.raw, p.iax, p.nd, "list" if name == "tolist" else p.cont, p.member_out)
        if name == "reset_index":
            if self.kwconst(e, "drop", False) is not True:
                raise Reject("L%d: reset_index without drop=True" % e.lineno)
            return p
        if name == "squeeze":
            axis = _const_int(e.args[0]) if e.args else self.kwconst(e, "axis")
            if axis is None:
                raise Reject("L%d: squeeze() without an axis also removes the instance axis of a "
                             "single-instance batch" % e.lineno)
            k = axis if axis >= 0 or p.nd is None else p.nd + axis
            if k < 0 or k == p.iax:
                raise Reject("L%d: squeeze of the instance axis" % e.lineno)
            return panel(("RSqueeze", axis, p.raw), p.iax - 1 if k < p.iax else p.iax,
                         None if p.nd is None else p.nd - 1, p.cont)
        if name == "transpose" and not vals:
            return self.transpose(p, e)
        if name in REDUCERS or name in KEEPERS:
            axis = self.kwconst(e, "axis")
            if axis is None and e.args:
                axis = _const_int(e.args[0])
            if axis is None:
                return B
            red = name in REDUCERS
            return self.axis_result(name, p, axis, red, e, bool(self.kwconst(e, "keepdims", False)))
        if name == "reshape":
            dims = []
            args = e.args[0].elts if len(e.args) == 1 and isinstance(e.args[0], (ast.Tuple, ast.List)) \
                else e.args
            for a in args:
                v = self.ev(a, env)
                dims.append("DN" if v.k == "N" else "DP")
                if v.k not in ("N", "P", "SELF"):
                    raise Reject("L%d: reshape dimension" % e.lineno)
            return panel(("RReshape", dims, p.raw), 0, len(dims), "array")
        if name == "applymap" and len(e.args) == 1:
            return panel(("RMapRows", self.sym(e, "applymap"), [p.raw], [["IIdx"]]), 0, None, p.cont)
        if name == "apply" and len(e.args) == 1:
            axis = self.kwconst(e, "axis", 0)
            fv = self.ev(e.args[0], env)
            if p.cont == "series" or axis == 1:
                if fv.k not in ("P", "FN", "EXT"):
                    raise Reject("L%d: apply of a %s function" % (e.lineno, fv.k))
                if fv.k == "FN" and fv.base is SELF and _stores_to_self(fv.fn[2]):
                    raise Reject("L%d: %s mutates self" % (e.lineno, fv.label))
                return panel(("RMapRows", self.sym(e, "apply"), [p.raw], [["IIdx"]]), 0, None, p.cont)
            if p.cont == "frame" and fv.k == "FN":
                col = panel(("RIndex", ["IFull", "IUnk"], p.raw), 0, None, "series")
                call = ast.Call(func=e.args[0], args=[ast.Name(id="__col__", ctx=ast.Load())],
                                keywords=[])
                ast.copy_location(call, e)
                ast.fix_missing_locations(call)
                env2 = dict(env)
                env2["__col__"] = col
                r = self.call_fn(fv, call, env2)
                if r.k != "PANEL" or r.iax != 0:
                    raise Reject("L%d: column function does not return a row-aligned column" % e.lineno)
                return panel(("RConcatList", 1, r.raw), 0, None, "frame")
            raise Reject("L%d: .apply on a %s container" % (e.lineno, p.cont))
        raise Reject("L%d: method .%s of a panel has no rule" % (e.lineno, name))

    def call_attr(self, f, e, env):
        name = f.attr
        rv = self.ev(f.value, env)
        if rv.k == "MOD":
            return self.call_module(rv.label or "", name, e, env)
        if rv.k in ("PANEL", "PANELT"):
            return self.call_panel_method(rv, name, e, env)
        if rv.k == "ILOC":
            raise Reject("L%d: call on .iloc" % e.lineno)
        vals = self.argvals(e, env)
        recv_text = _fname(f.value)
        if rv.k == "SELF":
            fn = self.index.find_method(self.clsmod, self.cls, name) if self.cls is not None else None
            if name in METHODS + ("decision_function",) and self.has_panel(vals):
                pans = [v for v in vals if v.k == "PANEL"]
                if len(pans) != 1 or pans[0].iax != 0 or len(vals) != 1:
                    raise Reject("L%d: self.%s argument shape" % (e.lineno, name))
                self.deps.add(name)
                out = panel(("RMember", "self." + name, pans[0].raw), 0, None, None, True)
                out.label = "self." + name
                return out
            if fn is not None:
                return self.call_fn(Val("FN", fn=fn, label="self." + name, base=SELF), e, env)
            if self.needs_inline(vals):
                raise Reject("L%d: self.%s is not defined in the scanned sources and receives "
                             "batch data" % (e.lineno, name))
            return self.opaque(vals, e)
        if rv.k == "RNG":
            if rv.scope is not self.cur():
                raise Reject("L%d: a random generator created outside the row scope is used in "
                             "it (draws depend on the row position)" % e.lineno)
            v = self.opaque(vals, e)
            return v if v.k != "P" or self.cur() is None else row(self.cur())
        if rv.k == "B":
            return B
        if rv.k == "ROW":
            return self.opaque([rv] + vals, e)
        if rv.k in ("P", "EXT", "FN", "EMPTYLIST", "TUP", "SHAPE", "PLIST", "EMPTYFRAME"):
            if self.has_panel(vals):
                pans = [v for v in vals if v.k == "PANEL"]
                if rv.k == "P" and name in MEMBER_METHODS and len(pans) == 1 and pans[0].iax == 0 \
                        and self.root_name(f.value) != "super" \
                        and all(v.k in ("P", "SELF") for v in vals if v is not pans[0]):
                    symb = "%s.%s" % (recv_text, name)
                    out = panel(("RMember", symb, pans[0].raw), 0, None, None, True)
                    out.label = symb
                    self.assumptions.append("fitted member %s is row-wise" % symb)
                    return out
                raise Reject("L%d: %s.%s receives a panel and has no rule" % (e.lineno, recv_text, name))
            if rv.k in ("EMPTYLIST", "PLIST", "EMPTYFRAME"):
                raise Reject("L%d: .%s of an accumulator in an expression" % (e.lineno, name))
            if any(v.k in ("N", "SHAPE") for v in vals):
                return B
            if any(v.k == "IDX" for v in vals):
                raise Reject("L%d: the row index is passed to %s.%s" % (e.lineno, recv_text, name))
            if name in MUTATORS and rv.k in ("P", "EXT") and not self.is_local(f.value) \
                    and self.root_name(f.value) is not None:
                rn = self.root_name(f.value)
                if rn == "self" or self.cur() is not None:
                    raise Reject("L%d: %s.%s() mutates an object that outlives the row"
                                 % (e.lineno, recv_text, name))
            return self.opaque([rv if rv.k != "TUP" else P] + vals, e)
        raise Reject("L%d: method .%s of a %s value" % (e.lineno, name, rv.k))

    # ---------- statements ----------
    def run_body(self, stmts, env):
        self.retstack.append([])
        saved_loops = self.loops
        self.loops = []
        try:
            self.block(stmts, env)
        finally:
            rets = self.retstack.pop()
            self.loops = saved_loops
        return rets

    def block(self, stmts, env):
        """-> True when every path through the block returns / raises"""
        for st in stmts:
            if self.stmt(st, env):
                return True
        return False

    def stmt(self, st, env):
        m = getattr(self, "st_" + type(st).__name__, None)
        if m is None:
            raise Reject("L%d: statement %s has no rule" % (getattr(st, "lineno", 0),
                                                           type(st).__name__))
        return bool(m(st, env))

    def st_Pass(self, st, env):
        return False

    def st_Raise(self, st, env):
        return True

    def st_Assert(self, st, env):
        self.lenient(st.test, env)
        return False

    def st_Import(self, st, env):
        for a in st.names:
            env[a.asname or a.name.split(".")[0]] = Val("MOD", label=a.name)
        return False

    def st_ImportFrom(self, st, env):
        for a in st.names:
            env[a.asname or a.name] = Val("EXT", label=a.name)
        return False

    def st_FunctionDef(self, st, env):
        env[st.name] = Val("FN", fn=(self.mod, None, st), label=st.name, base=env)
        return False

    def st_Delete(self, st, env):
        for t in st.targets:
            if not isinstance(t, ast.Name):
                raise Reject("L%d: del of a non-local" % st.lineno)
        return False

    def st_Break(self, st, env):
        if not self.loops or self.loops[-1] == "row":
            raise Reject("L%d: break out of a row loop (later rows depend on earlier ones)"
                         % st.lineno)
        return False

    def st_Continue(self, st, env):
        if not self.loops:
            raise Reject("L%d: continue outside a loop" % st.lineno)
        if self.loops[-1] == "row":
            # early end of this row's iteration: the path ends here; what it appended so far is
            # checked at the end of the loop (every path must append exactly once)
            sc = self.cur()
            sc.path_ends.append(dict(sc.appends))
            return True
        return False

    def st_Return(self, st, env):
        v = self.ev(st.value, env) if st.value is not None else P
        if not self.retstack:
            raise Reject("L%d: return outside a function" % st.lineno)
        if self.loops and "row" in self.loops:
            raise Reject("L%d: return inside a row loop" % st.lineno)
        self.retstack[-1].append(v)
        return True

    def st_Expr(self, st, env):
        e = st.value
        if isinstance(e, ast.Constant):
            return False
        if isinstance(e, ast.Call):
            fn = _fname(e.func)
            last = fn.split(".")[-1]
            if last.startswith("check") or last.startswith("_check") or last in ("warn", "print"):
                if fn.startswith("self.") and self.cls is not None:
                    r = self.index.find_method(self.clsmod, self.cls, last)
                    if r is not None:
                        bad = _stores_to_self(r[2])
                        if bad:
                            raise Reject("L%d: %s mutates %s" % (st.lineno, fn, bad))
                for a in list(e.args) + [k.value for k in e.keywords]:
                    self.lenient(a, env)
                return False
            if isinstance(e.func, ast.Attribute) and e.func.attr == "append" \
                    and isinstance(e.func.value, ast.Name) and len(e.args) == 1 and not e.keywords:
                return self.do_append(e.func.value.id, e.args[0], env, st)
        self.ev(e, env)
        return False

    def do_append(self, name, arg, env, st):
        tgt = env.get(name)
        if tgt is None:
            raise Reject("L%d: append to an unknown list" % st.lineno)
        v = self.ev(arg, env)
        sc = self.cur()
        if sc is not None and name in sc.local:
            if v.k == "TUP":
                v = self.opaque(v.elts, st, "append")
            if v.k not in ("P", "ROW", "B"):
                raise Reject("L%d: append of a %s value to a row-local list" % (st.lineno, v.k))
            env[name] = self.opaque([v, row(sc)], st, "append")
            return False
        if sc is not None:
            if tgt.k != "EMPTYLIST":
                raise Reject("L%d: a row loop appends to a list that is not a fresh []" % st.lineno)
            if v.k == "TUP":
                v = self.opaque(v.elts, st, "append")
            if v.k not in ("P", "ROW"):
                raise Reject("L%d: a row loop appends a %s value" % (st.lineno, v.k))
            if any(l == "plain" for l in self.loops[self.loops.index("row") + 1:]) \
                    if "row" in self.loops else False:
                sc.appends[name] = (0, 99)
            else:
                mn, mx = sc.appends.get(name, (0, 0))
                sc.appends[name] = (mn + 1, mx + 1)
            return False
        if tgt.k in ("EMPTYLIST", "PLIST") and v.k == "PANEL":
            if tgt.k == "PLIST" and (tgt.iax or 0) != v.iax:
                raise Reject("L%d: list of panels with different instance axes" % st.lineno)
            env[name] = Val("PLIST", raw=v.raw, iax=v.iax, nd=v.nd, cont=v.cont)
            return False
        if tgt.k in ("EMPTYLIST", "P") and v.k in ("P", "SELF"):
            env[name] = P
            return False
        if tgt.k in ("EMPTYLIST", "P", "B") and v.k == "B":
            env[name] = B
            return False
        raise Reject("L%d: append of a %s value to a %s list" % (st.lineno, v.k, tgt.k))

    def st_Assign(self, st, env):
        v = self.rhs(st.value, st.targets[0], env)
        for t in st.targets:
            self.assign(t, v, env, st)
        return False

    def st_AnnAssign(self, st, env):
        if st.value is not None:
            self.assign(st.target, self.ev(st.value, env), env, st)
        return False

    def st_AugAssign(self, st, env):
        v = self.ev(st.value, env)
        if isinstance(st.target, ast.Name):
            old = self.ev(st.target, env)
            self.assign(st.target, self.arith([old, v], st, "aug"), env, st)
        else:
            self.assign(st.target, v, env, st)
        return False

    def rhs(self, value, target, env):
        # Xt[:, k] = <panel>.squeeze(): the store fixes the shape, the bare squeeze is dropped
        if isinstance(target, ast.Subscript) and isinstance(value, ast.Call) \
                and isinstance(value.func, ast.Attribute) and value.func.attr == "squeeze" \
                and not value.args and not value.keywords:
            inner = self.ev(value.func.value, env)
            if inner.k == "PANEL":
                return inner
        return self.ev(value, env)

    def assign(self, t, v, env, st):
        if v.k == "CONFLICT":
            raise Reject("L%d: value of inconsistent kinds (%s)" % (st.lineno, v.label))
        if isinstance(t, ast.Name):
            if v.k == "UNZIP":
                raise Reject("L%d: zip(*rows) must be unpacked" % st.lineno)
            self.bind(t, v, env, st)
            return
        if isinstance(t, (ast.Tuple, ast.List)):
            if v.k == "UNZIP":
                for j, el in enumerate(t.elts):
                    self.bind(el, panel(("RMapRows", "%s:%d" % (v.label, j), [v.base.raw],
                                         [["IIdx"]]), 0, None, "list"), env, st)
                return
            self.bind(t, v, env, st)
            return
        if isinstance(t, ast.Attribute):
            root = self.root_name(t)
            bv = env.get(root)
            if root == "self" or bv is None:
                raise Reject("L%d: store to %s at apply time" % (st.lineno, _fname(t)))
            if bv.k == "PANEL" and t.attr == "columns" and isinstance(t.value, ast.Name):
                if v.k not in ("P", "SELF"):
                    raise Reject("L%d: column labels depend on the batch" % st.lineno)
                return
            if self.is_local(t) and bv.k in ("P", "ROW"):
                return
            raise Reject("L%d: attribute store on %s" % (st.lineno, _fname(t)))
        if isinstance(t, ast.Subscript):
            self.store(t, v, env, st)
            return
        raise Reject("L%d: assignment target %s" % (st.lineno, type(t).__name__))

    def store(self, t, v, env, st):
        elems = []
        b = t
        while isinstance(b, ast.Subscript):
            elems = self.index_elems(b) + elems
            b = b.value
        if not isinstance(b, ast.Name):
            if self.is_local(b):
                return
            raise Reject("L%d: store through %s" % (st.lineno, _fname(b)))
        name = b.id
        bv = env.get(name)
        sc = self.cur()
        if bv is None:
            raise Reject("L%d: store into an unknown name" % st.lineno)
        if v.k == "TUP":
            v = self.opaque(v.elts, st, "store")
        if bv.k == "PANEL":
            ix, scope = self.classify(elems, env, st)
            if scope is not None:
                if ix.index("IIdx") != bv.iax:
                    raise Reject("L%d: the row index is not at the instance axis of the target"
                                 % st.lineno)
                if v.k not in ("ROW", "P", "SELF"):
                    raise Reject("L%d: a row store of a %s value" % (st.lineno, v.k))
                scope.stores.append((name, ix))
                return
            if bv.cont == "frame" and len(ix) == 1:
                ix = ["IFull"] + ix
            at = ix[bv.iax] if len(ix) > bv.iax else "IFull"
            if at != "IFull":
                raise Reject("L%d: store into fixed rows of a panel" % st.lineno)
            if v.k == "PANEL":
                before = ix[:bv.iax]
                trailing = (v.nd == 1 and v.iax == 0 and bv.nd is not None
                            and bv.iax == bv.nd - 1 and len(ix) <= bv.iax)
                if not trailing and ("IUnk" in before or v.iax != bv.iax - before.count("IInt")):
                    raise Reject("L%d: instance axes of target and value do not line up" % st.lineno)
                if bv.cont == "frame":
                    env[name] = panel(("RConcat", 1, [bv.raw, v.raw]), 0, None, "frame")
                else:
                    env[name] = panel(("RStoreCols", bv.raw, ix, v.raw), bv.iax, bv.nd, bv.cont)
                return
            if v.k in ("P", "SELF"):
                env[name] = panel(("RElem", self.sym(st, "setitem"), [bv.raw]), bv.iax, bv.nd, bv.cont)
                return
            raise Reject("L%d: store of a %s value into a whole panel" % (st.lineno, v.k))
        if bv.k == "EMPTYFRAME":
            ix, scope = self.classify(elems, env, st)
            if scope is not None:
                if len(ix) != 1 or v.k not in ("ROW", "P"):
                    raise Reject("L%d: frame column per row: shape" % st.lineno)
                if sc is not None and name in sc.local:
                    env[name] = row(sc)
                    return
                scope.stores.append((name, "T"))
                return
            if sc is not None and name in sc.local:
                env[name] = self.opaque([v, row(sc)], st, "store")
                return
            if v.k == "PANEL" and v.iax == 0 and len(ix) == 1:
                env[name] = panel(("RConcat", 1, [v.raw]), 0, None, "frame")
                return
            if v.k in ("P", "B"):
                env[name] = v
                return
            raise Reject("L%d: column store of a %s value" % (st.lineno, v.k))
        if sc is not None and name in sc.local:
            if bv.k in ("P", "ROW", "EMPTYLIST"):
                vals = [self.ev(el, env) for el in elems if not isinstance(el, ast.Slice)
                        and not (isinstance(el, ast.Name) and el.id in env
                                 and env[el.id].k == "IDX")]
                if any(isinstance(el, ast.Name) and el.id in env and env[el.id].k == "IDX"
                       for el in elems):
                    raise Reject("L%d: the row index selects inside a row-local value" % st.lineno)
                env[name] = self.opaque([v, row(sc)] + vals, st, "store")
                return
        if sc is None and bv.k == "P" and v.k in ("P", "SELF"):
            return
        raise Reject("L%d: store into %s (a %s value that outlives the row)" % (st.lineno, name, bv.k))

    # ---------- control flow ----------
    @staticmethod
    def raise_only(stmts):
        if not stmts:
            return False
        for s in stmts:
            if isinstance(s, ast.Raise):
                continue
            if isinstance(s, ast.Expr) and isinstance(s.value, ast.Call) \
                    and _fname(s.value.func).split(".")[-1] in ("warn", "print"):
                continue
            if isinstance(s, ast.If) and Interp.raise_only(s.body) \
                    and (not s.orelse or Interp.raise_only(s.orelse)):
                continue
            return False
        return isinstance(stmts[-1], (ast.Raise, ast.If))

    def merge(self, env, ea, eb, ta, tb, node, rowcond):
        if ta and tb:
            return
        if ta:
            env.clear()
            env.update(eb)
            return
        if tb:
            env.clear()
            env.update(ea)
            return
        sc = self.cur()
        out = {}
        for k in set(ea) | set(eb):
            if k in ea and k in eb:
                a, b = ea[k], eb[k]
                if a is b:
                    out[k] = a
                else:
                    j = self.join(a, b, node)
                    if rowcond and j.k in ("P", "EMPTYLIST"):
                        j = row(sc)
                    elif rowcond and j.k not in ("ROW", "B", "CONFLICT"):
                        raise Reject("L%d: a %s value is assigned under a row-dependent "
                                     "condition" % (node.lineno, j.k))
                    out[k] = j
            else:
                v = ea.get(k) or eb.get(k)
                out[k] = row(sc) if (rowcond and v.k == "P") else v
        env.clear()
        env.update(out)

    def st_If(self, st, env):
        try:
            c = self.ev(st.test, env)
            err = None
        except Reject as r:
            c, err = B, r
        if c.k in ("B", "N", "SHAPE") or err is not None:
            if self.raise_only(st.body) and (not st.orelse or self.raise_only(st.orelse)):
                return False
            if err is not None:
                raise err
            raise Reject("L%d: control flow depends on the batch (%s condition)" % (st.lineno, c.k))
        rowcond = False
        if c.k == "ROW":
            if not self.active(c.scope):
                raise Reject("L%d: condition on a row outside its loop" % st.lineno)
            rowcond = True
        elif c.k not in ("P", "SELF", "EXT", "MOD", "FN", "EMPTYLIST", "RNG"):
            raise Reject("L%d: condition on a %s value" % (st.lineno, c.k))
        sc = self.cur()
        before = dict(sc.appends) if sc is not None else None
        ea, eb = dict(env), dict(env)
        ta = self.block(st.body, ea)
        aa = dict(sc.appends) if sc is not None else None
        if sc is not None:
            sc.appends = dict(before)
        tb = self.block(st.orelse, eb) if st.orelse else False
        if sc is not None:
            ab = dict(sc.appends)
            if ta and not tb:
                sc.appends = ab
            elif tb and not ta:
                sc.appends = aa
            else:
                out = {}
                for k in set(aa) | set(ab):
                    x, y = aa.get(k, (0, 0)), ab.get(k, (0, 0))
                    out[k] = (min(x[0], y[0]), max(x[1], y[1]))
                sc.appends = out
        self.merge(env, ea, eb, ta, tb, st, rowcond)
        return ta and tb

    def st_Try(self, st, env):
        if st.finalbody:
            raise Reject("L%d: try/finally" % st.lineno)
        alts = []
        e0 = dict(env)
        t0 = self.block(st.body + st.orelse, e0)
        alts.append((e0, t0))
        for h in st.handlers:
            eh = dict(env)
            if h.name:
                eh[h.name] = P
            alts.append((eh, self.block(h.body, eh)))
        cur_env, cur_t = alts[0]
        for eh, th in alts[1:]:
            tmp = dict(env)
            self.merge(tmp, cur_env, eh, cur_t, th, st, False)
            cur_env, cur_t = tmp, cur_t and th
        env.clear()
        env.update(cur_env)
        return cur_t

    @staticmethod
    def kind_sig(v):
        return (v.k, v.iax if v.k in ("PANEL", "PLIST") else None)

    def plain_loop(self, st, env, target, elem):
        """a loop over a batch-independent (or row-local) range: body analysed to a fixpoint of kinds"""
        sc = self.cur()
        before = dict(sc.appends) if sc is not None else None
        self.loops.append("plain")
        try:
            e1 = dict(env)
            if target is not None:
                self.bind(target, elem, e1, st)
            self.block(st.body, e1)
            e2 = dict(e1)
            for k, v in env.items():
                if k in e1 and self.kind_sig(e1[k]) != self.kind_sig(v):
                    e2[k] = self.join(v, e1[k], st) if v.k in ("P", "ROW") and e1[k].k in ("P", "ROW") \
                        else e1[k]
            if target is not None:
                self.bind(target, elem, e2, st)
            e3 = dict(e2)
            saved_stores = [list(s.stores) for s in self.scopes]
            self.block(st.body, e3)
            for s, old in zip(self.scopes, saved_stores):
                s.stores = old
            for k in e1:
                if k in e3 and self.kind_sig(e3[k]) != self.kind_sig(e1[k]):
                    raise Reject("L%d: the kind of %s does not stabilise over the loop (%s -> %s)"
                                 % (st.lineno, k, e1[k].k, e3[k].k))
        finally:
            self.loops.pop()
        if sc is not None and sc.appends != before:
            for k in sc.appends:
                if sc.appends[k] != before.get(k, (0, 0)):
                    sc.appends[k] = (0, 99)
        env.clear()
        env.update(e1)
        if st.orelse if hasattr(st, "orelse") else False:
            self.block(st.orelse, env)

    def row_loop(self, st, env, setup):
        if self.cur() is not None and "row" in self.loops:
            pass        # a row loop nested in another one: each keeps its own index
        # pass 1: which names does the body bind, and with what kinds?
        probe = self.new_scope(st)
        self.scopes.append(probe)
        self.loops.append("row")
        try:
            e1 = dict(env)
            setup(probe, st.target, e1)
            self.block(st.body, e1)
        finally:
            self.scopes.pop()
            self.loops.pop()
        carried = [k for k in probe.local
                   if k in e1 and e1[k].k not in ("P", "SELF", "EXT", "MOD", "FN")]
        # pass 2: a value that survives from the previous iteration is batch data
        scope = self.new_scope(st)
        self.scopes.append(scope)
        self.loops.append("row")
        try:
            e2 = dict(env)
            for k in carried:
                e2[k] = B
            setup(scope, st.target, e2)
            # the loop targets themselves are fresh in every iteration
            self.block(st.body, e2)
        finally:
            self.scopes.pop()
            self.loops.pop()
        if st.orelse:
            raise Reject("L%d: for/else on a row loop" % st.lineno)
        g = self.sym(st, "rows")
        names = set(scope.appends)
        for pe in scope.path_ends:
            names |= set(pe)
        for pe in scope.path_ends + [scope.appends]:
            for name in names:
                if pe.get(name, (0, 0)) != (1, 1):
                    raise Reject("L%d: the row loop does not append to %s exactly once per row "
                                 "on every path" % (st.lineno, name))
        for name, (mn, mx) in scope.appends.items():
            if (mn, mx) != (1, 1):
                raise Reject("L%d: the row loop does not append to %s exactly once per row"
                             % (st.lineno, name))
            if env.get(name) is None or env[name].k != "EMPTYLIST":
                raise Reject("L%d: %s is not a fresh list" % (st.lineno, name))
            env[name] = panel(("RMapRows", g + ":" + name, list(scope.srcs),
                               [list(i) for i in scope.ixs]), 0, None, "list")
        done = set()
        for name, ix in scope.stores:
            if (name, str(ix)) in done:
                continue
            done.add((name, str(ix)))
            bv = env.get(name)
            if ix == "T":
                if bv is None or bv.k not in ("EMPTYFRAME", "PANELT"):
                    raise Reject("L%d: %s is not a fresh frame" % (st.lineno, name))
                env[name] = Val("PANELT", raw=("RMapRows", g + ":" + name, list(scope.srcs),
                                               [list(i) for i in scope.ixs]))
                continue
            if bv is None or bv.k != "PANEL":
                raise Reject("L%d: row store into %s" % (st.lineno, name))
            env[name] = panel(("RStoreRows", g + ":" + name, bv.raw, list(ix), list(scope.srcs),
                               [list(i) for i in scope.ixs]), bv.iax, bv.nd, bv.cont)
        for k in scope.local:
            v = e2.get(k)
            if v is None:
                continue
            if v.k in ("P", "SELF", "EXT", "MOD", "FN"):
                env[k] = v
            elif k not in scope.appends and not any(k == n for n, _ in scope.stores):
                env[k] = B          # the value left by the LAST row

    def st_For(self, st, env):
        kind, info = self.iter_kind(st.iter, env, st)
        if kind == "rows":
            self.row_loop(st, env, info)
            return False
        if kind == "plist":
            self.plain_loop(st, env, st.target, info)
            return False
        if kind == "unroll":
            if st.orelse:
                raise Reject("L%d: for/else over a tuple of panels" % st.lineno)
            self.loops.append("plain")
            try:
                for x in info:
                    self.bind(st.target, x, env, st)
                    self.block(st.body, env)
            finally:
                self.loops.pop()
            return False
        if info.k == "B":
            raise Reject("L%d: loop over batch data" % st.lineno)
        self.plain_loop(st, env, st.target, info)
        return False

    def st_While(self, st, env):
        c = self.ev(st.test, env)
        if c.k not in ("P", "ROW", "SELF") or (c.k == "ROW" and not self.active(c.scope)):
            raise Reject("L%d: while condition of kind %s" % (st.lineno, c.k))
        self.plain_loop(st, env, None, None)
        c2 = self.ev(st.test, env)
        if c2.k not in ("P", "ROW", "SELF"):
            raise Reject("L%d: while condition becomes %s" % (st.lineno, c2.k))
        return False


# ------------------------------------------------------------------------------------------------
# driver


def analyse_method(index, mod, cls, fn):
    qual = "%s.%s" % (cls.name, fn.name)
    it = Interp(index, mod, cls, qual)
    params = [a.arg for a in fn.args.args]
    if len(params) < 2 or params[0] != "self":
        return ("no", "signature", [], [])
    env = {"self": SELF, params[1]: panel(("RInput",), 0, None, None)}
    for pn in params[2:]:
        env[pn] = P
    bad = _stores_to_self(fn)
    try:
        if bad:
            raise Reject("L%d: the method stores to %s at apply time" % (fn.lineno, bad))
        rets = it.run_body(fn.body, env)
        if not rets:
            raise Reject("L%d: no return value" % fn.lineno)
        out = rets[0]
        for r in rets[1:]:
            out = it.join(out, r, fn)
        if out.k != "PANEL":
            raise Reject("L%d: the returned value is of kind %s, not a row-aligned panel"
                         % (fn.lineno, out.k))
        if out.iax != 0:
            raise Reject("L%d: the returned array has its instances along axis %d"
                         % (fn.lineno, out.iax))
    except Reject as r:
        return ("no", str(r.args[0]), [], [])
    except RecursionError:
        return ("no", "recursion limit in the extractor", [], [])
    deps = sorted("%s.%s" % (cls.name, d) for d in it.deps)
    return ("ok", out.raw, deps, sorted(set(it.assumptions + raw_members(out.raw))))


def analyse_function(index, mod, fn):
    it = Interp(index, mod, None, fn.name)
    params = [a.arg for a in fn.args.args]
    if not params:
        return ("no", "signature", [], [])
    env = {params[0]: panel(("RInput",), 0, None, None)}
    for pn in params[1:]:
        env[pn] = P
    try:
        rets = it.run_body(fn.body, env)
        if not rets:
            raise Reject("L%d: no return value" % fn.lineno)
        out = rets[0]
        for r in rets[1:]:
            out = it.join(out, r, fn)
        if out.k != "PANEL" or out.iax != 0:
            raise Reject("L%d: the returned value is not a row-aligned panel (%s)" % (fn.lineno, out.k))
    except Reject as r:
        return ("no", str(r.args[0]), [], [])
    return ("ok", out.raw, [], sorted(set(it.assumptions + raw_members(out.raw))))


def extract(repo):
    """-> ordered list of (key, status, raw | reason, deps, assumptions)"""
    index = Index(repo)
    rows = []
    seen = set()
    for rel, name in FUNCTIONS:
        mod = index.by_dotted(rel[:-3].replace("/", "."))
        if mod is None or name not in mod.functions:
            raise Unsupported("anchored function missing: %s:%s" % (rel, name))
        status, payload, deps, assume = analyse_function(index, mod, mod.functions[name])
        rows.append((name, status, payload, deps, assume))
        seen.add(name)
    for rel in FILES:
        mod = index.mods[rel]
        for cls in mod.tree.body:
            if not isinstance(cls, ast.ClassDef):
                continue
            for fn in cls.body:
                if isinstance(fn, ast.FunctionDef) and fn.name in METHODS:
                    key = "%s.%s" % (cls.name, fn.name)
                    if key in seen:
                        raise Unsupported("two classes named %s in the anchored files" % cls.name)
                    seen.add(key)
                    body = [s for s in fn.body if not (isinstance(s, ast.Expr)
                                                       and isinstance(s.value, ast.Constant))]
                    if len(body) == 1 and isinstance(body[0], ast.Raise):
                        rows.append((key, "no", "abstract method", [], []))
                        continue
                    status, payload, deps, assume = analyse_method(index, mod, cls, fn)
                    rows.append((key, status, payload, deps, assume))
    if not rows:
        raise Unsupported("no apply-time method found")
    # own methods a translated entry delegates to must exist in the table (possibly inherited)
    keys = {r[0] for r in rows}
    fixed = []
    for key, status, payload, deps, assume in rows:
        if status == "ok":
            missing = [d for d in deps if d not in keys]
            if missing:
                status, payload = "no", "delegates to %s which is not defined in the anchored " \
                    "files" % ", ".join(missing)
        fixed.append((key, status, payload, deps, assume))
    # a translated entry that delegates to an untranslated own method is not translated either
    changed = True
    while changed:
        changed = False
        ok = {r[0] for r in fixed if r[1] == "ok"}
        nxt = []
        for key, status, payload, deps, assume in fixed:
            if status == "ok" and any(d not in ok for d in deps):
                bad = [d for d in deps if d not in ok]
                status, payload = "no", "delegates to %s which is not translated" % ", ".join(bad)
                changed = True
            nxt.append((key, status, payload, deps, assume))
        fixed = nxt
    return fixed


def render(rows):
    out = ["(* GENERATED by translator/rowwise_c16.py from the apply-time methods of /repo - do not edit *)",
           "From Coq Require Import String List ZArith.",
           "Require Import SkV.C16.Prog.",
           "Import ListNotations.",
           "",
           "Definition gen_table : table := ["]
    items = []
    for key, status, payload, deps, assume in rows:
        if status == "ok":
            items.append("  (%s, Translated %s %s)" % (cstr(key), raw_to_coq(payload),
                                                      _clist([cstr(d) for d in deps])))
        else:
            items.append("  (%s, NotTranslated %s)" % (cstr(key), cstr(payload)))
    out.append(";\n".join(items))
    out.append("].")
    out.append("")
    return "\n".join(out)


def translate(repo):
    return {"C16/Gen.v": render(extract(repo))}
