"""C12: regenerate, per seeded estimator, the fact "the `random_state` parameter reaches the generator
unchanged on every path" (Seeds.v).

"two estimators with equal parameters (including random_state) fitted on equal data return equal
results": the seed value the user passed must arrive - as it is - at `check_random_state(..)` /
`RandomState(..)` / `np.random.seed(..)`, directly or through helpers and constructors of the
package.  For every class of ENTRIES (and every class of the package they construct with the seed)
every occurrence of a CARRIER of the seed (`self.random_state`, a parameter / local it was assigned
to, `int(c)` / `np.int32(c)` of a carrier, `c if <zero-safe test> else None`) must be in one of
these positions:

  sink      argument of check_random_state / RandomState / default_rng / np.random.seed
  forward   argument of another call: a function / class of the package is followed (its parameter
            becomes a carrier there; a constructor must store it as `self.random_state`), anything
            outside the package is trusted to take it as it is
  copy      right-hand side of a plain assignment to a name (the name becomes a carrier) or to
            `self.random_state`
  test      `c is None`, `c is not None`, `isinstance(c, ..)`: tests that treat 0 like any seed

Anything else - a truthiness test (`if c`, `c or d`, `not c`, a comprehension filter `if value`),
arithmetic, or putting the carrier into a dict / list / tuple (a container whose entries are
filtered or forwarded with ** later is a shape this extractor does not follow) - makes the fact
false: C12/BridgeSeeds.v then fails.  Fail closed: a class or helper that cannot be found raises.
"""
import ast
import os

from .pyz import Unsupported
from .own_c12 import ModCtx, _dotted, _u

ENTRIES = [
    ("sktime/transformations/panel/segment.py", "RandomIntervalSegmenter"),
    ("sktime/transformations/panel/summarize/_extract.py", "RandomIntervalFeatureExtractor"),
    ("sktime/transformations/panel/rocket/_rocket.py", "Rocket"),
    ("sktime/transformations/panel/shapelets.py", "ShapeletTransform"),
    ("sktime/transformations/series/impute.py", "Imputer"),
    ("sktime/classification/dictionary_based/_boss.py", "BOSSEnsemble"),
    ("sktime/classification/dictionary_based/_boss.py", "IndividualBOSS"),
    ("sktime/classification/dictionary_based/_cboss.py", "ContractableBOSS"),
    ("sktime/classification/dictionary_based/_muse.py", "MUSE"),
]
PARAM = "random_state"
SINKS = {"check_random_state", "RandomState", "default_rng", "seed", "SeedSequence"}
CONVERSIONS = {"int", "np.int32", "np.int64", "numpy.int32", "numpy.int64", "np.uint32"}
MAX_DEPTH = 6


def _parents(tree):
    par = {}
    for n in ast.walk(tree):
        for c in ast.iter_child_nodes(n):
            par[c] = n
    return par


def _zero_safe_test(t, is_carrier):
    """a test that does not tell 0 from other seeds: `c is (not) None`, isinstance(c, ..),
    and / or / not of such"""
    if isinstance(t, ast.Compare) and len(t.ops) == 1 and isinstance(t.ops[0], (ast.Is, ast.IsNot)) \
            and isinstance(t.comparators[0], ast.Constant) and t.comparators[0].value is None:
        return True
    if isinstance(t, ast.Call) and _dotted(t.func) == "isinstance":
        return True
    if isinstance(t, ast.BoolOp):
        return all(_zero_safe_test(v, is_carrier) for v in t.values)
    if isinstance(t, ast.UnaryOp) and isinstance(t.op, ast.Not):
        return _zero_safe_test(t.operand, is_carrier)
    return False


class Flow:
    def __init__(self, repo):
        self.repo = repo
        self.problems = []        # (where, what)
        self.done = set()
        self.classes_todo = []
        self.classes_seen = set()

    def note(self, ctx, fn, node, what):
        self.problems.append("%s:%s line %s: %s: `%s`" % (
            ctx.rel.replace("sktime/", ""), fn.name, getattr(node, "lineno", "?"), what,
            _u(node)[:70]))

    # ---- one function: `carrier0` = names that carry the seed on entry; self_carrier = whether
    # `self.random_state` is a carrier here (methods of the estimator)
    def function(self, fn, ctx, carrier0, self_carrier, depth):
        key = (ctx.rel, fn.name, fn.lineno, tuple(sorted(carrier0)), self_carrier)
        if key in self.done or depth > MAX_DEPTH:
            return
        self.done.add(key)
        par = _parents(fn)
        names = set(carrier0)

        def is_carrier(e):
            if isinstance(e, ast.Name):
                return e.id in names
            if isinstance(e, ast.Attribute):
                return self_carrier and isinstance(e.value, ast.Name) and e.value.id == "self" \
                    and e.attr == PARAM
            if isinstance(e, ast.Call) and _dotted(e.func) in CONVERSIONS and len(e.args) == 1 \
                    and not e.keywords:
                return is_carrier(e.args[0])
            if isinstance(e, ast.IfExp):
                a, b = e.body, e.orelse
                none = lambda x: isinstance(x, ast.Constant) and x.value is None
                return ((is_carrier(a) and (none(b) or is_carrier(b)))
                        or (none(a) and is_carrier(b))) and _zero_safe_test(e.test, is_carrier)
            return False

        # locals that are assigned a carrier (to a fixpoint: flow-insensitive)
        changed = True
        while changed:
            changed = False
            for n in ast.walk(fn):
                if isinstance(n, ast.Assign) and len(n.targets) == 1 \
                        and isinstance(n.targets[0], ast.Name) and is_carrier(n.value) \
                        and n.targets[0].id not in names:
                    names.add(n.targets[0].id)
                    changed = True
        # every occurrence of a basic carrier
        for n in ast.walk(fn):
            basic = (isinstance(n, ast.Name) and n.id in names and isinstance(n.ctx, ast.Load)) or (
                isinstance(n, ast.Attribute) and isinstance(n.ctx, ast.Load) and is_carrier(n))
            if not basic:
                continue
            # climb through conversions / the accepted conditional expression
            e = n
            while True:
                p = par.get(e)
                if isinstance(p, ast.Call) and _dotted(p.func) in CONVERSIONS and e in p.args:
                    e = p
                    continue
                if isinstance(p, ast.IfExp) and is_carrier(p) and e is not p.test:
                    e = p
                    continue
                break
            p = par.get(e)
            self.occurrence(e, p, par, fn, ctx, is_carrier, depth)

    def occurrence(self, e, p, par, fn, ctx, is_carrier, depth):
        # ---- tests that treat 0 like any seed
        if isinstance(p, ast.Compare) and _zero_safe_test(p, is_carrier):
            return
        if isinstance(p, ast.IfExp) and e is p.test:
            return self.note(ctx, fn, p, "truthiness test of the seed")
        if isinstance(p, ast.Call) and _dotted(p.func) == "isinstance" and p.args and p.args[0] is e:
            return
        # ---- copy
        if isinstance(p, ast.Assign) and p.value is e and len(p.targets) == 1:
            t = p.targets[0]
            if isinstance(t, ast.Name):
                return
            if isinstance(t, ast.Attribute) and isinstance(t.value, ast.Name) \
                    and t.value.id == "self":
                return            # kept on the estimator (constructor) / a fitted attribute
            return self.note(ctx, fn, p, "seed stored into a container / subscript")
        if isinstance(p, ast.Return) or isinstance(p, ast.Expr):
            return
        # ---- argument of a call
        kw = p if isinstance(p, ast.keyword) else None
        call = par.get(p) if kw is not None else p
        if isinstance(call, ast.Call) and (kw is not None or e in call.args):
            d = _dotted(call.func) or ""
            last = d.split(".")[-1]
            if last in SINKS:
                return
            return self.forward(call, kw, e, fn, ctx, depth)
        # ---- everything else is a shape that may change or drop the seed
        what = "seed used in an expression that may change or drop it"
        if isinstance(p, (ast.BoolOp, ast.If, ast.While, ast.UnaryOp, ast.comprehension)):
            what = "truthiness test of the seed"
        elif isinstance(p, (ast.Dict, ast.List, ast.Tuple, ast.Set)):
            what = "seed put into a container (entries may be filtered / forwarded with ** later)"
        elif isinstance(p, ast.BinOp):
            what = "arithmetic on the seed"
        elif isinstance(p, ast.Compare):
            what = "comparison of the seed with a value"
        self.note(ctx, fn, p if p is not None else e, what)

    def forward(self, call, kw, e, fn, ctx, depth):
        f = call.func
        # which parameter of the callee receives it
        def param_of(callee, skip):
            params = [a.arg for a in callee.args.args][skip:]
            if kw is not None:
                return kw.arg if kw.arg in params else None
            i = call.args.index(e)
            if any(isinstance(a, ast.Starred) for a in call.args[:i]):
                return None
            return params[i] if i < len(params) else None
        if isinstance(f, ast.Name):
            kind, node, cx = ctx.resolve(f.id)
            if kind == "func":
                pname = param_of(node, 0)
                if pname is None:
                    return self.note(ctx, fn, call, "seed handed to a parameter that is not found")
                return self.function(node, cx, {pname}, False, depth + 1)
            if kind == "class":
                init = next((n for n in node.body if isinstance(n, ast.FunctionDef)
                             and n.name == "__init__"), None)
                if init is None:
                    return self.note(ctx, fn, call, "constructor without __init__ in the package")
                pname = param_of(init, 1)
                if pname is None:
                    return self.note(ctx, fn, call, "seed handed to a parameter that is not found")
                stores = [n for n in ast.walk(init) if isinstance(n, ast.Assign)
                          and len(n.targets) == 1 and isinstance(n.targets[0], ast.Attribute)
                          and isinstance(n.targets[0].value, ast.Name)
                          and n.targets[0].value.id == "self" and n.targets[0].attr == PARAM
                          and isinstance(n.value, ast.Name) and n.value.id == pname]
                self.function(init, cx, {pname}, False, depth + 1)
                if pname != PARAM and not stores:
                    return self.note(ctx, fn, call, "constructor does not keep the seed as "
                                     "self.random_state")
                if stores or pname == PARAM:
                    self.add_class(node, cx)
                return
            return                 # outside the package: takes the seed as it is
        if isinstance(f, ast.Attribute) and isinstance(f.value, ast.Name) and f.value.id == "self":
            # a method of the same estimator
            cls = self.current_class
            for c, cx in self.chain(cls[0], cls[1]):
                for n in c.body:
                    if isinstance(n, ast.FunctionDef) and n.name == f.attr:
                        pname = param_of(n, 0 if "staticmethod" in {
                            _dotted(d) for d in n.decorator_list} else 1)
                        if pname is None:
                            return self.note(ctx, fn, call, "seed handed to a parameter that is "
                                             "not found")
                        return self.function(n, cx, {pname}, True, depth + 1)
            return
        return                     # a method of another object: takes the seed as it is

    def chain(self, cls, ctx):
        todo, seen, out = [(cls, ctx)], set(), []
        while todo:
            c, cx = todo.pop(0)
            if (cx.rel, c.name) in seen:
                continue
            seen.add((cx.rel, c.name))
            out.append((c, cx))
            for b in c.bases:
                if isinstance(b, ast.Name):
                    kind, node, bx = cx.resolve(b.id)
                    if kind == "class":
                        todo.append((node, bx))
        return out

    def add_class(self, cls, ctx):
        if (ctx.rel, cls.name) not in self.classes_seen:
            self.classes_seen.add((ctx.rel, cls.name))
            self.classes_todo.append((cls, ctx))

    def run_class(self, cls, ctx):
        """every method the class has (own and inherited inside the package)"""
        self.current_class = (cls, ctx)
        seen = set()
        for c, cx in self.chain(cls, ctx):
            for n in c.body:
                if isinstance(n, ast.FunctionDef) and n.name not in seen:
                    seen.add(n.name)
                    carriers = {PARAM} if n.name == "__init__" and PARAM in {
                        a.arg for a in n.args.args} else set()
                    self.function(n, cx, carriers, True, 0)


def extract(repo):
    ModCtx._cache.clear()
    out = []
    for rel, clsname in ENTRIES:
        if not os.path.exists(os.path.join(repo, rel)):
            raise Unsupported("anchored file missing: " + rel)
        ctx = ModCtx.load(repo, rel)
        if clsname not in ctx.classes:
            raise Unsupported("%s: class %s not found" % (rel, clsname))
        fl = Flow(repo)
        fl.add_class(ctx.classes[clsname], ctx)
        uses = 0
        while fl.classes_todo:
            c, cx = fl.classes_todo.pop(0)
            fl.run_class(c, cx)
        # the class must actually use its seed somewhere (otherwise the fact is vacuous)
        for c, cx in fl.chain(ctx.classes[clsname], ctx):
            for n in ast.walk(c):
                if isinstance(n, ast.Attribute) and n.attr == PARAM and isinstance(n.ctx, ast.Load):
                    uses += 1
        if uses == 0:
            raise Unsupported("%s.%s never reads self.random_state" % (rel, clsname))
        out.append({"name": clsname, "file": rel, "ok": not fl.problems, "problems": fl.problems,
                    "classes": sorted(n for _, n in fl.classes_seen), "uses": uses})
    return out


def _cs(s):
    return '"' + s.replace('"', '""').replace("\n", " ") + '"'


def translate(repo):
    fs = extract(repo)
    L = ["(* GENERATED by /verif/translator/seedflow_c12.py from %s -- do not edit, never committed *)"
         % repo,
         "From Coq Require Import List Bool String.",
         "Import ListNotations.",
         "Open Scope string_scope.", "",
         "(* (estimator, its random_state reaches the generator unchanged on every path) *)",
         "Definition seed_flows : list (string * bool) := ["]
    body = []
    for f in fs:
        cm = "  (* %s: %d reads of self.random_state; classes followed: %s" % (
            f["file"], f["uses"], ", ".join(f["classes"]))
        for pr in f["problems"]:
            cm += "\n     PROBLEM %s" % pr.replace("*)", "* )").replace("(*", "( *")
        cm += " *)"
        body.append("%s\n  (%s, %s)" % (cm, _cs(f["name"]), "true" if f["ok"] else "false"))
    L.append(";\n".join(body))
    L.append("].")
    return {"C12/Seeds.v": "\n".join(L) + "\n"}
