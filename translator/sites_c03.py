"""C03 site extractor: regenerates from /repo on every run (build/coq/C03/Site.v)

  * the cutoff bookkeeping of _SktimeForecaster: `_set_y_X` (cutoff := y.index[k], allow_empty),
    `_update_y_X` (the non-empty guard, merge, cutoff := y.index[k]), `_set_cutoff`, the `cutoff`
    property, `update` (what is refitted on, with which horizon) and `predict`
    (check_is_fitted; _set_fh(fh); _predict(self.fh, ...));
  * EVERY prediction-index site of the forecasters in scope: each `pd.Series(...)` construction and
    each `<x>.index = ...` assignment in the scope files (and the label selection of the statsmodels
    adapter) must label by `<horizon>.to_absolute(self.cutoff)`; one `gen_index_<site>` per site,
    all instances of the regenerated ForecastingHorizon.to_absolute expression (C11/Gen.v).

Fail-closed: an unknown statement shape in the pinned functions, a Series built without `index=`,
an index expression that is not `<fh>.to_absolute(self.cutoff)` (directly or through a local bound
exactly once), or a missing expected site raises `Unsupported`.  coq/C03/Bridge.v proves the
generated definitions equal to the model's for all arguments.
"""
import ast
import os

from .naive_c11 import Unsupported, _int_expr, _need, _u, argnames, body_of, find

SCOPE = [
    "sktime/forecasting/base/_sktime.py", "sktime/forecasting/base/_base.py",
    "sktime/forecasting/base/_meta.py", "sktime/forecasting/naive.py", "sktime/forecasting/trend.py",
    "sktime/forecasting/base/adapters/_statsmodels.py", "sktime/forecasting/exp_smoothing.py",
    "sktime/forecasting/theta.py", "sktime/forecasting/ets.py", "sktime/forecasting/compose/_reduce.py",
    "sktime/forecasting/compose/_ensemble.py", "sktime/forecasting/compose/_pipeline.py",
    "sktime/forecasting/compose/_stack.py", "sktime/forecasting/compose/_multiplexer.py",
    "sktime/forecasting/model_selection/_tune.py",
]
HORIZONS = ("fh", "self.fh", "fh_out")
# `<x>.index = ...` that is not a prediction index
NOT_PREDICTION = {("sktime/forecasting/base/adapters/_statsmodels.py", "_coerce_int_to_range_index")}
# sites the theorems rely on: they must exist
EXPECTED = ["sktime_BaseWindowForecaster_predict_fixed_cutoff", "sktime_SktimeForecaster_get_y_pred",
            "trend_PolynomialTrendForecaster_predict", "statsmodels_StatsModelsAdapter_predict",
            "stack_StackingForecaster_predict"]


def _functions(mod):
    """(qualified name, FunctionDef) for module-level functions and methods"""
    for n in mod.body:
        if isinstance(n, ast.FunctionDef):
            yield n.name, n
        elif isinstance(n, ast.ClassDef):
            for m in n.body:
                if isinstance(m, ast.FunctionDef):
                    yield n.name + "." + m.name, m


def _resolve_local(fn, e):
    """a local name bound exactly once in fn stands for its value"""
    if isinstance(e, ast.Name):
        binds = [n for n in ast.walk(fn) if isinstance(n, ast.Assign)
                 and any(isinstance(t, ast.Name) and t.id == e.id for t in n.targets)]
        stores = [n for n in ast.walk(fn) if isinstance(n, ast.Name) and n.id == e.id
                  and isinstance(n.ctx, ast.Store)]
        _need(len(binds) == 1 and len(stores) == 1, "index name %s is bound %d times" % (e.id, len(stores)), e)
        return binds[0].value
    return e


def _is_abs_index(fn, e, suffix=""):
    e = _resolve_local(fn, e)
    return any(_u(e) == "%s.to_absolute(self.cutoff)%s" % (h, suffix) for h in HORIZONS)


def _index_sites(repo, out):
    found = []
    for rel in SCOPE:
        with open(os.path.join(repo, rel)) as f:
            mod = ast.parse(f.read())
        stem = os.path.basename(rel)[:-3].strip("_")
        for qn, fn in _functions(mod):
            k = 0
            for n in ast.walk(fn):
                site = None
                if isinstance(n, ast.Call) and _u(n.func) == "pd.Series":
                    kw = {x.arg: x.value for x in n.keywords}
                    _need("index" in kw, "%s: %s builds a pd.Series without index=" % (rel, qn), n)
                    _need(_is_abs_index(fn, kw["index"]),
                          "%s: %s labels a pd.Series by something else than <fh>.to_absolute(self.cutoff)"
                          % (rel, qn), n)
                    site = True
                elif isinstance(n, ast.Assign) and any(
                        isinstance(t, ast.Attribute) and t.attr == "index" for t in n.targets):
                    if (rel, qn) in NOT_PREDICTION:
                        continue
                    _need(len(n.targets) == 1 and _is_abs_index(fn, n.value),
                          "%s: %s sets an index to something else than <fh>.to_absolute(self.cutoff)"
                          % (rel, qn), n)
                    site = True
                elif (rel.endswith("_statsmodels.py") and qn.endswith("._predict") and isinstance(n, ast.Return)):
                    v = n.value
                    _need(isinstance(v, ast.Subscript) and _u(v.value) == "y_pred.loc"
                          and _is_abs_index(fn, v.slice, ".to_pandas()"),
                          "%s: %s must select y_pred.loc[fh.to_absolute(self.cutoff).to_pandas()]" % (rel, qn), n)
                    site = True
                if site:
                    k += 1
                    name = "%s_%s" % (stem, qn.replace(".", "").replace("__", "_").strip("_"))
                    name = name.replace("__", "_") + ("" if k == 1 else "_%d" % k)
                    found.append((name, rel, qn))
    names = [n for n, _, _ in found]
    for e in EXPECTED:
        _need(e in names, "expected prediction-index site %s not found (found: %s)" % (e, names))
    out.append("(* prediction-index sites: label of the relative step r from the cutoff *)\n")
    for name, rel, qn in found:
        out.append("Definition gen_index_%s (cutoff r : Z) : Z := gen_fh_abs cutoff r.   (* %s: %s *)\n"
                   % (name, rel, qn))
    out.append("Definition gen_index_sites : list (Z -> Z -> Z) :=\n  [%s].\n"
               % "; ".join("gen_index_" + n for n in names))
    # the adapter asks the wrapped model for zero-based positions start..end from the same horizon
    with open(os.path.join(repo, "sktime/forecasting/base/adapters/_statsmodels.py")) as f:
        fn = find(ast.parse(f.read()), "_StatsModelsAdapter._predict")
    se = [n for n in ast.walk(fn) if isinstance(n, ast.Assign) and _u(n.targets[0]) == "(start, end)"]
    _need(len(se) == 1 and _u(se[0].value) == "fh.to_absolute_int(self._y.index[0], self.cutoff)[[0, -1]]",
          "adapter: start, end = fh.to_absolute_int(self._y.index[0], self.cutoff)[[0, -1]]")
    out.append("Definition gen_adapter_position (start cutoff r : Z) : Z := gen_fh_abs_int start (gen_fh_abs cutoff r).\n")


def _cutoff(repo, out):
    with open(os.path.join(repo, "sktime/forecasting/base/_sktime.py")) as f:
        mod = ast.parse(f.read())
    cls = find(mod, "_SktimeForecaster")

    def check_call(st, targets, allow_empty):
        _need(isinstance(st, ast.Assign) and _u(st.targets[0]) == targets and isinstance(st.value, ast.Call)
              and _u(st.value.func) == "check_y_X" and [_u(a) for a in st.value.args] == ["y", "X"],
              "%s = check_y_X(y, X, ...)" % targets, st)
        kw = {k.arg: _u(k.value) for k in st.value.keywords}
        _need(kw.get("allow_empty") in ("True", "False"), "allow_empty literal", st)
        return "true" if kw["allow_empty"] == "True" else "false"

    def set_cutoff_pos(st, what):
        _need(isinstance(st, ast.Expr) and isinstance(st.value, ast.Call) and _u(st.value.func) == "self._set_cutoff"
              and len(st.value.args) == 1 and isinstance(st.value.args[0], ast.Subscript)
              and _u(st.value.args[0].value) == "y.index", "%s: self._set_cutoff(y.index[k])" % what, st)
        return _int_expr(st.value.args[0].slice, {})

    fn = find(cls, "_set_y_X")
    b = body_of(fn)
    _need(argnames(fn)[:3] == ["self", "y", "X"] and len(b) == 2, "_set_y_X: two statements")
    out.append("Definition gen_fit_allow_empty : bool := %s.\n" % check_call(b[0], "(self._y, self._X)", None))
    out.append("(* python position in y.index of the cutoff after fit *)\n"
               "Definition gen_fit_cutoff_pos : Z := %s.\n" % set_cutoff_pos(b[1], "_set_y_X"))
    fn = find(cls, "_update_y_X")
    b = body_of(fn)
    _need(argnames(fn)[:3] == ["self", "y", "X"] and len(b) == 2 and isinstance(b[1], ast.If) and not b[1].orelse,
          "_update_y_X: check_y_X; if <non-empty>: ...")
    out.append("Definition gen_update_allow_empty : bool := %s.\n" % check_call(b[0], "(y, X)", None))
    t = b[1].test
    _need(isinstance(t, ast.Compare) and len(t.ops) == 1 and _u(t.left) == "len(y)", "guard on len(y)", t)
    sym = {ast.Gt: ">?", ast.GtE: ">=?", ast.Lt: "<?", ast.LtE: "<=?", ast.Eq: "=?"}.get(type(t.ops[0]))
    _need(sym is not None, "guard comparison", t)
    out.append("(* the batch of length k is merged and moves the cutoff iff *)\n"
               "Definition gen_update_guard (k : Z) : bool := (k %s %s).\n" % (sym, _int_expr(t.comparators[0], {})))
    ub = b[1].body
    _need(len(ub) == 3 and _u(ub[0]) == "self._y = y.combine_first(self._y)", "merge: self._y = y.combine_first(self._y)", ub[0])
    out.append("Definition gen_update_cutoff_pos : Z := %s.\n" % set_cutoff_pos(ub[1], "_update_y_X"))
    _need(isinstance(ub[2], ast.If) and _u(ub[2].test) == "X is not None", "X update", ub[2])
    fn = find(cls, "_set_cutoff")
    _need(argnames(fn) == ["self", "cutoff"] and [_u(s) for s in body_of(fn)] == ["self._cutoff = cutoff"],
          "_set_cutoff stores its argument")
    fn = find(cls, "cutoff")
    _need([_u(d) for d in fn.decorator_list] == ["property"] and [_u(s) for s in body_of(fn)] == ["return self._cutoff"],
          "cutoff property returns self._cutoff")
    # every other store to _cutoff is the constructor's None or the context manager restoring it
    stores = [(qn, _u(n)) for qn, f2 in _functions(mod) for n in ast.walk(f2)
              if isinstance(n, ast.Assign) and any(_u(t) == "self._cutoff" for t in n.targets)]
    _need(sorted(stores) == [("_SktimeForecaster.__init__", "self._cutoff = None"),
                             ("_SktimeForecaster._set_cutoff", "self._cutoff = cutoff")],
          "unexpected stores to self._cutoff: %s" % stores)
    # update: move the data / cutoff first, then (update_params) refit on ALL data with the horizon
    # seen so far
    fn = find(cls, "update")
    b = body_of(fn)
    _need(argnames(fn) == ["self", "y", "X", "update_params"] and len(b) == 4
          and _u(b[0]) == "self.check_is_fitted()" and _u(b[1]) == "self._update_y_X(y, X)"
          and isinstance(b[2], ast.If) and _u(b[2].test) == "update_params" and not b[2].orelse
          and _u(b[3]) == "return self", "update: check_is_fitted; _update_y_X; if update_params: refit; return self")
    rb = [s for s in b[2].body if not (isinstance(s, ast.Expr) and isinstance(s.value, ast.Call)
                                        and _u(s.value.func) == "warn")]
    _need([_u(s) for s in rb] == ["self._is_fitted = False", "self.fit(self._y, self._X, self._fh)"],
          "refit: self._is_fitted = False; self.fit(self._y, self._X, self._fh)")
    out.append("(* update(update_params=True) refits on all remembered data, handing over the horizon seen so\n"
               "   far (possibly none) to a forecaster marked as not fitted *)\n"
               "Definition gen_refit_on_all_data : bool := true.\n"
               "Definition gen_refit_needs_horizon : bool := false.\n")
    fn = find(cls, "predict")
    b = body_of(fn)
    _need(argnames(fn)[:2] == ["self", "fh"] and [_u(s) for s in b] ==
          ["self.check_is_fitted()", "self._set_fh(fh)",
           "return self._predict(self.fh, X, return_pred_int=return_pred_int, alpha=alpha)"],
          "predict: check_is_fitted; _set_fh(fh); return self._predict(self.fh, ...)")
    fn = find(cls, "fh")
    b = body_of(fn)
    _need([_u(d) for d in fn.decorator_list] == ["property"] and len(b) == 2 and isinstance(b[0], ast.If)
          and _u(b[0].test) == "self._fh is None" and isinstance(b[0].body[0], ast.Raise)
          and _u(b[1]) == "return self._fh", "fh property: raise if unset, else self._fh")


HEADER = """(* GENERATED by translator/sites_c03.py from sktime/forecasting (base/_sktime.py and every file in
   the scope of C03) -- do not edit, never committed. *)
From Coq Require Import ZArith List Bool.
Require Import SkV.Lib.Base SkV.C11.Model SkV.C11.Gen.
Import ListNotations.
Open Scope Z_scope.

"""


def translate(repo):
    out = [HEADER]
    _cutoff(repo, out)
    _index_sites(repo, out)
    return {"C03/Site.v": "\n".join(out)}


if __name__ == "__main__":
    import sys
    print(translate(sys.argv[1] if len(sys.argv) > 1 else "/repo")["C03/Site.v"])
