"""C03 site extractor: regenerates from /repo on every run (build/coq/C03/Site.v)

  * the cutoff bookkeeping of _SktimeForecaster: `_set_y_X` (cutoff := y.index[k], allow_empty),
    `_update_y_X` (the non-empty guard, merge, cutoff := y.index[k]), `_set_cutoff`, the `cutoff`
    property, `update` (what is refitted on, with which horizon) and `predict`
    (check_is_fitted; _set_fh(fh); _predict(self.fh, ...));
  * EVERY prediction-index site of the forecasters in scope: each `pd.Series(...)` construction and
    each `<x>.index = ...` assignment in the scope files (and the label selection of the statsmodels
    adapter) must label by `<horizon>.to_absolute(self.cutoff)`; one `gen_index_<site>` per site,
    all instances of the regenerated ForecastingHorizon.to_absolute expression (C11/Gen.v).

Fail-closed: an unknown statement shape in the pinned functions, a Series built without `index=`,
an index expression that is not `<fh>.to_absolute(self.cutoff)` (directly or through a local bound
exactly once), or a missing expected site raises `Unsupported`.  coq/C03/Bridge.v proves the
generated definitions equal to the model's for all arguments.
"""
import ast
import os

from .naive_c11 import Unsupported, _int_expr, _need, _u, argnames, body_of, find

SCOPE = [
    "sktime/forecasting/base/_sktime.py", "sktime/forecasting/base/_base.py",
    "sktime/forecasting/base/_meta.py", "sktime/forecasting/naive.py", "sktime/forecasting/trend.py",
    "sktime/forecasting/base/adapters/_statsmodels.py", "sktime/forecasting/exp_smoothing.py",
    "sktime/forecasting/theta.py", "sktime/forecasting/ets.py", "sktime/forecasting/compose/_reduce.py",
    "sktime/forecasting/compose/_ensemble.py", "sktime/forecasting/compose/_pipeline.py",
    "sktime/forecasting/compose/_stack.py", "sktime/forecasting/compose/_multiplexer.py",
    "sktime/forecasting/model_selection/_tune.py",
]
HORIZONS = ("fh", "self.fh", "fh_out")
# `<x>.index = ...` that is not a prediction index
NOT_PREDICTION = {("sktime/forecasting/base/adapters/_statsmodels.py", "_coerce_int_to_range_index")}
# sites the theorems rely on: they must exist
EXPECTED = ["sktime_BaseWindowForecaster_predict_fixed_cutoff", "sktime_SktimeForecaster_get_y_pred",
            "trend_PolynomialTrendForecaster_predict", "statsmodels_StatsModelsAdapter_predict",
            "stack_StackingForecaster_predict"]


def _functions(mod):
    """(qualified name, FunctionDef) for module-level functions and methods"""
    for n in mod.body:
        if isinstance(n, ast.FunctionDef):
            yield n.name, n
        elif isinstance(n, ast.ClassDef):
            for m in n.body:
                if isinstance(m, ast.FunctionDef):
                    yield n.name + "." + m.name, m


def _single_assignments(fn):
    """local names bound exactly once in fn by a plain assignment (no loop / augmented / tuple
    target, not a parameter): they stand for their value wherever they are used"""
    params = {a.arg for a in fn.args.args + fn.args.kwonlyargs}
    stores = {}
    for n in ast.walk(fn):
        if isinstance(n, ast.Name) and isinstance(n.ctx, (ast.Store, ast.Del)):
            stores[n.id] = stores.get(n.id, 0) + 1
    env = {}
    for n in ast.walk(fn):
        if isinstance(n, ast.Assign) and len(n.targets) == 1 and isinstance(n.targets[0], ast.Name):
            name = n.targets[0].id
            if stores.get(name) == 1 and name not in params:
                env[name] = n.value
    return env


def _resolved(fn, e):
    """e with the single-assignment locals of fn substituted (data flow instead of names)"""
    from . import canon_c11 as C
    env = _single_assignments(fn)
    for _ in range(6):
        new = C.subst(e, env)
        if _u(new) == _u(e):
            break
        e = new
    return e


def _is_abs_index(fn, e, to_pandas=False):
    """<horizon>.to_absolute(self.cutoff) (cutoff positional or by keyword, possibly through locals)"""
    from .naive_c11 import bound_args
    e = _resolved(fn, e)
    if to_pandas:
        if not (isinstance(e, ast.Call) and isinstance(e.func, ast.Attribute) and e.func.attr == "to_pandas"
                and not e.args and not e.keywords):
            return False
        e = e.func.value
    def is_horizon(h):
        """the forecasting horizon in use, or its in-sample / out-of-sample part"""
        if _u(h) in HORIZONS:
            return True
        if (isinstance(h, ast.Call) and isinstance(h.func, ast.Attribute)
                and h.func.attr in ("to_out_of_sample", "to_in_sample") and is_horizon(h.func.value)):
            try:
                (c0,) = bound_args(h, ["cutoff"])
            except Unsupported:
                return False
            return _u(c0) == "self.cutoff"
        return False
    if not (isinstance(e, ast.Call) and isinstance(e.func, ast.Attribute) and e.func.attr == "to_absolute"
            and is_horizon(e.func.value)):
        return False
    try:
        (c,) = bound_args(e, ["cutoff"])
    except Unsupported:
        return False
    return _u(c) == "self.cutoff"


def _index_sites(repo, out):
    found = []
    for rel in SCOPE:
        with open(os.path.join(repo, rel)) as f:
            mod = ast.parse(f.read())
        stem = os.path.basename(rel)[:-3].strip("_")
        for qn, fn in _functions(mod):
            k = 0
            for n in ast.walk(fn):
                site = None
                if isinstance(n, ast.Call) and _u(n.func) == "pd.Series":
                    kw = {x.arg: x.value for x in n.keywords}
                    _need("index" in kw, "%s: %s builds a pd.Series without index=" % (rel, qn), n)
                    _need(_is_abs_index(fn, kw["index"]),
                          "%s: %s labels a pd.Series by something else than <fh>.to_absolute(self.cutoff)"
                          % (rel, qn), n)
                    site = True
                elif isinstance(n, ast.Assign) and any(
                        isinstance(t, ast.Attribute) and t.attr == "index" for t in n.targets):
                    if (rel, qn) in NOT_PREDICTION:
                        continue
                    _need(len(n.targets) == 1 and _is_abs_index(fn, n.value),
                          "%s: %s sets an index to something else than <fh>.to_absolute(self.cutoff)"
                          % (rel, qn), n)
                    site = True
                elif (rel.endswith("_statsmodels.py") and qn == "_StatsModelsAdapter._predict"
                      and isinstance(n, ast.Return)):
                    # <dense forecast of the wrapped model>.loc[<fh>.to_absolute(self.cutoff).to_pandas()]
                    v = _resolved(fn, n.value)
                    _need(isinstance(v, ast.Subscript) and isinstance(v.value, ast.Attribute) and v.value.attr == "loc"
                          and _is_abs_index(fn, v.slice, to_pandas=True),
                          "%s: %s must select <dense forecast>.loc[fh.to_absolute(self.cutoff).to_pandas()]"
                          % (rel, qn), n)
                    site = True
                if site:
                    k += 1
                    name = "%s_%s" % (stem, qn.replace(".", "").replace("__", "_").strip("_"))
                    name = name.replace("__", "_") + ("" if k == 1 else "_%d" % k)
                    found.append((name, rel, qn))
    names = [n for n, _, _ in found]
    for e in EXPECTED:
        _need(e in names, "expected prediction-index site %s not found (found: %s)" % (e, names))
    out.append("(* prediction-index sites: label of the relative step r from the cutoff *)\n")
    for name, rel, qn in found:
        out.append("Definition gen_index_%s (cutoff r : Z) : Z := gen_fh_abs cutoff r.   (* %s: %s *)\n"
                   % (name, rel, qn))
    out.append("Definition gen_index_sites : list (Z -> Z -> Z) :=\n  [%s].\n"
               % "; ".join("gen_index_" + n for n in names))
    # the adapter asks the wrapped model for the zero-based positions first..last of the same horizon:
    # the returned value is self._fitted_forecaster.predict(P[[0, -1]][0], P[[0, -1]][1]).loc[...] with
    # P = fh.to_absolute_int(self._y.index[0], self.cutoff)  (canonical tree: names do not matter)
    from . import canon_c11 as C
    from .naive_c11 import _decider, bound_args, select
    with open(os.path.join(repo, "sktime/forecasting/base/adapters/_statsmodels.py")) as f:
        amod = ast.parse(f.read())
    acls = find(amod, "_StatsModelsAdapter")
    fn = find(acls, "_predict")
    scope = C.Scope(cls=acls, mod=amod, repo=repo)
    effs, leaf = select(C.of(fn, scope), _decider({"return_pred_int": False}), "_StatsModelsAdapter._predict")
    _need(not effs and leaf[0] == "RET" and isinstance(leaf[1], ast.Subscript)
          and isinstance(leaf[1].value, ast.Attribute) and leaf[1].value.attr == "loc",
          "adapter: return <dense>.loc[...]")
    dense = leaf[1].value.value
    _need(isinstance(dense, ast.Call) and _u(dense.func) == "self._fitted_forecaster.predict",
          "adapter: the dense forecast is self._fitted_forecaster.predict(start, end)", dense)
    p_start, p_end = bound_args(dense, ["start", "end"])

    def endpoint(e, which):
        """P[[0, -1]][which]  or  P[0] / P[-1]"""
        if isinstance(e, ast.Subscript) and isinstance(e.value, ast.Subscript) and _u(e.value.slice) == "[0, -1]" \
                and _u(e.slice) == str(which):
            return e.value.value
        if isinstance(e, ast.Subscript) and _u(e.slice) == ("0" if which == 0 else "-1"):
            return e.value
        raise Unsupported("adapter: start / end must be the first / last requested position: %s" % _u(e))
    pos = [endpoint(p_start, 0), endpoint(p_end, 1)]
    for v in pos:
        _need(isinstance(v, ast.Call) and isinstance(v.func, ast.Attribute) and v.func.attr == "to_absolute_int"
              and _u(v.func.value) in HORIZONS, "adapter: positions come from fh.to_absolute_int(...)", v)
        a_start, a_cut = bound_args(v, ["start", "cutoff"])
        _need(_u(a_start) == "self._y.index[0]" and _u(a_cut) == "self.cutoff",
              "adapter: zero-based positions from self._y.index[0] and self.cutoff", v)
    out.append("Definition gen_adapter_position (start cutoff r : Z) : Z := gen_fh_abs_int start (gen_fh_abs cutoff r).\n")


def _cutoff(repo, out):
    """pins by data flow (canonical decision trees, translator/canon_c11.py): invariant under guard
    clauses, temporaries, conditional expressions, keyword order"""
    from . import canon_c11 as C
    from .naive_c11 import _decider, _kw, select
    with open(os.path.join(repo, "sktime/forecasting/base/_sktime.py")) as f:
        mod = ast.parse(f.read())
    cls = find(mod, "_SktimeForecaster")
    # private helpers are inlined wherever they live; these hooks are the roles the pins talk about
    scope = C.Scope(cls=cls, mod=mod, repo=repo,
                    keep={"_set_cutoff", "_update_y_X", "_set_y_X", "_set_fh", "_predict", "_update_X"})

    def checked(e, what):
        """e = check_y_X(y, X, allow_empty=<bool>, ...): returns the flag"""
        _need(isinstance(e, ast.Call) and _u(e.func) == "check_y_X" and [_u(a) for a in e.args] == ["y", "X"]
              and _u(_kw(e).get("allow_empty", ast.Constant(None))) in ("True", "False"),
              "%s: check_y_X(y, X, allow_empty=<bool>, ...)" % what, e)
        return _u(_kw(e)["allow_empty"]) == "True"

    def cutoff_pos(st, series, what):
        """st = self._set_cutoff(<series>.index[k]) -> k"""
        c = st.value if isinstance(st, ast.Expr) else None
        _need(isinstance(c, ast.Call) and _u(c.func) == "self._set_cutoff" and len(c.args) == 1 and not c.keywords
              and isinstance(c.args[0], ast.Subscript) and isinstance(c.args[0].value, ast.Attribute)
              and c.args[0].value.attr == "index" and series(c.args[0].value.value),
              "%s: self._set_cutoff(<the new data>.index[k])" % what, st)
        return _int_expr(c.args[0].slice, {})

    # _set_y_X: (self._y, self._X) = check_y_X(y, X, allow_empty=False); self._set_cutoff(y.index[k])
    fn = find(cls, "_set_y_X")
    _need(argnames(fn)[:3] == ["self", "y", "X"], "_set_y_X signature")
    effs, leaf = select(C.of(fn, scope), _decider({}), "_set_y_X")
    _need(leaf[0] in ("END", "RET") and (leaf[0] == "END" or leaf[1] is None) and len(effs) == 2
          and all(e[0] == "EFF" for e in effs), "_set_y_X: store the checked data, set the cutoff")
    a = effs[0][1]
    _need(isinstance(a, ast.Assign) and _u(a.targets[0]) == "(self._y, self._X)", "_set_y_X stores self._y, self._X", a)
    out.append("Definition gen_fit_allow_empty : bool := %s.\n" % ("true" if checked(a.value, "_set_y_X") else "false"))
    is_y = lambda e: _u(e) == "y" or (isinstance(e, ast.Subscript) and _u(e.slice) == "0"
                                      and isinstance(e.value, ast.Call) and _u(e.value.func) == "check_y_X")
    out.append("(* python position in y.index of the cutoff after fit *)\n"
               "Definition gen_fit_cutoff_pos : Z := %s.\n" % cutoff_pos(effs[1][1], is_y, "_set_y_X"))

    # _update_y_X: on the checked batch Y (allow_empty=True): merged and cutoff moved iff <guard on len(Y)>
    fn = find(cls, "_update_y_X")
    _need(argnames(fn)[:3] == ["self", "y", "X"], "_update_y_X signature")
    flags = []

    def is_checked_y(e):
        if isinstance(e, ast.Subscript) and _u(e.slice) == "0" and isinstance(e.value, ast.Call):
            flags.append(checked(e.value, "_update_y_X"))
            return True
        return False

    def len_test(t):
        """a comparison of len(Y) with an integer -> Gallina bool on k, or None"""
        if isinstance(t, ast.Compare) and len(t.ops) == 1:
            sym = {ast.Gt: ">?", ast.GtE: ">=?", ast.Lt: "<?", ast.LtE: "<=?", ast.Eq: "=?"}.get(type(t.ops[0]))
            neg = isinstance(t.ops[0], ast.NotEq)
            le, ri = t.left, t.comparators[0]

            def side(e):
                if isinstance(e, ast.Call) and _u(e.func) == "len" and len(e.args) == 1 and is_checked_y(e.args[0]):
                    return "k"
                try:
                    return _int_expr(e, {})
                except Unsupported:
                    return None
            a, b = side(le), side(ri)
            if a is not None and b is not None and "k" in (a, b):
                if neg:
                    return "(negb (%s =? %s))" % (a, b)
                if sym:
                    return "(%s %s %s)" % (a, sym, b)
        return None

    def effect(t, merged, pos):
        if t[0] == "IF":
            g = len_test(t[1])
            if g is not None:
                return "(if %s then %s else %s)" % (g, effect(t[2], merged, pos), effect(t[3], merged, pos))
            if C.only_raises(t[2]) and not C.only_raises(t[3]):       # a validation of the arguments
                return effect(t[3], merged, pos)
            if C.only_raises(t[3]) and not C.only_raises(t[2]):
                return effect(t[2], merged, pos)
            a, b = effect(t[2], merged, pos), effect(t[3], merged, pos)   # the test is about X only
            _need(a == b, "_update_y_X: the handling of X changes what happens to y")
            return a
        if t[0] == "EFF":
            st = t[1]
            u = " ".join(_u(st).split())
            if isinstance(st, ast.Assign) and _u(st.targets[0]) == "self._y":
                v = st.value
                _need(isinstance(v, ast.Call) and isinstance(v.func, ast.Attribute) and v.func.attr == "combine_first"
                      and is_checked_y(v.func.value) and [_u(x) for x in v.args] == ["self._y"],
                      "merge: self._y = <new data>.combine_first(self._y)", st)
                _need(not merged, "_update_y_X merges twice")
                return effect(t[2], True, pos)
            if isinstance(st, ast.Expr) and isinstance(st.value, ast.Call) and _u(st.value.func) == "self._set_cutoff":
                _need(pos is None, "_update_y_X sets the cutoff twice")
                return effect(t[2], merged, cutoff_pos(st, is_checked_y, "_update_y_X"))
            if isinstance(st, ast.Assign) and _u(st.targets[0]) == "self._X":
                return effect(t[2], merged, pos)
            raise Unsupported("_update_y_X: unexpected effect %s" % u)
        _need(t[0] == "END" or (t[0] == "RET" and t[1] is None), "_update_y_X returns a value / raises")
        if merged and pos is not None:
            return "(Some %s)" % pos
        _need(not merged and pos is None, "_update_y_X: data merged without moving the cutoff (or vice versa)")
        return "None"
    body = effect(C.of(fn, scope), False, None)
    _need(flags and all(flags), "_update_y_X must accept an empty batch (allow_empty=True)")
    out.append("Definition gen_update_allow_empty : bool := true.\n")
    out.append("(* _update_y_X on a batch of k observations: Some p = the batch is merged into the remembered\n"
               "   series and the cutoff becomes its time point at python position p; None = nothing happens *)\n"
               "Definition gen_update_effect (k : Z) : option Z := %s.\n" % body)

    fn = find(cls, "_set_cutoff")
    _need(argnames(fn) == ["self", "cutoff"] and C.show(C.of(fn)) == "EFF(self._cutoff = cutoff);END",
          "_set_cutoff stores its argument")
    fn = find(cls, "cutoff")
    _need([_u(d) for d in fn.decorator_list] == ["property"] and C.show(C.of(fn)) == "RET(self._cutoff)",
          "cutoff property returns self._cutoff")
    # every other store to _cutoff is the constructor's None
    stores = [(qn, _u(n)) for qn, f2 in _functions(mod) for n in ast.walk(f2)
              if isinstance(n, ast.Assign) and any(_u(t) == "self._cutoff" for t in n.targets)]
    _need(sorted(stores) == [("_SktimeForecaster.__init__", "self._cutoff = None"),
                             ("_SktimeForecaster._set_cutoff", "self._cutoff = cutoff")],
          "unexpected stores to self._cutoff: %s" % stores)
    # update: move the data / cutoff first, then (update_params) refit on ALL data with the horizon
    # seen so far, as a not-yet-fitted forecaster
    fn = find(cls, "update")
    _need(argnames(fn) == ["self", "y", "X", "update_params"], "update signature")

    def texts(effs):
        return [" ".join(_u(e[1]).split()) for e in effs if not _u(e[1]).startswith("warn(")]
    e0, l0 = select(C.of(fn, scope), _decider({"update_params": False}), "update")
    e1, l1 = select(C.of(fn, scope), _decider({"update_params": True}), "update")
    _need(texts(e0) == ["self.check_is_fitted()", "self._update_y_X(y, X)"] and l0[0] == "RET" and _u(l0[1]) == "self",
          "update(update_params=False): check_is_fitted; _update_y_X(y, X); return self")
    _need(texts(e1) == ["self.check_is_fitted()", "self._update_y_X(y, X)", "self._is_fitted = False",
                        "self.fit(self._y, self._X, self._fh)"] and l1[0] == "RET" and _u(l1[1]) == "self",
          "update(update_params=True): ...; self._is_fitted = False; self.fit(self._y, self._X, self._fh); return self")
    out.append("(* update(update_params=True) refits on all remembered data, handing over the horizon seen so\n"
               "   far (possibly none) to a forecaster marked as not fitted *)\n"
               "Definition gen_refit_on_all_data : bool := true.\n"
               "Definition gen_refit_needs_horizon : bool := false.\n")
    # update_predict: the moving cutoffs are undone.  By role, not by name: every statement of
    # `_predict_moving_cutoff` that can move the cutoff sits inside a RESTORING REGION, i.e. either
    #   c = self.cutoff; try: <region> finally: self._set_cutoff(c)          (written out), or
    #   with self.<m>(): <region>   where <m> is a context manager of the class whose body is
    #   c = self.cutoff; try: yield finally: self._set_cutoff(c)
    def restoring_try(stmts, yields):
        """stmts = [.., <name> = self.cutoff, .., try: B finally: self._set_cutoff(<name>)]: returns B"""
        for i, st in enumerate(stmts):
            if isinstance(st, ast.Try) and not st.handlers and not st.orelse and len(st.finalbody) == 1:
                fin = st.finalbody[0]
                if isinstance(fin, ast.Expr) and isinstance(fin.value, ast.Call) and _u(fin.value.func) == "self._set_cutoff" \
                        and len(fin.value.args) == 1 and isinstance(fin.value.args[0], ast.Name) and not fin.value.keywords:
                    name = fin.value.args[0].id
                    binds = [b for b in stmts[:i] if isinstance(b, ast.Assign) and len(b.targets) == 1
                             and _u(b.targets[0]) == name]
                    stores = [n for b in stmts for n in ast.walk(b) if isinstance(n, ast.Name) and n.id == name
                              and isinstance(n.ctx, ast.Store)]
                    if len(binds) == 1 and len(stores) == 1 and _u(binds[0].value) == "self.cutoff":
                        is_yield = (len(st.body) == 1 and isinstance(st.body[0], ast.Expr)
                                    and isinstance(st.body[0].value, ast.Yield) and st.body[0].value.value is None)
                        if is_yield == yields:
                            return st
        return None

    def restoring_managers():
        out_ = set()
        for n in cls.body:
            if isinstance(n, ast.FunctionDef) and [_u(d) for d in n.decorator_list] == ["contextmanager"] \
                    and argnames(n) == ["self"]:
                b = body_of(n)
                t = restoring_try(b, yields=True)
                if t is not None and all(isinstance(x, ast.Assign) or x is t for x in b) and b[-1] is t:
                    out_.add(n.name)
        return out_
    fn = find(cls, "_predict_moving_cutoff")
    managers = restoring_managers()
    regions = []
    for n in ast.walk(fn):
        if isinstance(n, ast.With) and len(n.items) == 1 and isinstance(n.items[0].context_expr, ast.Call) \
                and not n.items[0].context_expr.args and isinstance(n.items[0].context_expr.func, ast.Attribute) \
                and _u(n.items[0].context_expr.func.value) == "self" and n.items[0].context_expr.func.attr in managers:
            regions.append(n.body)
    t = restoring_try(body_of(fn), yields=False)
    if t is not None:
        regions.append(t.body)
    _need(len(regions) == 1, "_predict_moving_cutoff: expected one region that puts the cutoff back afterwards "
          "(with <restoring context manager> / try-finally), found %d" % len(regions))
    inside = {id(n) for st in regions[0] for n in ast.walk(st)}
    movers = [n for n in ast.walk(fn) if isinstance(n, ast.Call) and isinstance(n.func, ast.Attribute)
              and n.func.attr in ("_set_cutoff", "update", "_update_predict_single", "_update_y_X", "fit")
              and not (t is not None and any(n is x for x in ast.walk(t.finalbody[0])))]
    _need(movers and all(id(n) in inside for n in movers),
          "_predict_moving_cutoff moves the cutoff outside the region that puts it back")
    out.append("(* update_predict: every move of the cutoff happens inside `with self._detached_cutoff()`, which\n"
               "   puts the cutoff back afterwards *)\n"
               "Definition gen_update_predict_restores_cutoff : bool := true.\n")
    fn = find(cls, "predict")
    _need(argnames(fn)[:2] == ["self", "fh"], "predict signature")
    e, l = select(C.of(fn, scope), _decider({}), "predict")
    _need(texts(e) == ["self.check_is_fitted()", "self._set_fh(fh)"] and l[0] == "RET" and isinstance(l[1], ast.Call)
          and _u(l[1].func) == "self._predict" and l[1].args and _u(l[1].args[0]) == "self.fh",
          "predict: check_is_fitted; _set_fh(fh); return self._predict(self.fh, ...)")
    fn = find(cls, "fh")
    _need([_u(d) for d in fn.decorator_list] == ["property"]
          and C.show(C.of(fn)) in ("IF(self._fh is None){RAISE(ValueError)}{RET(self._fh)}",
                                   "IF(self._fh is not None){RET(self._fh)}{RAISE(ValueError)}"),
          "fh property: raise if unset, else self._fh")


def _set_fh(repo, out):
    """_OptionalForecastingHorizonMixin._set_fh as a whole function body (symbolic evaluator of
    translator/naive_c11.py), once per None-ness of the argument and of the remembered horizon:
    `new` = the horizon check_fh returns for the argument (None = no argument)"""
    from .naive_c11 import Ev, V, B
    with open(os.path.join(repo, "sktime/forecasting/base/_sktime.py")) as f:
        mod = ast.parse(f.read())
    cls = find(mod, "_OptionalForecastingHorizonMixin")
    fn = find(cls, "_set_fh")
    _need(argnames(fn) == ["self", "fh"] and not fn.decorator_list, "_set_fh signature")
    arms = []
    for new_none in (True, False):
        sub = []
        for old_none in (True, False):
            ev = Ev(cls=cls, mod=None)
            env = {"fh": V("NONE") if new_none else V("L", "l"), "self": V("SELF"),
                   "self._fh": V("NONE") if old_none else V("L", "old_l"),
                   "self.is_fitted": B(coq="is_fitted")}

            def result(env2):
                v = env2["self._fh"]
                _need(v.kind in ("NONE", "L"), "_fh kind after _set_fh")
                return "(Ok None)" if v.kind == "NONE" else "(Ok (Some %s))" % v.coq
            sub.append(ev.run(body_of(fn), env, lambda v, e2: (_need(v.kind == "NONE", "_set_fh returns a value"),
                                                               result(e2))[1], result))
        arms.append("  | %s => match old with None => %s | Some old_l => %s end"
                    % ("None" if new_none else "Some l", sub[0], sub[1]))
    out.append("(* _OptionalForecastingHorizonMixin._set_fh: the remembered horizon afterwards, Err = ValueError;\n"
               "   new = check_fh(argument), None = no argument *)\n"
               "Definition gen_set_fh_optional (is_fitted : bool) (old new : option (list Z)) : res (option (list Z)) :=\n"
               "  match new with\n%s\n  end.\n" % "\n".join(arms))
    # is_fitted is the plain flag fit sets
    with open(os.path.join(repo, "sktime/base/_base.py")) as f:
        be = find(ast.parse(f.read()), "BaseEstimator")
    from . import canon_c11 as C
    pf = find(be, "is_fitted")
    _need([_u(d) for d in pf.decorator_list] == ["property"] and C.show(C.of(pf)) == "RET(self._is_fitted)",
          "is_fitted property returns self._is_fitted")


HEADER = """(* GENERATED by translator/sites_c03.py from sktime/forecasting (base/_sktime.py and every file in
   the scope of C03) -- do not edit, never committed. *)
From Coq Require Import ZArith List Bool.
Require Import SkV.Lib.Base SkV.C11.Model SkV.C11.Gen.
Import ListNotations.
Open Scope Z_scope.

"""


def translate(repo):
    out = [HEADER]
    _cutoff(repo, out)
    _set_fh(repo, out)
    _index_sites(repo, out)
    return {"C03/Site.v": "\n".join(out)}


if __name__ == "__main__":
    import sys
    print(translate(sys.argv[1] if len(sys.argv) > 1 else "/repo")["C03/Site.v"])
