"""C12: regenerate the facts of every `Parallel(...)` call site of the anchored files (Sites.v).

Fail closed: every occurrence of the name `Parallel` in a scanned file must be either the joblib
import or the constructor call of a dispatch of the shape

    <target> = [list|tuple|np.array(] Parallel(<keywords>)(<tasks>) [)]
    <tasks>  = delayed(<F>)(<args>) for <vars> in <iterable> [if <filter>]

where the pool object may go through one local name (`pool = Parallel(..)` ... `pool(<tasks>)`),
the tasks may be a generator expression or a list comprehension, given in place, wrapped in
list(..) / tuple(..), or bound to one local name assigned once; anything else raises Unsupported
(a broken tie).  No fact is pinned by source text: strings / comments / layout do not matter.  Per site the following SYNTACTIC facts are
emitted (Model.v `site`); C12/Bridge.v proves `forallb site_ok sites = true` against this file:

  gen_form              the shape above: one `for` (a filter keeps the task order), tasks
                        `delayed(F)(..)`
  kw_ok                 Parallel(...) has only n_jobs / verbose / pre_dispatch / backend / prefer
                        (in particular no `return_as=` that would deliver out of task order)
  bound_whole           the delivered list is bound by a plain assignment to a name or attribute and
                        that name/attribute is never passed to an order-destroying operation
                        (set, sorted, reversed, frozenset, .sort(), .reverse(), shuffle) in the class
  task_resolved         F's definition was found (nested def, module-level def, a method of that
                        name of a class of the same module or - if there is none - of a class the
                        module imports from sktime; imported sktime functions are followed)
  no_shared_rng_arg     no generator object of the enclosing function (a name bound to
                        check_random_state(..) / np.random.RandomState(..) / default_rng(..)) is
                        passed to the task or captured by a nested task function
  task_no_global_rng    F's body never calls np.random.<draw>(..) or random.<draw>(..)
  task_rng_from_seed    every generator F builds is built from a seed VALUE (a parameter,
                        `self.random_state`, `<param>.random_state`, a constant) and every draw
                        (`x.randint(..)`, `x.random()`, `x.choice(..)`, ...) is on such a local one
  task_no_shared_write  F never assigns `self.<attr>` and has no global / nonlocal statement
  draws_before_dispatch every use of a generator name of the enclosing function lies in a statement
                        before the one holding the Parallel call
  njobs_none_ok         nowhere in the file is `n_jobs` / `self.n_jobs` used in a way that fails for
                        None: it is only handed on as the keyword `n_jobs=` of a call
                        (Parallel(n_jobs=..), a constructor), given to check_n_jobs(..), assigned,
                        or compared with ==, !=, is, is not - no `self.n_jobs > 1` style ordering
                        comparison, arithmetic, or other call argument; a local name all of whose
                        bindings are `<name> = check_n_jobs(..)` is an int and may be used freely

Limits (stated in TRUSTED): the facts are about F's own body, not about what F calls; `random_state`
is assumed to hold an int seed.
"""
import ast
import glob
import os

from .pyz import Unsupported

FILES = [
    "sktime/forecasting/base/_meta.py",
    "sktime/forecasting/base/_sktime.py",
    "sktime/series_as_features/base/estimators/interval_based/_tsf.py",
    "sktime/classification/interval_based/_tsf.py",
    "sktime/classification/dictionary_based/_boss.py",
    "sktime/classification/dictionary_based/_cboss.py",
    "sktime/classification/dictionary_based/_tde.py",
    "sktime/transformations/panel/dictionary_based/_sfa.py",
    "sktime/transformations/panel/summarize/_extract.py",
    "sktime/transformations/series/outlier_detection.py",
    "sktime/transformations/series/impute.py",
    "sktime/transformations/series/detrend/_detrend.py",
    "sktime/transformations/series/detrend/_deseasonalize.py",
    "sktime/utils/validation/__init__.py",
]
GLOBS = ["sktime/transformations/panel/*.py"]

PARALLEL_KW = {"n_jobs", "verbose", "pre_dispatch", "backend", "prefer"}
RNG_MAKERS = {"check_random_state", "RandomState", "default_rng"}
DRAWS = {"randint", "random", "rand", "randn", "choice", "uniform", "normal", "permutation",
         "shuffle", "random_sample", "integers", "standard_normal", "sample", "binomial",
         "poisson", "beta", "gamma", "exponential", "bytes", "random_integers", "ranf",
         "multivariate_normal", "dirichlet", "triangular", "laplace", "lognormal"}
ORDER_DESTROYING_FUNCS = {"set", "sorted", "reversed", "frozenset", "shuffle", "sort"}
ORDER_DESTROYING_METHODS = {"sort", "reverse", "pop", "remove", "insert"}


def _u(n):
    return ast.unparse(n)


def _parents(tree):
    par = {}
    for n in ast.walk(tree):
        for c in ast.iter_child_nodes(n):
            par[c] = n
    return par


def _is_rng_maker(call):
    if not isinstance(call, ast.Call):
        return False
    f = call.func
    if isinstance(f, ast.Name):
        return f.id in RNG_MAKERS
    if isinstance(f, ast.Attribute):
        return f.attr in RNG_MAKERS
    return False


def _rng_names(fn):
    """names bound in `fn` (not in nested defs) to a freshly made generator object"""
    out = set()
    for n in _walk_no_nested(fn):
        if isinstance(n, ast.Assign) and _is_rng_maker(n.value):
            for t in n.targets:
                if isinstance(t, ast.Name):
                    out.add(t.id)
    return out


def _walk_no_nested(fn):
    todo = list(fn.body)
    while todo:
        n = todo.pop()
        yield n
        for c in ast.iter_child_nodes(n):
            if isinstance(c, (ast.FunctionDef, ast.AsyncFunctionDef, ast.Lambda, ast.ClassDef)):
                continue
            todo.append(c)


def _seed_like(e, params):
    """an expression that denotes a seed VALUE, not a generator object"""
    if isinstance(e, ast.Constant):
        return e.value is None or isinstance(e.value, int)
    if isinstance(e, ast.Name):
        return e.id in params and "rng" not in e.id.lower()
    if isinstance(e, ast.Attribute):
        return e.attr == "random_state" and isinstance(e.value, ast.Name)
    if isinstance(e, ast.BinOp):
        return _seed_like(e.left, params) and _seed_like(e.right, params)
    return False


def _task_facts(fn):
    """facts about the task function's own body"""
    params = {a.arg for a in fn.args.args + fn.args.kwonlyargs}
    local_rngs = set()
    from_seed = True
    for n in ast.walk(fn):
        if isinstance(n, ast.Assign) and _is_rng_maker(n.value):
            ok = len(n.value.args) == 1 and not n.value.keywords and _seed_like(n.value.args[0],
                                                                               params)
            if not ok:
                from_seed = False
            for t in n.targets:
                if isinstance(t, ast.Name):
                    local_rngs.add(t.id)
                else:
                    from_seed = False      # a generator stored on an object
    no_global = True
    no_shared_write = True
    for n in ast.walk(fn):
        if isinstance(n, (ast.Global, ast.Nonlocal)):
            no_shared_write = False
        if isinstance(n, (ast.Assign, ast.AugAssign, ast.AnnAssign)):
            targets = n.targets if isinstance(n, ast.Assign) else [n.target]
            for t in targets:
                for s in ast.walk(t):
                    if isinstance(s, ast.Attribute) and isinstance(s.value, ast.Name) \
                            and s.value.id == "self":
                        no_shared_write = False
        if isinstance(n, ast.Call) and isinstance(n.func, ast.Attribute):
            recv, attr = n.func.value, n.func.attr
            src = _u(recv)
            if src in ("np.random", "numpy.random", "random") and attr not in RNG_MAKERS \
                    and attr != "SeedSequence":
                no_global = False
            elif attr in DRAWS and src not in ("np.random", "numpy.random", "random"):
                # a draw on some object: fine only on a generator built locally from a seed
                looks_rng = isinstance(recv, ast.Name) and (
                    recv.id in local_rngs or "rng" in recv.id.lower() or "random" in recv.id.lower())
                looks_rng = looks_rng or (isinstance(recv, ast.Attribute) and (
                    "rng" in recv.attr.lower() or "random" in recv.attr.lower()))
                if looks_rng and not (isinstance(recv, ast.Name) and recv.id in local_rngs):
                    from_seed = False
    # a generator made but not bound by a plain assignment (e.g. passed straight on) is not
    # understood: fail closed
    par = _parents(fn)
    for n in ast.walk(fn):
        if _is_rng_maker(n) and not isinstance(par.get(n), ast.Assign):
            from_seed = False
    return no_global, from_seed, no_shared_write


def _resolve_task(F, mod, enclosing, repo, depth=0):
    """FunctionDef nodes F may denote ([] if unresolved)"""
    if isinstance(F, ast.Name):
        for fn in enclosing[::-1]:
            for n in fn.body:
                if isinstance(n, ast.FunctionDef) and n.name == F.id:
                    return [n]
        for n in mod.body:
            if isinstance(n, ast.FunctionDef) and n.name == F.id:
                return [n]
        if depth == 0:
            for n in mod.body:
                if isinstance(n, ast.ImportFrom) and n.module and n.module.startswith("sktime") \
                        and any(a.name == F.id for a in n.names):
                    base = os.path.join(repo, *n.module.split("."))
                    for cand in (base + ".py", os.path.join(base, "__init__.py")):
                        if os.path.exists(cand):
                            with open(cand) as f:
                                m2 = ast.parse(f.read())
                            r = _resolve_task(F, m2, [], repo, depth + 1)
                            if r:
                                return r
        return []
    if isinstance(F, ast.Attribute):
        # <any receiver>.<method>: every method of that name in a class of this module; if there
        # is none, in the classes the module imports from sktime (package __init__ followed once)
        found = _methods_named(mod, F.attr)
        if not found:
            for n in mod.body:
                if isinstance(n, ast.ImportFrom) and n.module and n.module.startswith("sktime") \
                        and not n.level:
                    base = os.path.join(repo, *n.module.split("."))
                    for m2, path2 in _load_module(base):
                        wanted = {a.name for a in n.names}
                        found += _methods_named(m2, F.attr, wanted)
                        if os.path.basename(path2) == "__init__.py":
                            # re-exports: from ._boss import IndividualBOSS
                            for k in m2.body:
                                if isinstance(k, ast.ImportFrom) and k.module and (
                                        k.level == 1 or k.module.startswith("sktime")) \
                                        and wanted & {a.name for a in k.names}:
                                    b3 = (os.path.join(os.path.dirname(path2), *k.module.split("."))
                                          if k.level == 1 else os.path.join(repo, *k.module.split(".")))
                                    for m3, _ in _load_module(b3):
                                        found += _methods_named(m3, F.attr, wanted)
        return found
    return []


def _load_module(base):
    for cand in (base + ".py", os.path.join(base, "__init__.py")):
        if os.path.exists(cand):
            with open(cand) as f:
                return [(ast.parse(f.read()), cand)]
    return []


def _methods_named(mod, name, classes=None):
    found = []
    for c in mod.body:
        if isinstance(c, ast.ClassDef) and (classes is None or c.name in classes):
            for n in c.body:
                if isinstance(n, ast.FunctionDef) and n.name == name:
                    found.append(n)
    return found


def _free_names(fn):
    bound = {a.arg for a in fn.args.args + fn.args.kwonlyargs}
    if fn.args.vararg:
        bound.add(fn.args.vararg.arg)
    if fn.args.kwarg:
        bound.add(fn.args.kwarg.arg)
    for n in ast.walk(fn):
        if isinstance(n, ast.Name) and isinstance(n.ctx, ast.Store):
            bound.add(n.id)
    return {n.id for n in ast.walk(fn) if isinstance(n, ast.Name) and isinstance(n.ctx, ast.Load)
            and n.id not in bound}


def _order_destroyed(scope, is_target):
    """is the bound list ever handed to an order-destroying operation inside `scope`?"""
    for n in ast.walk(scope):
        if isinstance(n, ast.Call):
            fname = n.func.id if isinstance(n.func, ast.Name) else (
                n.func.attr if isinstance(n.func, ast.Attribute) else None)
            if fname in ORDER_DESTROYING_FUNCS and any(is_target(a) for a in n.args):
                return True
            if isinstance(n.func, ast.Attribute) and n.func.attr in ORDER_DESTROYING_METHODS \
                    and is_target(n.func.value):
                return True
    return False


NONE_SAFE_CMP = (ast.Eq, ast.NotEq, ast.Is, ast.IsNot)


def _is_check_call(v):
    return isinstance(v, ast.Call) and (
        (isinstance(v.func, ast.Name) and v.func.id == "check_n_jobs")
        or (isinstance(v.func, ast.Attribute) and v.func.attr == "check_n_jobs"))


def _is_checked_local(name_node, par):
    """a local name every binding of which (in its function) is `<name> = check_n_jobs(..)`"""
    fn = name_node
    while fn in par and not isinstance(fn, ast.FunctionDef):
        fn = par[fn]
    if not isinstance(fn, ast.FunctionDef):
        return False
    if name_node.id in {a.arg for a in fn.args.args + fn.args.kwonlyargs}:
        return False
    stores = [x for x in _walk_no_nested(fn) if isinstance(x, ast.Name) and x.id == name_node.id
              and isinstance(x.ctx, ast.Store)]
    if not stores:
        return False
    for x in stores:
        a = par.get(x)
        if not (isinstance(a, ast.Assign) and len(a.targets) == 1 and a.targets[0] is x
                and _is_check_call(a.value)):
            return False
    return True


def _njobs_none_ok(mod, par):
    """every Load of `n_jobs` / `<obj>.n_jobs` is None-safe (see module docstring)"""
    for n in ast.walk(mod):
        is_nj = (isinstance(n, ast.Name) and n.id == "n_jobs") or (
            isinstance(n, ast.Attribute) and n.attr == "n_jobs")
        if not is_nj or not isinstance(n.ctx, ast.Load):
            continue
        p = par.get(n)
        if isinstance(n, ast.Name) and _is_checked_local(n, par):
            continue                      # n_jobs = check_n_jobs(self.n_jobs): an int from here on
        if isinstance(p, ast.keyword) and p.arg == "n_jobs":
            continue                      # Parallel(n_jobs=..), SFA(n_jobs=..), super().__init__(..)
        if isinstance(p, ast.Call) and n in p.args and (
                (isinstance(p.func, ast.Name) and p.func.id == "check_n_jobs")
                or (isinstance(p.func, ast.Attribute) and p.func.attr == "check_n_jobs")):
            continue
        if isinstance(p, ast.Assign) and p.value is n:
            continue                      # self.n_jobs = n_jobs
        if isinstance(p, ast.Compare) and all(isinstance(o, NONE_SAFE_CMP) for o in p.ops):
            continue                      # n_jobs == 1 / is None: fine for None
        return False
    return True


ORDER_KEEPING_WRAPPERS = {"list", "tuple", "np.array", "np.asarray", "numpy.array", "numpy.asarray"}


def _assigned_once(fn, name):
    """the single `name = <value>` of the function (None if there is none or several, or the name
    is bound in another way: parameter, loop target, augmented assignment, ...)"""
    vals = []
    for n in _walk_no_nested(fn):
        if isinstance(n, ast.Name) and n.id == name and isinstance(n.ctx, ast.Store):
            vals.append(n)
    params = {a.arg for a in fn.args.args + fn.args.kwonlyargs}
    if name in params or len(vals) != 1:
        return None
    return vals[0]


def _dotted(n):
    if isinstance(n, ast.Name):
        return n.id
    if isinstance(n, ast.Attribute):
        b = _dotted(n.value)
        return b + "." + n.attr if b else None
    return None


def _resolve_tasks(e, fn, par, rel):
    """the generator / list comprehension that produces the tasks handed to the pool: given in
    place, wrapped in list(..) / tuple(..), or through a local name assigned exactly once"""
    for _ in range(6):
        if isinstance(e, (ast.GeneratorExp, ast.ListComp)):
            return e
        if isinstance(e, ast.Call) and _dotted(e.func) in ("list", "tuple") and len(e.args) == 1 \
                and not e.keywords:
            e = e.args[0]
            continue
        if isinstance(e, ast.Name):
            st = _assigned_once(fn, e.id)
            asg = par.get(st) if st is not None else None
            if isinstance(asg, ast.Assign) and len(asg.targets) == 1 and asg.targets[0] is st:
                e = asg.value
                continue
        break
    raise Unsupported("%s:%d: the tasks handed to Parallel are not a generator / list comprehension "
                      "`delayed(F)(..) for .. in ..` (in place or through one local name)"
                      % (rel, getattr(e, "lineno", 0)))


def _sites_of(rel, repo):
    path = os.path.join(repo, rel)
    with open(path) as f:
        src = f.read()
    mod = ast.parse(src)
    par = _parents(mod)
    nj_ok = _njobs_none_ok(mod, par)
    uses = [n for n in ast.walk(mod) if isinstance(n, ast.Name) and n.id == "Parallel"]
    attr_uses = [n for n in ast.walk(mod) if isinstance(n, ast.Attribute) and n.attr == "Parallel"]
    if attr_uses:
        raise Unsupported("%s: joblib.Parallel used through an attribute (line %d)"
                          % (rel, attr_uses[0].lineno))
    sites = []
    dispatches = []          # (constructor call, dispatch call, enclosing defs, class)
    for u in uses:
        inner = par.get(u)
        if not (isinstance(inner, ast.Call) and inner.func is u):
            raise Unsupported("%s:%d: `Parallel` used other than as a constructor call"
                              % (rel, u.lineno))
        enclosing, cls = [], None
        n = inner
        while n in par:
            n = par[n]
            if isinstance(n, ast.FunctionDef):
                enclosing.insert(0, n)
            if isinstance(n, ast.ClassDef) and cls is None:
                cls = n
        if not enclosing:
            raise Unsupported("%s:%d: Parallel call outside a function" % (rel, u.lineno))
        fn = enclosing[-1]
        outer = par.get(inner)
        if isinstance(outer, ast.Call) and outer.func is inner:
            dispatches.append((inner, outer, enclosing, cls))          # Parallel(..)(tasks)
            continue
        # pool = Parallel(..) ... pool(tasks): one local name, used only to dispatch
        if isinstance(outer, ast.Assign) and outer.value is inner and len(outer.targets) == 1 \
                and isinstance(outer.targets[0], ast.Name) \
                and _assigned_once(fn, outer.targets[0].id) is outer.targets[0]:
            pname = outer.targets[0].id
            loads = [x for x in _walk_no_nested(fn) if isinstance(x, ast.Name) and x.id == pname
                     and isinstance(x.ctx, ast.Load)]
            if loads and all(isinstance(par.get(x), ast.Call) and par.get(x).func is x
                             for x in loads):
                for x in loads:
                    dispatches.append((inner, par.get(x), enclosing, cls))
                continue
        raise Unsupported("%s:%d: the Parallel(...) object is neither called in place nor bound to "
                          "one local name that is only called" % (rel, u.lineno))
    for inner, outer, enclosing, cls in dispatches:
        u = inner.func
        fn = enclosing[-1]
        facts = {}
        # ---- shape
        if len(outer.args) != 1 or outer.keywords:
            raise Unsupported("%s:%d: the pool is not called with exactly one argument"
                              % (rel, outer.lineno))
        gen = _resolve_tasks(outer.args[0], fn, par, rel)
        ok_shape = (len(gen.generators) == 1 and not gen.generators[0].is_async
                    and isinstance(gen.elt, ast.Call) and isinstance(gen.elt.func, ast.Call)
                    and isinstance(gen.elt.func.func, ast.Name) and gen.elt.func.func.id == "delayed"
                    and len(gen.elt.func.args) == 1 and not gen.elt.func.keywords)
        if not ok_shape:
            raise Unsupported("%s:%d: the tasks are not `delayed(F)(..) for .. in ..`"
                              % (rel, u.lineno))
        facts["gen_form"] = True
        F = gen.elt.func.args[0]
        task_args = list(gen.elt.args) + [k.value for k in gen.elt.keywords]
        facts["kw_ok"] = (len(inner.args) <= 1 and all(
            k.arg in PARALLEL_KW for k in inner.keywords))
        # ---- how the delivered list is bound
        val = outer
        stmt = par.get(val)
        while isinstance(stmt, ast.Call) and _dotted(stmt.func) in ORDER_KEEPING_WRAPPERS \
                and stmt.args and stmt.args[0] is val:
            val, stmt = stmt, par.get(stmt)              # list(Parallel(..)(..)) keeps the order
        bound = False
        if isinstance(stmt, ast.Assign) and stmt.value is val and len(stmt.targets) == 1:
            t = stmt.targets[0]
            if isinstance(t, ast.Name):
                name = t.id
                bound = not _order_destroyed(
                    fn, lambda a: isinstance(a, ast.Name) and a.id == name)
            elif isinstance(t, ast.Attribute) and isinstance(t.value, ast.Name) \
                    and t.value.id == "self":
                attr = t.attr
                bound = not _order_destroyed(
                    cls if cls is not None else fn,
                    lambda a: isinstance(a, ast.Attribute) and a.attr == attr
                    and isinstance(a.value, ast.Name) and a.value.id == "self")
        facts["bound_whole"] = bound
        # ---- the task function
        defs = _resolve_task(F, mod, enclosing, repo)
        facts["task_resolved"] = bool(defs)
        ng, fs, nw = True, True, True
        for d in defs:
            a, b, c = _task_facts(d)
            ng, fs, nw = ng and a, fs and b, nw and c
        facts["task_no_global_rng"] = ng and bool(defs)
        facts["task_rng_from_seed"] = fs and bool(defs)
        facts["task_no_shared_write"] = nw and bool(defs)
        # ---- generator objects of the enclosing function
        rngs = set()
        for e in enclosing:
            rngs |= _rng_names(e)
        shared = False
        for a in task_args:
            for s in ast.walk(a):
                if isinstance(s, ast.Name) and s.id in rngs:
                    shared = True
        for d in defs:
            if any(d in ast.walk(e) for e in enclosing) and (_free_names(d) & rngs):
                shared = True
        # a generator kept on self and handed over
        for a in task_args:
            if isinstance(a, ast.Attribute) and ("rng" in a.attr.lower()
                                                 or a.attr in ("random_state_", "_random_state")):
                shared = True
        facts["no_shared_rng_arg"] = not shared
        while stmt is not None and not isinstance(stmt, ast.stmt):
            stmt = par.get(stmt)
        before = True
        for s in _walk_no_nested(fn):
            if isinstance(s, ast.Name) and isinstance(s.ctx, ast.Load) and s.id in rngs:
                if not (s.lineno < stmt.lineno):
                    before = False
        facts["draws_before_dispatch"] = before
        facts["njobs_none_ok"] = nj_ok
        label = "%s:%s%s -> %s" % (rel.replace("sktime/", ""), (cls.name + ".") if cls else "",
                                   ".".join(e.name for e in enclosing), _u(F))
        key = "%s:%s:%s" % (rel.replace("sktime/", "", 1), enclosing[-1].name,
                            _u(F).split(".")[-1])
        owner = "%s:%s" % (rel.replace("sktime/", "", 1), cls.name if cls else enclosing[0].name)
        sites.append((u.lineno, label, key, facts, owner))
    # every textual occurrence must be accounted for: import lines + sites
    n_import = sum(1 for n in ast.walk(mod) if isinstance(n, ast.ImportFrom)
                   and any(a.name == "Parallel" for a in n.names))
    n_import_as = sum(1 for n in ast.walk(mod) if isinstance(n, (ast.Import, ast.ImportFrom))
                      and any(a.asname and a.name == "Parallel" for a in n.names))
    if n_import_as:
        raise Unsupported("%s: Parallel imported under another name" % rel)
    # every occurrence of the name is accounted for above (constructor calls only); strings and
    # comments do not matter
    if sites and n_import != 1:
        raise Unsupported("%s: Parallel is not imported by `from joblib import Parallel`" % rel)
    return sorted(sites)


FIELDS = ["gen_form", "kw_ok", "bound_whole", "task_resolved", "no_shared_rng_arg",
          "task_no_global_rng", "task_rng_from_seed", "task_no_shared_write",
          "draws_before_dispatch", "njobs_none_ok"]


def extract(repo):
    files = list(FILES)
    for g in GLOBS:
        for p in sorted(glob.glob(os.path.join(repo, g))):
            r = os.path.relpath(p, repo)
            if r not in files:
                files.append(r)
    out = []
    for rel in files:
        if not os.path.exists(os.path.join(repo, rel)):
            raise Unsupported("anchored file missing: " + rel)
        for lineno, label, key, facts, owner in _sites_of(rel, repo):
            out.append({"file": rel, "line": lineno, "label": label, "key": key, "facts": facts,
                        "owner": owner})
    return files, out


def _cs(s):
    return '"' + s.replace('"', '""') + '"'


def translate(repo):
    files, sites = extract(repo)
    lines = ["(* GENERATED by /verif/translator/sites_c12.py from %d files of %s -- do not edit, "
             "never committed *)" % (len(files), repo),
             "From Coq Require Import List Bool String.",
             "Require Import SkV.C12.Model.",
             "Import ListNotations.",
             "Open Scope string_scope.", "",
             "Definition scanned_files : list string := ["]
    lines.append(";\n".join("  " + _cs(f) for f in files))
    lines.append("].\n")
    lines.append("Definition sites : list site := [")
    body = []
    for i, s in enumerate(sites):
        f = s["facts"]
        body.append("  (* %s (line %d) *)\n  {| sid := %d%%nat; %s |}" % (
            s["label"], s["line"], i,
            "; ".join("%s := %s" % (k, "true" if f[k] else "false") for k in FIELDS)))
    lines.append(";\n".join(body))
    lines.append("].\n")
    lines.append("Definition site_keys : list string := [")
    lines.append(";\n".join("  " + _cs(s["key"]) for s in sites))
    lines.append("].\n")
    lines.append("(* file:class that owns each site (invariant under renaming helpers / tasks) *)")
    lines.append("Definition site_owners : list string := [")
    lines.append(";\n".join("  " + _cs(s["owner"]) for s in sites))
    lines.append("].\n")
    return {"C12/Sites.v": "\n".join(lines)}
