"""C17: regenerate `_slope` (sktime/utils/slope_and_trend.py) as a Gallina function over list Q.

Fail closed, by SYMBOLIC EXECUTION (translator/symexec_c19.py): the function is executed on a
symbolic series `y` and axis; local names are an environment (renaming changes nothing); the VALUE
it returns is translated by a small typed term translator (V = vector along `axis`, S = scalar).
What is checked on the way: a 1-D input only becomes a column (`reshape`, no arithmetic); the time
index is `np.arange(y.shape[axis])` reshaped with a shape of ones whose entry `axis` is turned into
-1 (so that it broadcasts ALONG `axis`); means of vectors are taken along `axis` (or over the whole
time index).  Anything else raises Unsupported -> the harness reports a broken tie.

The generated C17/Gen.v defines `gen_slope : list Q -> Q` (one series; numpy applies the same
expression to every series along `axis`).  C17/Bridge.v proves gen_slope == Model.code_slope for all
lists, Proofs.v proves code_slope == the OLS closed form for length >= 2.
"""
import ast
import os

from . import symexec_c19
from .pyz import Unsupported  # noqa: F401
from .symexec_c19 import C, Ctx, Exec, _fail, _params, collapse, fn_of, show

Y, AXIS = ("param", "y"), ("param", "axis")


def translate(repo):
    symexec_c19.TAG[0] = "slope_c17"
    path = os.path.join(repo, "sktime", "utils", "slope_and_trend.py")
    with open(path) as f:
        mod = ast.parse(f.read())
    reshapes = []

    def hook(t):
        # reshape changes the shape, not the values: remember what was reshaped how
        if t[0] == "call" and t[1][0] == "attr" and t[1][2] == "reshape":
            reshapes.append((t[1][1], t[2], t[3]))
            return t[1][1]
        return t
    ctx = Ctx(mod, None, primitives=set(), hook=hook)
    fns = [n for n in mod.body if isinstance(n, ast.FunctionDef) and n.name == "_slope"]
    if len(fns) != 1:
        _fail("_slope not found")
    fn = fns[0]
    names, _d = _params(fn, False)
    if names != ["y", "axis"]:
        _fail("signature of _slope changed", fn)
    node = collapse(Exec(ctx).run_function(fn, {"y": Y, "axis": AXIS}))
    effs = []
    while node[0] == "eff":
        effs.append(node[1])
        node = node[2]
    if node[0] != "ret":
        _fail("_slope must return one value on every path (found %s)" % node[0])
    value = node[1]
    n_time = ("sub", ("attr", Y, "shape"), AXIS)
    arange = ("call", ("attr", ("global", "np"), "arange"), (n_time,), ())
    # the reshapes: y -> a column (any), the time index -> ones with -1 at `axis`
    ones = None
    for what, args, kws in reshapes:
        if what == Y:
            if list(args) != [C(-1), C(1)] or kws:
                _fail("_slope: y may only be reshaped into a column", what)
        elif what == arange:
            if len(args) != 1 or kws:
                _fail("_slope: reshape of the time index", what)
            ones = args[0]
        else:
            _fail("_slope: unexpected reshape of %s" % show(what))
    if ones is None or not (fn_of(ones) == "np.ones" and ones[2] and ones[2][0] == ("attr", Y, "ndim")):
        _fail("_slope: the time index must be reshaped with a shape of y.ndim ones", ones)
    flips = [e for e in effs if e[0] == "augitem"]
    if flips != [("augitem", ones, AXIS, "Mult", C(-1))]:
        _fail("_slope: the shape of the time index must get -1 at `axis` (and nothing else)")
    for e in effs:
        if e[0] == "call" and (fn_of(e) or "").split(".")[0] in ("np",) or e[0] == "augitem":
            continue
        if e[0] == "call" and e[1][0] == "attr" and e[1][2] in ("mean", "reshape"):
            continue
        _fail("_slope: unexpected operation", e)

    def tr(t):
        """-> (coq text, 'V' | 'S')"""
        if t == Y:
            return "ys", "V"
        if t == arange:
            return "(arange (length ys))", "V"
        if t[0] == "const" and isinstance(t[1], int) and not isinstance(t[1], bool):
            return "(inject_Z (%d))" % t[1], "S"
        if t[0] in ("add", "binop"):
            if t[0] == "add":
                op, a, b = "+", t[1], t[2]
            else:
                if t[1] == "Pow":
                    x, tx = tr(t[2])
                    if tx == "S" and t[3] == C(2):
                        return "(%s * %s)" % (x, x), "S"
                    _fail("_slope: power", t)
                ops = {"Sub": "-", "Mult": "*", "Div": "/"}
                if t[1] not in ops:
                    _fail("_slope: operator", t)
                op, a, b = ops[t[1]], t[2], t[3]
            x, tx = tr(a)
            y2, ty = tr(b)
            if tx == "S" and ty == "S":
                return "(%s %s %s)" % (x, op, y2), "S"
            if tx == "V" and ty == "V" and op == "*":
                return "(vmul %s %s)" % (x, y2), "V"
            if tx == "V" and ty == "S" and op == "+":
                return "(vaddc %s %s)" % (x, y2), "V"
            if tx == "S" and ty == "V" and op == "+":
                return "(vaddc %s %s)" % (y2, x), "V"
            _fail("_slope: broadcast shape", t)
        if t[0] == "call":
            if fn_of(t) == "np.mean" and len(t[2]) == 1 and t[3] == (("axis", AXIS),):
                x, tx = tr(t[2][0])
                if tx == "V":
                    return "(qmean %s)" % x, "S"
            if t[1][0] == "attr" and t[1][2] == "mean" and not t[2] and not t[3]:
                x, tx = tr(t[1][1])
                if tx == "V" and not _mentions_series(t[1][1], arange):
                    return "(qmean %s)" % x, "S"        # mean over the whole time index
            _fail("_slope: call", t)
        _fail("_slope: expression", t)

    txt, ty = tr(value)
    if ty != "S":
        _fail("_slope: the returned expression is not one value per series")
    gen = ["(* GENERATED by translator/slope_c17.py from sktime/utils/slope_and_trend.py::_slope."
           " Do not edit. *)",
           "From Coq Require Import QArith List ZArith.",
           "Require Import SkV.C17.Model.",
           "Import ListNotations.",
           "Open Scope Q_scope.",
           "",
           "Definition gen_slope (ys : list Q) : Q :=",
           "  " + txt + ".", ""]
    return {"C17/Gen.v": "\n".join(gen)}


def _mentions_series(t, arange):
    """does the term depend on the series' VALUES (the length of the time index does not count)"""
    if t == arange:
        return False
    if t == Y:
        return True
    return isinstance(t, tuple) and any(_mentions_series(x, arange) for x in t)


if __name__ == "__main__":
    import sys
    print(translate(sys.argv[1] if len(sys.argv) > 1 else "/repo")["C17/Gen.v"])
