"""C01: regenerate the integer arithmetic of sktime/forecasting/model_selection/_split.py."""
import ast
import os

from .pyz import Unsupported, arange, const, identity_first, prim, translate_function

SRC = "sktime/forecasting/model_selection/_split.py"

Y = ("y", "n", "Y")
FH = ("fh", "fh", "L")
SELF_WINDOW = {
    "self.fh": ("fh", "L"), "self.window_length": ("wl", "Z"), "self.step_length": ("step", "Z"),
    "self.initial_window": ("iw", "O"), "self.start_with_window": ("sww", "B"),
}

CALLS = {
    "fh.is_all_in_sample": const("(forallb (fun h => h <=? 0) fh)", "B"),
    "fh.is_all_out_of_sample": const("(forallb (fun h => 0 <? h) fh)", "B"),
    "fh.to_numpy": const("fh", "L"),
    "np.arange": arange,
    "range": arange,
    "np.max": prim("(zmax_list %s)", ["L"], "Z"),
    "abs": prim("(Z.abs %s)", ["Z"], "Z"),
    "len": prim("(Z.of_nat (length %s))", ["L"], "Z"),
    "np.array": lambda tr, e, env: _np_array(tr, e, env),
    "hasattr": const("true", "B"),
    "check_step_length": identity_first,
    "check_window_length": identity_first,
    "check_cutoffs": identity_first,
    "_check_fh": identity_first,
    "_check_y": identity_first,
    "check_y": identity_first,
    "check_fh": identity_first,
    "fh.to_pandas": const("fh", "L"),
    "idx.max": const("(zmax_list fh)", "Z"),
    "idx.min": const("(zmin_list fh)", "Z"),
    "fh.to_indexer": const("(map (fun h_ => h_ - 1) fh)", "L"),
    "_get_end": prim("(gen_get_end %s %s)", ["Y", "L"], "Z"),
    "_check_window_lengths": prim("(gen_check_window_lengths %s %s %s %s)",
                                  ["Y", "L", "Z", "O"], "RU"),
    "self._get_start": prim("(gen_get_start wl step iw sww %s)", ["L"], "Z"),
    "self._split_windows": prim("(split_windows %s %s %s %s %s)", ["Z", "Z", "Z", "Z", "L"], "LP"),
    "self._split": prim("(inner_split %s)", ["Y"], "RLP"),
}


def _loc(tr, e, env):
    raise Unsupported("loc call")


def _np_array(tr, e, env):
    if len(e.args) == 1 and isinstance(e.args[0], ast.List) and len(e.args[0].elts) == 1:
        t, ty = tr.expr(e.args[0].elts[0], env)
        tr.need(ty, "Z", e)
        return "[%s]" % t, "L"
    raise Unsupported("np.array shape")


def _shape0(env):
    env = dict(env)
    env["y.shape[0]"] = ("n", "Z")
    return env


FUNCS = [
    dict(path="_get_end", coq="gen_get_end", kind="fun", params=[Y, FH],
         env={"y.shape[0]": ("n", "Z")}),
    dict(path="_check_window_lengths", coq="gen_check_window_lengths", kind="proc",
         params=[Y, FH, ("window_length", "wl", "Z"), ("initial_window", "iw", "O")],
         env={"y.shape[0]": ("n", "Z")}),
    dict(path="SlidingWindowSplitter._split_windows", coq="gen_sliding_windows", kind="gen",
         params=[("start", "start", "Z"), ("end", "end_", "Z"), ("step_length", "step", "Z"),
                 ("window_length", "wl", "Z"), FH]),
    dict(path="ExpandingWindowSplitter._split_windows", coq="gen_expanding_windows", kind="gen",
         params=[("start", "start", "Z"), ("end", "end_", "Z"), ("step_length", "step", "Z"),
                 ("window_length", "wl", "Z"), FH]),
    dict(path="BaseWindowSplitter._get_start", coq="gen_get_start", kind="fun",
         params=[("@wl", "wl", "Z"), ("@step", "step", "Z"), ("@iw", "iw", "O"),
                 ("@sww", "sww", "B"), FH],
         env=SELF_WINDOW),
    dict(path="BaseWindowSplitter._split", coq="gen_window_split", kind="rgen",
         params=[("@split_windows", "split_windows", "SW"), ("@wl", "wl", "Z"),
                 ("@step", "step", "Z"), ("@iw", "iw", "O"), ("@sww", "sww", "B"),
                 ("@fh", "fh", "L"), Y],
         env=dict(SELF_WINDOW, **{"y.shape[0]": ("n", "Z")}),
         coqtypes={"split_windows": "Z -> Z -> Z -> Z -> list Z -> list (list Z * list Z)"}),
    dict(path="BaseWindowSplitter.get_cutoffs", coq="gen_window_cutoffs", kind="rfun", ret="L",
         params=[("@wl", "wl", "Z"), ("@step", "step", "Z"), ("@iw", "iw", "O"),
                 ("@sww", "sww", "B"), ("@fh", "fh", "L"), Y],
         env=SELF_WINDOW),
    dict(path="CutoffSplitter._split", coq="gen_cutoff_split", kind="rgen",
         params=[("@cutoffs", "cutoffs", "L"), ("@fh", "fh", "L"), ("@wl", "wl", "Z"), Y],
         env={"self.cutoffs": ("cutoffs", "L"), "self.fh": ("fh", "L"),
              "self.window_length": ("wl", "Z"), "y.shape[0]": ("n", "Z")}),
    dict(path="CutoffSplitter.get_n_splits", coq="gen_cutoff_n_splits", kind="fun",
         params=[("@cutoffs", "cutoffs", "L")], env={"self.cutoffs": ("cutoffs", "L")},
         ignore=("y",)),
    dict(path="CutoffSplitter.get_cutoffs", coq="gen_cutoff_cutoffs", kind="fun", ret="L",
         params=[("@cutoffs", "cutoffs", "L")], env={"self.cutoffs": ("cutoffs", "L")},
         ignore=("y",)),
    dict(path="SingleWindowSplitter._split", coq="gen_single_split", kind="rgen",
         params=[("@fh", "fh", "L"), ("@wlo", "wlo", "O"), Y],
         env={"self.fh": ("fh", "L"), "self.window_length": ("wlo", "O")}),
    dict(path="SingleWindowSplitter.get_cutoffs", coq="gen_single_cutoffs", kind="rfun", ret="L",
         params=[("@fh", "fh", "L"), Y], env={"self.fh": ("fh", "L")}),
    dict(path="BaseSplitter.split", coq="gen_split_filter", kind="rgen",
         params=[("@inner_split", "inner_split", "IS"), Y],
         coqtypes={"inner_split": "Z -> res (list (list Z * list Z))"}),
    # temporal_train_test_split(y, fh=...) with X=None: labels of (y_train, y_test)
    dict(path="_split_by_fh", coq="gen_split_by_fh", kind="rfun", ret="P",
         params=[("@index", "index", "L"), ("@rel", "rel", "B"), ("y", "n", "Y"), FH,
                 ("X", "x_absent", "ABSENT")],
         env={"y.index": ("index", "L"), "fh.is_relative": ("rel", "B"), "y.loc": ("y_loc", "LOC")},
         coqtypes={"x_absent": "unit"}),
    dict(path="BaseWindowSplitter.get_n_splits", coq="gen_window_n_splits", kind="rfun",
         params=[("@wl", "wl", "Z"), ("@step", "step", "Z"), ("@iw", "iw", "O"),
                 ("@sww", "sww", "B"), ("@fh", "fh", "L"), Y],
         env=SELF_WINDOW, calls_extra=True),
]

HEADER = """(* GENERATED by /verif/translator/split.py from %s -- do not edit, never committed *)
From Coq Require Import ZArith List Bool.
Require Import SkV.Lib.Base SkV.Lib.ZRange SkV.Lib.Slice.
Import ListNotations.
Open Scope Z_scope.

"""


def translate(repo):
    with open(os.path.join(repo, SRC)) as f:
        mod = ast.parse(f.read())
    out = [HEADER % SRC]
    calls = dict(CALLS)
    # get_n_splits is `len(self.get_cutoffs(y))`: a raising call inside an expression
    calls["self.get_cutoffs"] = prim("(gen_window_cutoffs wl step iw sww fh %s)", ["Y"], "RL")
    calls["len"] = _len
    for cfg in FUNCS:
        out.append(translate_function(mod, cfg, calls))
    return {"C01/Gen.v": "\n".join(out)}


# ================================================================================================
# Part 2 (Gen2.v): check_cutoffs as code (not as identity), the X slices of _split_by_fh, the
# dispatch of temporal_train_test_split.  `translate` above is unchanged (C07 / C08 also call it);
# C01 calls `translate_all`.

HEADER2 = """(* GENERATED by /verif/translator/split.py from %s and
   sktime/utils/validation/forecasting.py -- do not edit, never committed *)
From Coq Require Import ZArith List Bool.
Require Import SkV.Lib.Base SkV.Lib.ZRange SkV.Lib.Slice SkV.C01.Model2 SkV.C01.Gen.
Import ListNotations.
Open Scope Z_scope.

"""


def _isinstance_array(tr, e, env):
    """isinstance(cutoffs, (np.ndarray, pd.Index)) on the modelled argument (an integer array)."""
    if len(e.args) == 2 and ast.unparse(e.args[1]) == "(np.ndarray, pd.Index)":
        t, ty = tr.expr(e.args[0], env)
        tr.need(ty, "L", e)
        return "true", "B"
    raise Unsupported("isinstance shape " + ast.unparse(e))


def _sk_split(tr, e, env):
    """sklearn's train_test_split(*series, shuffle=False, ...): stays modelled (a parameter)."""
    if ast.unparse(e) != ("_train_test_split(*series, shuffle=False, stratify=None, "
                          "test_size=test_size, train_size=train_size)"):
        raise Unsupported("call of sklearn's train_test_split: " + ast.unparse(e))
    a, ta = tr.expr(ast.Name(id="test_size", ctx=ast.Load()), env)
    b, tb = tr.expr(ast.Name(id="train_size", ctx=ast.Load()), env)
    tr.need(ta, "O", e)
    tr.need(tb, "O", e)
    return "(sk_split n %s %s)" % (a, b), "RP"


SPLIT_BY_FH_ENV = {"y.index": ("index", "L"), "fh.is_relative": ("rel", "B"), "y.loc": ("y_loc", "LOC")}
FUNCS2_VAL = [
    dict(path="check_cutoffs", coq="gen_check_cutoffs", kind="rfun", ret="L",
         params=[("cutoffs", "cutoffs", "L")],
         skip_asserts=("assert np.issubdtype(cutoffs.dtype, np.integer)",)),
]
FUNCS2 = [
    dict(path="CutoffSplitter._split", coq="gen_cutoff_split_any", kind="rgen",
         params=[("@cutoffs", "cutoffs", "L"), ("@fh", "fh", "L"), ("@wl", "wl", "Z"), Y],
         env={"self.cutoffs": ("cutoffs", "L"), "self.fh": ("fh", "L"),
              "self.window_length": ("wl", "Z"), "y.shape[0]": ("n", "Z")}),
    dict(path="CutoffSplitter.get_cutoffs", coq="gen_cutoff_cutoffs_any", kind="rfun", ret="L",
         params=[("@cutoffs", "cutoffs", "L")], env={"self.cutoffs": ("cutoffs", "L")},
         ignore=("y",)),
    dict(path="SingleWindowSplitter.get_n_splits", coq="gen_single_n_splits", kind="fun",
         params=[], ignore=("y",)),
    dict(path="_split_by_fh", coq="gen_split_by_fh_X", kind="rfun", ret="P4",
         params=[("@index", "index", "L"), ("@rel", "rel", "B"), ("y", "n", "Y"), FH,
                 ("X", "x_present", "PRESENT")],
         env=dict(SPLIT_BY_FH_ENV, **{"X.loc": ("x_loc", "LOC")})),
    dict(path="temporal_train_test_split", coq="gen_tts", kind="rfun", ret="P",
         params=[("@sk_split", "sk_split", "SKSPLIT"), ("@index", "index", "L"),
                 ("@rel", "rel", "B"), ("y", "n", "Y"), ("X", "x_absent", "ABSENT"),
                 ("test_size", "test_size", "O"), ("train_size", "train_size", "O"),
                 ("fh", "fh", "OL")],
         skip_stmts=("series = (y,) if X is None else (y, X)",)),
]


def translate2(repo):
    from . import pyzx_c20 as px
    with open(os.path.join(repo, SRC)) as f:
        mod = ast.parse(f.read())
    with open(os.path.join(repo, "sktime/utils/validation/forecasting.py")) as f:
        vmod = ast.parse(f.read())
    calls = dict(CALLS)
    calls["len"] = _len
    calls["isinstance"] = _isinstance_array
    calls["np.sort"] = prim("(csort %s)", ["L"], "L")
    calls["check_equal_time_index"] = const("(Ok tt)", "RU")
    calls["_train_test_split"] = _sk_split
    del calls["check_cutoffs"]
    gens = {
        "check_cutoffs": dict(coq="gen_check_cutoffs", fn=px.find(vmod, "check_cutoffs"),
                              params=[("cutoffs", "L")], ret="RL"),
        "_split_by_fh": dict(coq="gen_split_by_fh", fn=px.find(mod, "_split_by_fh"),
                             params=[("@index", "L"), ("@rel", "B"), ("y", "Y"), ("fh", "L"),
                                     ("X", "ABSENT")], ret="RP"),
    }
    out = [HEADER2 % SRC]
    for cfg in FUNCS2_VAL:
        out.append(px.translate_function_x(vmod, cfg, calls, gens))
    for cfg in FUNCS2:
        out.append(px.translate_function_x(mod, cfg, calls, gens))
    return {"C01/Gen2.v": "\n".join(out)}


def translate_all(repo):
    files = translate(repo)
    files.update(translate2(repo))
    return files


def _len(tr, e, env):
    if len(e.args) != 1:
        raise Unsupported("len arity")
    t, ty = tr.expr(e.args[0], env)
    if ty == "L":
        return "(Z.of_nat (length %s))" % t, "Z"
    if ty == "RL":
        return "(rlen %s)" % t, "RZ"
    raise Unsupported("len of " + ty)


if __name__ == "__main__":
    import sys
    for k, v in translate_all(sys.argv[1] if len(sys.argv) > 1 else "/repo").items():
        print(v)
