"""C01: regenerate the integer arithmetic of sktime/forecasting/model_selection/_split.py.

Normal form: only the ROOTS are looked up by name - the public API (`split`, `get_cutoffs`,
`get_n_splits`, `temporal_train_test_split`, the splitter classes) and the dispatch protocol
between them, whose method names are read off the call graph (the abstract `self.<m>(..)` that
`BaseSplitter.split` iterates over, and the abstract `self.<m>(..)` the window splitter's
implementation of it iterates over).  Every private helper (`_get_end`, `_check_window_lengths`,
`_get_start`, `_check_fh`, `_check_y`, `_split_by_fh`, or whatever a maintainer extracts / inlines /
renames) is translated by inlining at its call site (pyz), so the generated roots do not depend on
where the helper boundaries are.  Locals are not looked up by name either: methods and attributes
of the horizon / series / frame are dispatched on the TYPE of the receiver.
"""
import ast
import os

from .pyz import Unsupported, _body, arange, const, find, identity_first, prim, translate_function

SRC = "sktime/forecasting/model_selection/_split.py"

Y = ("y", "n", "Y")
FH = ("fh", "fh", "L")
SELF_WINDOW = {
    "self.fh": ("fh", "L"), "self.window_length": ("wl", "Z"), "self.step_length": ("step", "Z"),
    "self.initial_window": ("iw", "O"), "self.start_with_window": ("sww", "B"),
}


def method(fmt, ty):
    """A method without arguments of a typed receiver."""
    def h(tr, e, env, recv):
        if e.args or e.keywords:
            raise Unsupported("arguments in " + ast.unparse(e))
        return fmt % {"r": recv}, ty
    return h


def _isinstance(tr, e, env):
    """isinstance(y, pd.Series) in `_check_y`: the argument is a series or its index, and the index
    of either is what the splitter works on (only its length matters: attrs (Y, index))."""
    if len(e.args) == 2 and not e.keywords and ast.unparse(e.args[1]) == "pd.Series":
        t, ty = tr.expr(e.args[0], env)
        tr.need(ty, "Y", e)
        return "true", "B"
    if len(e.args) == 2 and ast.unparse(e.args[1]) == "(np.ndarray, pd.Index)":
        t, ty = tr.expr(e.args[0], env)
        tr.need(ty, "L", e)
        return "true", "B"
    raise Unsupported("isinstance shape " + ast.unparse(e))


CALLS = {
    # the horizon (a sorted array of steps) and plain integer arrays, by receiver type
    "<L>.is_all_in_sample": method("(forallb (fun h => h <=? 0) %(r)s)", "B"),
    "<L>.is_all_out_of_sample": method("(forallb (fun h => 0 <? h) %(r)s)", "B"),
    "<L>.to_numpy": method("%(r)s", "L"),
    "<L>.to_pandas": method("%(r)s", "L"),
    "<L>.max": method("(zmax_list %(r)s)", "Z"),
    "<L>.min": method("(zmin_list %(r)s)", "Z"),
    "<L>.to_indexer": method("(map (fun h_ => h_ - 1) %(r)s)", "L"),
    "np.arange": arange,
    "range": arange,
    "np.max": prim("(zmax_list %s)", ["L"], "Z"),
    "abs": prim("(Z.abs %s)", ["Z"], "Z"),
    "np.array": lambda tr, e, env: _np_array(tr, e, env),
    "hasattr": const("true", "B"),
    "isinstance": _isinstance,
    # public validators: identity on valid input (C20 covers rejection)
    "check_step_length": identity_first,
    "check_window_length": identity_first,
    "check_cutoffs": identity_first,
    "check_y": identity_first,
    "check_fh": identity_first,
    "check_time_index": identity_first,
}


def _np_array(tr, e, env):
    if len(e.args) == 1 and isinstance(e.args[0], ast.List) and len(e.args[0].elts) == 1:
        t, ty = tr.expr(e.args[0].elts[0], env)
        tr.need(ty, "Z", e)
        return "[%s]" % t, "L"
    raise Unsupported("np.array shape")


def _len(tr, e, env):
    if len(e.args) != 1:
        raise Unsupported("len arity")
    t, ty = tr.expr(e.args[0], env)
    if ty == "L":
        return "(Z.of_nat (length %s))" % t, "Z"
    if ty == "RL":
        return "(rlen %s)" % t, "RZ"
    raise Unsupported("len of " + ty)


# ---- the dispatch protocol, read off the call graph ------------------------------------------------


def _classes(mod):
    return {n.name: n for n in mod.body if isinstance(n, ast.ClassDef)}


def _method(mod, cls, name):
    classes = _classes(mod)
    todo, seen = [cls], set()
    while todo:
        c = todo.pop(0)
        if c in seen or c not in classes:
            continue
        seen.add(c)
        for n in classes[c].body:
            if isinstance(n, ast.FunctionDef) and n.name == name:
                return n
        todo += [ast.unparse(b) for b in classes[c].bases]
    return None


def _is_abstract(fn):
    b = _body(fn)
    return len(b) == 1 and isinstance(b[0], ast.Raise)


def abstract_call(mod, cls, name):
    """The one abstract `self.<m>(..)` the method `cls.name` calls: the hook subclasses implement."""
    fn = _method(mod, cls, name)
    if fn is None:
        raise Unsupported("missing %s.%s" % (cls, name))
    out = []
    for c in ast.walk(fn):
        if isinstance(c, ast.Call) and isinstance(c.func, ast.Attribute) \
                and isinstance(c.func.value, ast.Name) and c.func.value.id == "self":
            m = _method(mod, cls, c.func.attr)
            if m is not None and _is_abstract(m) and c.func.attr not in out:
                out.append(c.func.attr)
    if len(out) != 1:
        raise Unsupported("%s.%s: expected one abstract hook, found %s" % (cls, name, out))
    return out[0]


def protocol_call(mod, base, hook, impls, fmt, argtypes, ret):
    """Call of the protocol method `self.<hook>(..)`: positional arguments are bound by position,
    keyword arguments by the parameter names of the declaration in `base`; every implementing class
    must then declare the same names in the same order (Python binds keywords per override)."""
    decl = _method(mod, base, hook)
    names = [a.arg for a in decl.args.args if a.arg != "self"]
    if len(names) != len(argtypes) or decl.args.vararg or decl.args.kwarg or decl.args.kwonlyargs:
        raise Unsupported("%s.%s: %d parameters expected" % (base, hook, len(argtypes)))

    def h(tr, e, env):
        if len(e.args) + len(e.keywords) != len(names) or any(k.arg is None for k in e.keywords):
            raise Unsupported("arity of " + ast.unparse(e))
        actual = list(e.args)
        if e.keywords:
            for c in impls:
                m = _method(mod, c, hook)
                if m is None or [a.arg for a in m.args.args if a.arg != "self"] != names:
                    raise Unsupported("keyword call of %s: %s declares other names" % (hook, c))
            kw = {k.arg: k.value for k in e.keywords}
            rest = names[len(e.args):]
            if sorted(kw) != sorted(rest):
                raise Unsupported("keywords of " + ast.unparse(e))
            # evaluation order of the arguments does not matter: they are pure expressions here
            actual += [kw[n] for n in rest]
        args = []
        for x, want in zip(actual, argtypes):
            t, ty = tr.expr(x, env)
            tr.need(ty, want, e)
            args.append(t)
        return fmt % tuple(args), ret
    return h


def positional(mod, path, spec):
    """Parameters of a protocol method bound by POSITION (their names are private)."""
    fn = find(mod, path)
    names = [a.arg for a in fn.args.args if a.arg != "self"]
    if len(names) != len(spec):
        raise Unsupported("%s: %d parameters expected" % (path, len(spec)))
    return [(n, coq, ty) for n, (coq, ty) in zip(names, spec)]


HEADER = """(* GENERATED by /verif/translator/split.py from %s -- do not edit, never committed *)
From Coq Require Import ZArith List Bool.
Require Import SkV.Lib.Base SkV.Lib.ZRange SkV.Lib.Slice.
Import ListNotations.
Open Scope Z_scope.

"""

ATTRS_LENGTH_ONLY = {("Y", "index"): ("n", "Y")}      # the index of the series: again "the series"
ATTRS_LABELS = {("Y", "index"): ("index", "L"), ("L", "is_relative"): ("rel", "B"),
                ("Y", "loc"): ("y_loc", "LOC"), ("PRESENT", "loc"): ("x_loc", "LOC")}
WINDOW_PARAMS = [("@wl", "wl", "Z"), ("@step", "step", "Z"), ("@iw", "iw", "O"),
                 ("@sww", "sww", "B"), ("@fh", "fh", "L")]
WINDOWS_SPEC = [("start", "Z"), ("end_", "Z"), ("step", "Z"), ("wl", "Z"), ("fh", "L")]
TTS_FH_ONLY = {"test_size": ("tt", "ABSENT"), "train_size": ("tt", "ABSENT")}


def roots(mod):
    split_hook = abstract_call(mod, "BaseSplitter", "split")                    # `_split`
    windows_hook = abstract_call(mod, "BaseWindowSplitter", split_hook)          # `_split_windows`
    calls = dict(CALLS)
    calls["len"] = _len
    calls["self." + windows_hook] = protocol_call(
        mod, "BaseWindowSplitter", windows_hook, ["SlidingWindowSplitter", "ExpandingWindowSplitter"],
        "(split_windows %s %s %s %s %s)", ["Z", "Z", "Z", "Z", "L"], "LP")
    calls["self." + split_hook] = protocol_call(
        mod, "BaseSplitter", split_hook,
        ["BaseWindowSplitter", "CutoffSplitter", "SingleWindowSplitter"], "(inner_split %s)", ["Y"], "RLP")
    # get_n_splits is `len(self.get_cutoffs(y))`: a raising call inside an expression
    calls["self.get_cutoffs"] = prim("(gen_window_cutoffs wl step iw sww fh %s)", ["Y"], "RL")
    funcs = [
        dict(path="SlidingWindowSplitter." + windows_hook, coq="gen_sliding_windows", kind="gen",
             params=positional(mod, "SlidingWindowSplitter." + windows_hook, WINDOWS_SPEC)),
        dict(path="ExpandingWindowSplitter." + windows_hook, coq="gen_expanding_windows", kind="gen",
             params=positional(mod, "ExpandingWindowSplitter." + windows_hook, WINDOWS_SPEC)),
        dict(path="BaseWindowSplitter." + split_hook, coq="gen_window_split", kind="rgen",
             params=[("@split_windows", "split_windows", "SW")] + WINDOW_PARAMS
             + positional(mod, "BaseWindowSplitter." + split_hook, [("n", "Y")]),
             env=SELF_WINDOW,
             coqtypes={"split_windows": "Z -> Z -> Z -> Z -> list Z -> list (list Z * list Z)"}),
        dict(path="BaseWindowSplitter.get_cutoffs", coq="gen_window_cutoffs", kind="rfun", ret="L",
             params=WINDOW_PARAMS + [Y], env=SELF_WINDOW, attrs=ATTRS_LENGTH_ONLY),
        dict(path="CutoffSplitter." + split_hook, coq="gen_cutoff_split", kind="rgen",
             params=[("@cutoffs", "cutoffs", "L"), ("@fh", "fh", "L"), ("@wl", "wl", "Z")]
             + positional(mod, "CutoffSplitter." + split_hook, [("n", "Y")]),
             env={"self.cutoffs": ("cutoffs", "L"), "self.fh": ("fh", "L"),
                  "self.window_length": ("wl", "Z")}),
        dict(path="CutoffSplitter.get_n_splits", coq="gen_cutoff_n_splits", kind="fun",
             params=[("@cutoffs", "cutoffs", "L")], env={"self.cutoffs": ("cutoffs", "L")},
             ignore=("y",)),
        dict(path="CutoffSplitter.get_cutoffs", coq="gen_cutoff_cutoffs", kind="fun", ret="L",
             params=[("@cutoffs", "cutoffs", "L")], env={"self.cutoffs": ("cutoffs", "L")},
             ignore=("y",)),
        dict(path="SingleWindowSplitter." + split_hook, coq="gen_single_split", kind="rgen",
             params=[("@fh", "fh", "L"), ("@wlo", "wlo", "O")]
             + positional(mod, "SingleWindowSplitter." + split_hook, [("n", "Y")]),
             env={"self.fh": ("fh", "L"), "self.window_length": ("wlo", "O")}),
        dict(path="SingleWindowSplitter.get_cutoffs", coq="gen_single_cutoffs", kind="rfun", ret="L",
             params=[("@fh", "fh", "L"), Y], env={"self.fh": ("fh", "L")}),
        dict(path="BaseSplitter.split", coq="gen_split_filter", kind="rgen",
             params=[("@inner_split", "inner_split", "IS"), Y], attrs=ATTRS_LENGTH_ONLY,
             coqtypes={"inner_split": "Z -> res (list (list Z * list Z))"}),
        # temporal_train_test_split(y, fh=...) with X=None and no size arguments: labels of
        # (y_train, y_test)
        dict(path="temporal_train_test_split", coq="gen_split_by_fh", kind="rfun", ret="P",
             params=[("@index", "index", "L"), ("@rel", "rel", "B"), ("y", "n", "Y"), FH,
                     ("X", "x_absent", "ABSENT")],
             env=TTS_FH_ONLY, attrs=ATTRS_LABELS, coqtypes={"x_absent": "unit"}),
        dict(path="BaseWindowSplitter.get_n_splits", coq="gen_window_n_splits", kind="rfun",
             params=WINDOW_PARAMS + [Y], env=SELF_WINDOW),
    ]
    return funcs, calls


def translate(repo):
    with open(os.path.join(repo, SRC)) as f:
        mod = ast.parse(f.read())
    out = [HEADER % SRC]
    funcs, calls = roots(mod)
    for cfg in funcs:
        out.append(translate_function(mod, dict(cfg, repo=repo), calls))
    return {"C01/Gen.v": "\n".join(out)}


# ================================================================================================
# Part 2 (Gen2.v): check_cutoffs as code (not as identity), the X slices of the horizon split, the
# dispatch of temporal_train_test_split.  C07 / C08 call `translate`; C01 calls `translate_all`.

HEADER2 = """(* GENERATED by /verif/translator/split.py from %s and
   sktime/utils/validation/forecasting.py -- do not edit, never committed *)
From Coq Require Import ZArith List Bool.
Require Import SkV.Lib.Base SkV.Lib.ZRange SkV.Lib.Slice SkV.C01.Model2 SkV.C01.Gen.
Import ListNotations.
Open Scope Z_scope.

"""


def _sk_split(tr, e, env):
    """sklearn's train_test_split(*series, shuffle=False, stratify=None, test_size=.., train_size=..)
    on (y,) / (y, X): stays modelled (a parameter of the regenerated function)."""
    if len(e.args) != 1 or not isinstance(e.args[0], ast.Starred) or not _is_y_and_X(e.args[0].value, env):
        raise Unsupported("call of sklearn's train_test_split: " + ast.unparse(e))
    kw = {k.arg: k.value for k in e.keywords}
    if set(kw) != {"shuffle", "stratify", "test_size", "train_size"} \
            or ast.unparse(kw["shuffle"]) != "False" or ast.unparse(kw["stratify"]) != "None":
        raise Unsupported("call of sklearn's train_test_split: " + ast.unparse(e))
    a, ta = tr.expr(kw["test_size"], env)
    b, tb = tr.expr(kw["train_size"], env)
    tr.need(ta, "O", e)
    tr.need(tb, "O", e)
    return "(sk_split n %s %s)" % (a, b), "RP"


def _is_y_and_X(node, env, depth=0):
    """Is the starred argument the series that are given: (y,) if X is None, (y, X) otherwise?"""
    def names(t):
        return [x.id for x in t.elts] if isinstance(t, ast.Tuple) and all(
            isinstance(x, ast.Name) for x in t.elts) else None

    def role(n):
        return {"Y": "y", "ABSENT": "X", "PRESENT": "X"}.get(env.get(n, (None, None))[1])
    if isinstance(node, ast.Name) and node.id in env and env[node.id][1] == "UNBOUND" \
            and isinstance(env[node.id][0], ast.AST) and depth < 3:
        return _is_y_and_X(env[node.id][0], env, depth + 1)
    if isinstance(node, ast.IfExp) and isinstance(node.test, ast.Compare) and len(node.test.ops) == 1 \
            and isinstance(node.test.left, ast.Name) and role(node.test.left.id) == "X" \
            and isinstance(node.test.comparators[0], ast.Constant) \
            and node.test.comparators[0].value is None:
        none_branch, some_branch = node.body, node.orelse
        if isinstance(node.test.ops[0], ast.IsNot):
            none_branch, some_branch = some_branch, none_branch
        a, b = names(none_branch), names(some_branch)
        return a is not None and b is not None and [role(x) for x in a] == ["y"] \
            and [role(x) for x in b] == ["y", "X"]
    return False


def translate2(repo):
    from . import pyzx_c20 as px
    with open(os.path.join(repo, SRC)) as f:
        mod = ast.parse(f.read())
    with open(os.path.join(repo, "sktime/utils/validation/forecasting.py")) as f:
        vmod = ast.parse(f.read())
    _, calls = roots(mod)
    split_hook = abstract_call(mod, "BaseSplitter", "split")
    calls["np.sort"] = prim("(csort %s)", ["L"], "L")
    calls["check_equal_time_index"] = const("(Ok tt)", "RU")
    calls["_train_test_split"] = _sk_split
    del calls["check_cutoffs"]
    gens = {
        "check_cutoffs": dict(coq="gen_check_cutoffs", fn=px.find(vmod, "check_cutoffs"),
                              params=[("cutoffs", "L")], ret="RL"),
    }
    funcs_val = [
        dict(path="check_cutoffs", coq="gen_check_cutoffs", kind="rfun", ret="L",
             params=[("cutoffs", "cutoffs", "L")],
             skip_asserts=("assert np.issubdtype(cutoffs.dtype, np.integer)",)),
    ]
    funcs = [
        dict(path="CutoffSplitter." + split_hook, coq="gen_cutoff_split_any", kind="rgen",
             params=[("@cutoffs", "cutoffs", "L"), ("@fh", "fh", "L"), ("@wl", "wl", "Z")]
             + positional(mod, "CutoffSplitter." + split_hook, [("n", "Y")]),
             env={"self.cutoffs": ("cutoffs", "L"), "self.fh": ("fh", "L"),
                  "self.window_length": ("wl", "Z")}),
        dict(path="CutoffSplitter.get_cutoffs", coq="gen_cutoff_cutoffs_any", kind="rfun", ret="L",
             params=[("@cutoffs", "cutoffs", "L")], env={"self.cutoffs": ("cutoffs", "L")},
             ignore=("y",)),
        dict(path="SingleWindowSplitter.get_n_splits", coq="gen_single_n_splits", kind="fun",
             params=[], ignore=("y",)),
        # the horizon split with exogenous data: four label sets
        dict(path="temporal_train_test_split", coq="gen_split_by_fh_X", kind="rfun", ret="P4",
             params=[("@index", "index", "L"), ("@rel", "rel", "B"), ("y", "n", "Y"), FH,
                     ("X", "x_present", "PRESENT")],
             env=TTS_FH_ONLY, attrs=ATTRS_LABELS),
        dict(path="temporal_train_test_split", coq="gen_tts", kind="rfun", ret="P",
             params=[("@sk_split", "sk_split", "SKSPLIT"), ("@index", "index", "L"),
                     ("@rel", "rel", "B"), ("y", "n", "Y"), ("X", "x_absent", "ABSENT"),
                     ("test_size", "test_size", "O"), ("train_size", "train_size", "O"),
                     ("fh", "fh", "OL")],
             attrs=ATTRS_LABELS),
    ]
    out = [HEADER2 % SRC]
    for cfg in funcs_val:
        out.append(px.translate_function_x(vmod, dict(cfg, repo=repo), calls, gens))
    for cfg in funcs:
        out.append(px.translate_function_x(mod, dict(cfg, repo=repo), calls, gens))
    return {"C01/Gen2.v": "\n".join(out)}


def translate_all(repo):
    files = translate(repo)
    files.update(translate2(repo))
    return files


if __name__ == "__main__":
    import sys
    for k, v in translate_all(sys.argv[1] if len(sys.argv) > 1 else "/repo").items():
        print(v)
