"""Symbolic evaluator for a small, side-effect-poor subset of Python, used by
translator/closedform_c14.py.

A function body is executed on symbolic arguments and summarised by DATA FLOW:
  * the returned value, the attributes stored on `self`, the `raise` sites (exception class + the
    conjunction of branch conditions leading to them) and the opaque calls made for effect,
  * all as TERMS (nested tuples) in which local names have been substituted away.
Consequently the summary is invariant under: renaming of locals; introducing / inlining
temporaries; computing a repeated sub-expression once; extracting private helpers (module-level
functions, methods and staticmethods of the same class, local defs and lambdas are inlined with
argument binding; bound methods passed as values become lambdas); guard clauses / early returns vs
if/else nesting; `if not c` vs swapped branches; `a and b` vs nested ifs; conditional expressions
vs if/else assignments; `a > b` vs `b < a`; tuple unpacking of `x.shape` vs `x.shape[k]`;
append-loops vs list comprehensions vs generator expressions vs map(lambda) over the same iterable;
`for i in range(n): arr[i] = e` as one array fill; reordering of statements without data dependence.
General loops with carried state become `fold` terms (state placeholders ("st", id, k)).

Everything outside the subset raises Unsupported (fail closed).  Terms:
  ("c", v) constant            ("s", name) free symbol           ("bv", id) bound variable
  ("a", obj, attr)             ("i", obj, index)                 ("sl", lo, hi, step)
  ("t", elts) tuple            ("l", elts) list                  ("call", f, args, kws)
  ("b", op, x, y)              ("u", op, x)                      ("cmp", op, x, y)   op in Lt LtE Eq NotEq Is IsNot In NotIn
  ("and", elts) ("or", elts) ("not", x)                          ("if", c, x, y)
  ("comp", id, elt, iter, conds)   ("lam", ids, body)            ("fstr", parts)
  ("app", list, v)  ("set", base, key, v)  ("seta", base, attr, v)  ("after", obj, call)
  ("fill", base, id, iter, key, v)         ("fold", id, iter, init, outs)  ("fo", fold, k)
  ("loopstate", x)             ("st", id, k)
"""
import ast
import itertools


class Unsupported(Exception):
    pass


def C(v):
    return ("c", v)


NONE = C(None)
_ids = itertools.count(1)


def fresh():
    return next(_ids)


def is_term(t):
    return isinstance(t, tuple) and len(t) > 0 and isinstance(t[0], str)


def walk(t):
    """all sub-terms (pre-order)"""
    if is_term(t):
        yield t
        for x in t[1:]:
            yield from walk(x)
    elif isinstance(t, tuple):
        for x in t:
            yield from walk(x)


def tmap(f, t):
    """rebuild t bottom-up, applying f to every sub-term"""
    if not is_term(t):
        return t

    def go(x):
        if is_term(x):
            return tmap(f, x)
        if isinstance(x, tuple):
            return tuple(go(y) for y in x)
        return x
    return f((t[0],) + tuple(go(x) for x in t[1:]))


FULL = ("sl", ("c", None), ("c", None), ("c", None))
BV_ITER = {}          # binder id -> the term it iterates over (element iteration only)
LEN = ("s", "len")
RANGE = ("s", "range")


def mklen(a):
    return simp1(("call", LEN, (a,), ()))


def is2d(t):
    """terms known to denote 2-d numpy arrays (numpy facts the normal form relies on)"""
    if t[0] == "call" and t[1] == ("s", "from_nested_to_2d_array") \
            and ("kw", "return_numpy", ("c", True)) in t[3]:
        return True
    if t[0] == "call" and t[1] == ("a", ("s", "np"), "zeros") and len(t[2]) >= 1 \
            and t[2][0][0] == "t" and len(t[2][0][1]) == 2:
        return True
    if t[0] in ("fill", "set"):
        return is2d(t[1])
    if t[0] == "call" and t[1][0] == "a" and t[1][2] == "squeeze" and t[2] == (("c", 1),) \
            and not t[3]:
        x = t[1][1]                 # check_X(.., coerce_to_numpy=True) is 3-d
        return x[0] == "call" and x[1] == ("s", "check_X") \
            and ("kw", "coerce_to_numpy", ("c", True)) in x[3]
    return False


def simp1(x):
    """local simplifications (tuple projection; numpy / sequence facts about lengths and rows)"""
    if x[0] == "i" and is_term(x[1]) and x[1][0] in ("t", "l") and x[2][0] == "c" \
            and isinstance(x[2][1], int) and not isinstance(x[2][1], bool) \
            and -len(x[1][1]) <= x[2][1] < len(x[1][1]):
        return x[1][1][x[2][1]]
    # A[k, :] -> A[k]
    if x[0] == "i" and x[2][0] == "t" and len(x[2][1]) == 2 and x[2][1][1] == FULL \
            and x[2][1][0][0] != "sl":
        return ("i", x[1], x[2][1][0])
    # A.shape[0] -> len(A)
    if x[0] == "i" and x[2] == ("c", 0) and x[1][0] == "a" and x[1][2] == "shape":
        return mklen(x[1][1])
    if x[0] == "call" and x[1] == LEN and len(x[2]) == 1 and not x[3]:
        a = x[2][0]
        # a row of a known 2-d array has shape[1] elements
        parent = None
        if a[0] == "bv" and a[1] in BV_ITER:
            parent = BV_ITER[a[1]]
        elif a[0] == "i" and a[2][0] not in ("sl", "t"):
            parent = a[1]
        if parent is not None and is2d(parent):
            return ("i", ("a", parent, "shape"), ("c", 1))
        # len(x.copy()) -> len(x)
        if a[0] == "call" and a[1][0] == "a" and a[1][2] == "copy" and not a[2] and not a[3]:
            return mklen(a[1][1])
        # filling / assigning rows keeps the length; len(np.zeros((n, ..))) = n; len(range(n)) = n
        if a[0] in ("fill", "set"):
            return mklen(a[1])
        if a[0] == "call" and a[1] == ("a", ("s", "np"), "zeros") and len(a[2]) >= 1 \
                and a[2][0][0] == "t" and len(a[2][0][1]) >= 1:
            return a[2][0][1][0]
        if a[0] == "call" and a[1] == RANGE and len(a[2]) == 1 and not a[3]:
            return a[2][0]
        if a[0] == "comp" and not a[4]:
            return mklen(a[3])
        if a[0] in ("t", "l"):
            return ("c", len(a[1]))
    return x


def is_len_of(n, a):
    """n is the number of elements iterating over a yields"""
    if n == mklen(a):
        return True
    parent = None
    if a[0] == "bv" and a[1] in BV_ITER:
        parent = BV_ITER[a[1]]
    elif a[0] == "i" and a[2][0] not in ("sl", "t"):
        parent = a[1]
    return parent is not None and is2d(parent) and n == ("i", ("a", parent, "shape"), ("c", 1))


def to_element(bid, it, parts):
    """for i in range(len(A)) using i only as A[i]  ->  for x in A   (A a sequence / ndarray)"""
    if not (it[0] == "call" and it[1] == RANGE and len(it[2]) == 1 and not it[3]):
        return it, parts
    me = ("bv", bid)
    bases = set()
    for p in parts:
        for x in walk(p):
            if x[0] == "i" and x[2] == me:
                bases.add(x[1])
    if len(bases) != 1:
        return it, parts
    a = bases.pop()
    if has(a, lambda x: x == me) or not is_len_of(it[2][0], a):
        return it, parts
    mark = ("bv", -bid)
    new = [subst(p, {("i", a, me): mark}) for p in parts]
    if any(has(p, lambda x: x == me) for p in new):
        return it, parts                      # the index is used for something else as well
    if any(has(subst(p, {a: ("c", "@base")}),
               lambda x: x[0] == "s" and isinstance(x[1], str)
               and (x[1].startswith("_H_") or x[1] == "_AS")) for p in new):
        return it, parts          # a hole of a reference may hide other uses of the index
    BV_ITER[bid] = a
    return a, [subst(p, {mark: me}) for p in new]


def subst(t, mapping):
    """replace sub-terms that are keys of mapping (and re-simplify)"""
    if not mapping:
        return t

    def f(x):
        return mapping[x] if x in mapping else simp1(x)
    if t in mapping:
        return mapping[t]
    return tmap(f, t)


def mkfstr(parts):
    """format term: constants merged, empty ones dropped"""
    out = []
    for p in parts:
        if p[0] == "c" and isinstance(p[1], str):
            if p[1] == "":
                continue
            if out and out[-1][0] == "c" and isinstance(out[-1][1], str):
                out[-1] = ("c", out[-1][1] + p[1])
                continue
        out.append(p)
    return ("fstr", tuple(out))


def fmt_parts(text, style, vals, src):
    """"%s_%s" % (a, b)  /  "{}_{}".format(a, b)  ->  the format term of f"{a}_{b}" """
    import re
    pieces = re.split(r"(%[sd])" if style == "%" else r"(\{\})", text)
    parts, k = [], 0
    for piece in pieces:
        if piece in ("%s", "%d", "{}"):
            if k >= len(vals):
                raise Unsupported("format string " + src)
            parts.append(vals[k])
            k += 1
        else:
            if "%" in piece or "{" in piece or "}" in piece:
                raise Unsupported("format string " + src)
            parts.append(("c", piece))
    if k != len(vals):
        raise Unsupported("format string " + src)
    return mkfstr(parts)


def mkcomp(bid, elt, it, conds):
    """[elt for v in it if conds]; a comprehension over a comprehension is fused:
       [f(y) for y in [g(x) for x in xs]] = [f(g(x)) for x in xs]"""
    it, parts = to_element(bid, it, [elt] + list(conds))
    elt, conds = parts[0], tuple(parts[1:])
    if it[0] != "call" or it[1] != RANGE:
        BV_ITER.setdefault(bid, it)
    if it[0] == "comp" and not it[4]:
        m = {("bv", bid): it[2]}
        return mkcomp(it[1], subst(elt, m), it[3], tuple(subst(c, m) for c in conds))
    if elt == ("bv", bid) and not conds and it[0] == "comp":
        return it
    return ("comp", bid, elt, it, tuple(conds))


def has(t, pred):
    return any(pred(x) for x in walk(t))


def mknot(c):
    if c[0] == "not":
        return c[1]
    if c[0] == "c":
        return C(not c[1])
    neg = {"Is": "IsNot", "IsNot": "Is", "Eq": "NotEq", "NotEq": "Eq", "In": "NotIn", "NotIn": "In"}
    if c[0] == "cmp" and c[1] in neg:
        return ("cmp", neg[c[1]], c[2], c[3])
    return ("not", c)


def mkif(c, a, b):
    if a == b:
        return a
    if c[0] == "c":
        return a if c[1] else b
    if c[0] == "not":
        return mkif(c[1], b, a)
    if c[0] == "cmp" and c[1] in ("IsNot", "NotEq", "NotIn"):
        return mkif(mknot(c), b, a)
    if c[0] == "and":
        rest = c[1][1:]
        inner = mkif(("and", rest) if len(rest) > 1 else rest[0], a, b)
        return mkif(c[1][0], inner, b)
    if c[0] == "or":
        rest = c[1][1:]
        inner = mkif(("or", rest) if len(rest) > 1 else rest[0], a, b)
        return mkif(c[1][0], a, inner)
    return ("if", c, a, b)


def literals(c, pol):
    """a branch condition as a list of (atom, polarity)"""
    if c[0] == "not":
        return literals(c[1], not pol)
    if c[0] == "cmp" and c[1] in ("IsNot", "NotEq", "NotIn"):
        return literals(mknot(c), not pol)
    if c[0] == "and" and pol:
        return [l for x in c[1] for l in literals(x, True)]
    if c[0] == "or" and not pol:
        return [l for x in c[1] for l in literals(x, False)]
    return [(c, pol)]


POISON = ("poison",)
METHOD_SIGS = {"fillna": ["value", "method"], "interpolate": ["method"],
               "replace": ["to_replace", "value"]}
NP_SIGS = {"full": ["shape", "fill_value", "dtype"], "zeros": ["shape", "dtype"],
           "pad": ["array", "pad_width", "mode"], "linspace": ["start", "stop", "num"],
           "array_split": ["ary", "indices_or_sections", "axis"], "asarray": ["a", "dtype"],
           "array": ["object", "dtype"], "arange": []}


class Closure:
    """a local `def` (not a term: it may only be called or mapped)"""
    def __init__(self, fdef, env):
        self.fdef, self.env = fdef, env

# outcome trees of a block: ("fall", env) | ("ret", term) | ("raise",) | ("node", cond, t, f)


class Ev:
    def __init__(self, mod, cls=None, opaque=(), effect_free=("self.check_is_fitted",)):
        self.funcs = {n.name: n for n in mod.body if isinstance(n, ast.FunctionDef)}
        # simple module-level constants (numbers, strings, tuples / lists of them) resolve by value
        self.consts = {}
        for n in mod.body:
            if isinstance(n, ast.Assign) and len(n.targets) == 1 \
                    and isinstance(n.targets[0], ast.Name) and not n.targets[0].id.startswith("__"):
                try:
                    v = ast.literal_eval(n.value)
                except (ValueError, SyntaxError):
                    continue
                self.consts[n.targets[0].id] = self.const_term(v)
        self.methods = {}
        self.cls = cls
        if cls is not None:
            classes = {n.name: n for n in mod.body if isinstance(n, ast.ClassDef)}
            if cls not in classes:
                raise Unsupported("missing class " + cls)

            def collect(name, seen):
                # methods of the class and of its base classes defined in the same file
                # (left-most base wins, the class itself overrides all)
                if name in seen:
                    raise Unsupported("cyclic bases of " + name)
                node, out = classes[name], {}
                for b in reversed(node.bases):
                    if isinstance(b, ast.Name) and b.id in classes:
                        out.update(collect(b.id, seen | {name}))
                out.update({m.name: m for m in node.body if isinstance(m, ast.FunctionDef)})
                return out
            self.methods = collect(cls, set())
        self.opaque = set(opaque)
        self.effect_free = set(effect_free)
        self.raises = []          # (tuple of (atom, polarity), exception class name)
        self.path = []
        self.stack = []
        self.bvnames = {}         # python name of a binder -> id of its bound variable (last one)

    # ---------------------------------------------------------------- entry points
    def summary(self, method, args=None):
        """symbolic summary of self.<method>(params...) : dict ret / stores / raises / effects"""
        fn = self.methods[method] if self.cls else self.funcs[method]
        self.raises, self.path = [], []
        env = {"@eff": ("l", ())}
        params = [a.arg for a in fn.args.args]
        params += [a.arg for a in (fn.args.vararg, fn.args.kwarg) if a is not None]
        for p in params:
            env[p] = ("s", p)
        if args:
            env.update(args)
        tree = self.block(fn.body, env)
        ret, fenv = self.finish(tree)
        stores = {k[5:]: v for k, v in fenv.items() if k.startswith("self.")} if fenv else {}
        return {"ret": ret, "stores": stores, "raises": list(self.raises),
                "eff": fenv.get("@eff") if fenv else None}

    def finish(self, tree):
        """(returned term or None, merged environment of all normally completing paths)"""
        if tree[0] == "fall":
            return NONE, tree[1]
        if tree[0] == "ret":
            return tree[1], tree[2]
        if tree[0] == "raise":
            return None, None
        if tree[0] == "cont":
            raise Unsupported("continue outside a loop")
        ra, ea = self.finish(tree[2])
        rb, eb = self.finish(tree[3])
        if ra is None:
            return rb, eb
        if rb is None:
            return ra, ea
        return mkif(tree[1], ra, rb), self.merge(tree[1], ea, eb)

    # ---------------------------------------------------------------- environments
    @staticmethod
    def merge(c, ea, eb):
        if ea is None:
            return eb
        if eb is None:
            return ea
        out = {}
        for k in set(ea) | set(eb):
            if k in ea and k in eb:
                va, vb = ea[k], eb[k]
                if va == vb:
                    out[k] = va
                elif is_term(va) and is_term(vb) and va != POISON and vb != POISON \
                        and not isinstance(va, Closure) and not isinstance(vb, Closure):
                    out[k] = mkif(c, va, vb)
                else:
                    out[k] = POISON
            else:
                out[k] = POISON
        return out

    # ---------------------------------------------------------------- statements
    # outcome trees: ("fall", env, extra) | ("cont", env) | ("ret", term, env, extra) | ("raise",)
    #                | ("node", cond, t, f).  `extra` = guard literals established on the way
    #                (e.g. by `if bad: raise`), in force for whatever runs after the block.
    def block(self, stmts, env):
        env = dict(env)
        n_start = len(self.path)
        for idx, st in enumerate(stmts):
            if isinstance(st, ast.Expr) and isinstance(st.value, ast.Constant):
                continue                                    # docstring
            if isinstance(st, ast.Pass):
                continue
            if isinstance(st, ast.Return):
                v = self.expr(st.value, env) if st.value is not None else NONE
                return ("ret", v, env, list(self.path[n_start:]))
            if isinstance(st, ast.Raise):
                exc = st.exc.func if isinstance(st.exc, ast.Call) else st.exc
                if exc is None:
                    raise Unsupported("bare raise")
                self.raises.append((tuple(self.path), ast.unparse(exc)))
                return ("raise",)
            if isinstance(st, ast.Continue):
                return ("cont", env)
            if isinstance(st, ast.Assert):
                # assert c  =  if not c: raise AssertionError
                guard = ast.If(test=ast.UnaryOp(op=ast.Not(), operand=st.test),
                               body=[ast.Raise(exc=ast.Name(id="AssertionError", ctx=ast.Load()),
                                               cause=None)], orelse=[])
                stmts = list(stmts[:idx]) + [guard] + list(stmts[idx + 1:])
                st = guard
            if isinstance(st, ast.If):
                c = self.expr(st.test, env)
                before = list(self.path[n_start:])
                return self.add_extra(self.branch(c, st.body, st.orelse, stmts[idx + 1:], env),
                                      before)
            self.simple(st, env)
        return ("fall", env, list(self.path[n_start:]))

    def add_extra(self, tree, lits):
        if not lits:
            return tree
        if tree[0] == "fall":
            return ("fall", tree[1], lits + tree[2])
        if tree[0] == "ret":
            return ("ret", tree[1], tree[2], lits + tree[3])
        if tree[0] == "node":
            return ("node", tree[1], self.add_extra(tree[2], lits), self.add_extra(tree[3], lits))
        return tree

    def scoped(self, lits, stmts, env):
        """run a block under additional path literals; they are removed afterwards"""
        n0 = len(self.path)
        self.path += lits
        out = self.block(stmts, env)
        del self.path[n0:]
        return out

    def branch(self, c, body, orelse, rest, env):
        if c[0] == "c":
            return self.block((body if c[1] else orelse) + rest, env)
        ta = self.scoped(literals(c, True), body, env)
        tb = self.scoped(literals(c, False), orelse, env)
        node = ("node", c, ta, tb)
        if not self.has_leaf(node, ("ret", "cont")):
            # no branch returns: the falling paths are merged (x = if c then .. else ..) and the
            # rest runs ONCE, under the literals common to all falling paths (guard clauses)
            env2 = self.tree_env(node)
            if env2 is None:
                return ("raise",)
            paths = self.done_paths(node, [])
            common = [l for l in paths[0] if all(l in q for q in paths[1:])]
            if not rest:
                return ("fall", env2, common)
            return self.add_extra(self.scoped(common, rest, env2), common)
        # a branch returns: continue the rest on every falling leaf, under its condition
        ta = self.cont(ta, rest, literals(c, True))
        tb = self.cont(tb, rest, literals(c, False))
        return ("node", c, ta, tb)

    def has_leaf(self, tree, kinds):
        if tree[0] == "node":
            return self.has_leaf(tree[2], kinds) or self.has_leaf(tree[3], kinds)
        return tree[0] in kinds

    def done_paths(self, tree, lits):
        """literal lists of the normally completing leaves (falling or returning)"""
        if tree[0] == "fall":
            return [lits + tree[2]]
        if tree[0] == "ret":
            return [lits + tree[3]]
        if tree[0] == "node":
            return self.done_paths(tree[2], lits + literals(tree[1], True)) + \
                self.done_paths(tree[3], lits + literals(tree[1], False))
        return []

    def cont(self, tree, rest, lits):
        if tree[0] == "fall":
            if not rest:
                return tree
            return self.add_extra(self.scoped(lits + tree[2], rest, tree[1]), tree[2])
        if tree[0] == "node":
            return ("node", tree[1], self.cont(tree[2], rest, lits + literals(tree[1], True)),
                    self.cont(tree[3], rest, lits + literals(tree[1], False)))
        return tree

    def tree_env(self, tree):
        if tree[0] in ("fall", "cont"):
            return tree[1]
        if tree[0] == "raise":
            return None
        if tree[0] == "ret":
            raise Unsupported("return inside a loop body")
        return self.merge(tree[1], self.tree_env(tree[2]), self.tree_env(tree[3]))

    @staticmethod
    def const_term(v):
        if isinstance(v, tuple):
            return ("t", tuple(Ev.const_term(x) for x in v))
        if isinstance(v, list):
            return ("l", tuple(Ev.const_term(x) for x in v))
        return C(v)

    def get(self, env, name, node=None):
        if name in env:
            v = env[name]
            if v == POISON:
                raise Unsupported("use of a variable that is not defined on every path / after "
                                  "a loop: %s" % name)
            return v
        if name in self.consts:
            return self.consts[name]
        return ("s", name)

    def simple(self, st, env):
        if isinstance(st, ast.FunctionDef):
            env[st.name] = Closure(st, dict(env))
            return
        if isinstance(st, ast.Assign):
            v = self.expr(st.value, env)
            for tg in st.targets:
                self.assign(tg, v, env)
            return
        if isinstance(st, ast.AugAssign):
            if not isinstance(st.target, ast.Name):
                raise Unsupported("augmented assignment to " + ast.unparse(st.target))
            op = type(st.op).__name__
            env[st.target.id] = ("b", op, self.get(env, st.target.id), self.expr(st.value, env))
            return
        if isinstance(st, ast.For):
            self.loop(st, env)
            return
        if isinstance(st, ast.Expr) and isinstance(st.value, ast.Call):
            self.call_stmt(st.value, env)
            return
        raise Unsupported("statement " + ast.unparse(st).split("\n")[0])

    def assign(self, tg, v, env):
        if isinstance(tg, ast.Name):
            env[tg.id] = v
        elif isinstance(tg, (ast.Tuple, ast.List)):
            if is_term(v) and v[0] in ("t", "l") and len(v[1]) == len(tg.elts):
                parts = v[1]
            else:
                parts = [simp1(("i", v, C(k))) for k in range(len(tg.elts))]
            for e, p in zip(tg.elts, parts):
                self.assign(e, p, env)
        elif isinstance(tg, ast.Attribute) and isinstance(tg.value, ast.Name):
            if tg.value.id == "self":
                env["self." + tg.attr] = v
            else:
                env[tg.value.id] = ("seta", self.get(env, tg.value.id), tg.attr, v)
        elif isinstance(tg, ast.Subscript) and isinstance(tg.value, ast.Name) \
                and tg.value.id != "self":
            env[tg.value.id] = ("set", self.get(env, tg.value.id), self.index(tg.slice, env), v)
        else:
            raise Unsupported("assignment target " + ast.unparse(tg))

    def call_stmt(self, call, env):
        f = call.func
        if isinstance(f, ast.Attribute) and isinstance(f.value, ast.Name) and f.value.id != "self" \
                and f.value.id in env and is_term(env[f.value.id]):
            obj = f.value.id
            args = tuple(self.expr(a, env) for a in call.args)
            kws = tuple(sorted(("kw", k.arg or "**", self.expr(k.value, env)) for k in call.keywords))
            if f.attr == "append" and len(args) == 1 and not kws:
                base = self.get(env, obj)
                env[obj] = ("l", base[1] + (args[0],)) if base[0] == "l" else ("app", base, args[0])
            else:
                env[obj] = ("after", self.get(env, obj), ("call", C(f.attr), args, kws))
            return
        name = ast.unparse(f)
        if self.inlinable(f):
            self.expr(call, env)            # raises / stores are recorded, the value is dropped
            return
        if name in self.effect_free:
            return
        t = self.expr(call, env)
        env["@eff"] = ("l", env["@eff"][1] + (t,))

    # ---------------------------------------------------------------- loops
    def loop(self, st, env):
        if st.orelse:
            raise Unsupported("for ... else")
        it = self.expr(st.iter, env)
        bid = fresh()
        target_binding = self.iter_binding(st.target, it, bid)
        it = target_binding[0]
        assigned = self.assigned(st.body)
        carried = [v for v in assigned if v in env and is_term(env[v]) and env[v] != POISON]
        fid = fresh()
        body_env = dict(env)
        for k, v in enumerate(carried):
            body_env[v] = ("st", fid, k)
        target_binding[1](body_env)
        n_raises = len(self.raises)
        n_path = len(self.path)
        benv = self.tree_env(self.block(st.body, body_env))
        del self.path[n_path:]
        if len(self.raises) != n_raises or benv is None:
            raise Unsupported("raise inside a loop body")
        outs = [benv[v] for v in carried]

        def refs(t, ks):
            return has(t, lambda x: is_term(x) and x[0] == "st" and x[1] == fid and x[2] in ks)

        def shape(k, t):
            """("app", cond, e) | ("set", key, e) | ("after", call) | ("same",) | None"""
            me = ("st", fid, k)
            if t == me:
                return ("same",)
            if t[0] == "app" and t[1] == me:
                return ("app", None, t[2])
            if t[0] == "if" and t[3] == me and t[2][0] == "app" and t[2][1] == me:
                return ("app", t[1], t[2][2])
            if t[0] == "if" and t[2] == me and t[3][0] == "app" and t[3][1] == me:
                return ("app", mknot(t[1]), t[3][2])
            if t[0] == "set" and t[1] == me:
                return ("set", t[2], t[3])
            if t[0] == "after" and t[1] == me:
                return ("after", t[2])
            return None
        shapes = [shape(k, t) for k, t in enumerate(outs)]
        state = {k for k, s in enumerate(shapes) if s is None}
        changed = True
        while changed:
            changed = False
            for k, s in enumerate(shapes):
                if k in state or s is None or s[0] == "same":
                    continue
                parts = [x for x in s[1:] if x is not None]
                if any(refs(p, state) for p in parts if is_term(p)):
                    state.add(k)
                    changed = True
        # inside one iteration a non-state object reads as it was before the loop (normal form)
        pre = {("st", fid, k): env[v] for k, v in enumerate(carried) if k not in state}
        order = sorted(state)                     # order of first assignment in the body
        renum = {("st", fid, k): ("st", fid, j) for j, k in enumerate(order)}
        fold = None
        if order:
            fouts = [subst(subst(outs[k], pre), renum) for k in order]
            fit, fouts = to_element(bid, it, fouts)
            fold = ("fold", bid, fit, tuple(env[carried[k]] for k in order), tuple(fouts), fid)
        for k, v in enumerate(carried):
            s = shapes[k]
            if k in state:
                env[v] = ("fo", fold, order.index(k))
            elif s[0] == "same":
                pass
            elif s[0] == "app":
                if order and any(refs(p, set(order)) for p in s[1:] if p is not None):
                    raise Unsupported("accumulated value depends on loop state")
                conds = () if s[1] is None else (subst(s[1], pre),)
                comp = mkcomp(bid, subst(s[2], pre), it, conds)
                env[v] = comp if env[v] == ("l", ()) else ("cat", env[v], comp)
            elif s[0] == "set":
                env[v] = ("fill", env[v], bid, it, subst(s[1], pre), subst(s[2], pre))
            else:
                env[v] = POISON                   # object mutated inside the loop
        for v in assigned:
            if v not in carried:
                env[v] = POISON                   # loop-local names do not escape
        for n in ast.walk(st.target):
            if isinstance(n, ast.Name):
                env[n.id] = POISON

    def iter_binding(self, target, it, bid):
        """(iterated term, function binding the loop target in an environment)
           `for i, x in enumerate(A)` is the index loop over range(len(A)) with x = A[i]"""
        ix = self.as_indexed(it)
        if ix is not None:
            n, elem = ix

            def bind(env):
                self.bind_target(target, elem(("bv", bid)), env)
            return ("call", RANGE, (n,), ()), bind
        if it[0] == "call" and it[1] in (("s", "enumerate"), ("s", "zip"), ("s", "reversed")):
            raise Unsupported("iteration over " + show(it)[:80])
        if not (it[0] == "call" and it[1] == RANGE):
            BV_ITER[bid] = it

        def bind(env):
            self.bind_target(target, ("bv", bid), env)
        return it, bind

    def as_indexed(self, it):
        """enumerate(A) / zip(A, B, ..) of equally long sequences / enumerate(zip(..)) as an index
           loop: (number of iterations, index -> element); None for anything else"""
        if it[0] != "call" or it[3]:
            return None
        if it[1] == ("s", "enumerate") and len(it[2]) == 1:
            a = it[2][0]
            inner = self.as_indexed(a)
            if inner is None:
                inner = (mklen(a), lambda i: simp1(("i", a, i)))
            return inner[0], (lambda i: ("t", (i, inner[1](i))))
        if it[1] == ("s", "zip") and len(it[2]) >= 2:
            lens = {mklen(a) for a in it[2]}
            if len(lens) != 1:
                return None               # zip truncates: only provably equal lengths
            return lens.pop(), (lambda i: ("t", tuple(simp1(("i", a, i)) for a in it[2])))
        return None

    def bind_target(self, tg, v, env):
        if isinstance(tg, ast.Name):
            env[tg.id] = v
            if v[0] == "bv":
                self.bvnames[tg.id] = v[1]
        elif isinstance(tg, (ast.Tuple, ast.List)):
            for k, e in enumerate(tg.elts):
                self.bind_target(e, simp1(("i", v, C(k))), env)
            self.bvnames[ast.unparse(tg)] = v[1] if v[0] == "bv" else None
        else:
            raise Unsupported("loop target " + ast.unparse(tg))

    @staticmethod
    def assigned(stmts):
        """names (re)bound or mutated in the statements, in order of first occurrence"""
        out = []

        def add(n):
            if n not in out and n != "self":
                out.append(n)

        def tgt(t):
            if isinstance(t, ast.Name):
                add(t.id)
            elif isinstance(t, (ast.Tuple, ast.List)):
                for e in t.elts:
                    tgt(e)
            elif isinstance(t, (ast.Subscript, ast.Attribute)) and isinstance(t.value, ast.Name):
                add(t.value.id)
        for st in stmts:
            for n in ast.walk(st):
                if isinstance(n, ast.Assign):
                    for t in n.targets:
                        tgt(t)
                elif isinstance(n, ast.AugAssign):
                    tgt(n.target)
                elif isinstance(n, ast.For):
                    tgt(n.target)
                elif isinstance(n, ast.FunctionDef):
                    add(n.name)
                elif isinstance(n, ast.Expr) and isinstance(n.value, ast.Call) \
                        and isinstance(n.value.func, ast.Attribute) \
                        and isinstance(n.value.func.value, ast.Name):
                    add(n.value.func.value.id)
        return out

    # ---------------------------------------------------------------- expressions
    def index(self, s, env):
        if isinstance(s, ast.Slice):
            return ("sl",) + tuple(self.expr(x, env) if x is not None else NONE
                                   for x in (s.lower, s.upper, s.step))
        if isinstance(s, ast.Tuple):
            return ("t", tuple(self.index(e, env) for e in s.elts))
        return self.expr(s, env)

    def inlinable(self, f):
        if isinstance(f, ast.Name):
            return f.id in self.funcs and f.id not in self.opaque
        if isinstance(f, ast.Attribute) and isinstance(f.value, ast.Name) and f.value.id == "self":
            return f.attr in self.methods and f.attr not in self.opaque
        return False

    def expr(self, e, env):
        if isinstance(e, ast.Constant):
            return C(e.value)
        if isinstance(e, ast.Name):
            v = self.get(env, e.id)
            if isinstance(v, Closure):
                raise Unsupported("local function %s used as a value" % e.id)
            return v
        if isinstance(e, ast.Attribute):
            if isinstance(e.value, ast.Name) and e.value.id == "self":
                key = "self." + e.attr
                if key in env:
                    if env[key] == POISON:
                        raise Unsupported("attribute %s not set on every path" % key)
                    return env[key]
                if e.attr in self.methods and e.attr not in self.opaque:
                    return self.method_as_lambda(e.attr, env)
                return ("a", ("s", "self"), e.attr)
            return ("a", self.expr(e.value, env), e.attr)
        if isinstance(e, ast.Subscript):
            base = self.expr(e.value, env)
            idx = self.index(e.slice, env)
            if base[0] in ("t", "l") and idx[0] == "c" and isinstance(idx[1], int) \
                    and -len(base[1]) <= idx[1] < len(base[1]):
                return base[1][idx[1]]
            return simp1(("i", base, idx))
        if isinstance(e, ast.Tuple):
            return ("t", tuple(self.expr(x, env) for x in e.elts))
        if isinstance(e, ast.List):
            return ("l", tuple(self.expr(x, env) for x in e.elts))
        if isinstance(e, ast.UnaryOp):
            x = self.expr(e.operand, env)
            if isinstance(e.op, ast.Not):
                return mknot(x)
            if isinstance(e.op, ast.USub) and x[0] == "c" and isinstance(x[1], (int, float)):
                return C(-x[1])
            return ("u", type(e.op).__name__, x)
        if isinstance(e, ast.BinOp):
            if isinstance(e.op, ast.Mod) and isinstance(e.left, ast.Constant) \
                    and isinstance(e.left.value, str):
                # "%s_%s" % (a, b): the same format term as the f-string f"{a}_{b}"
                vals = self.expr(e.right, env)
                vals = list(vals[1]) if vals[0] == "t" else [vals]
                return fmt_parts(e.left.value, "%", vals, ast.unparse(e))
            return ("b", type(e.op).__name__, self.expr(e.left, env), self.expr(e.right, env))
        if isinstance(e, ast.BoolOp):
            tag = "and" if isinstance(e.op, ast.And) else "or"
            parts = []
            for x in e.values:
                t = self.expr(x, env)
                parts += list(t[1]) if t[0] == tag else [t]
            return (tag, tuple(parts))
        if isinstance(e, ast.Compare):
            if len(e.ops) != 1:
                raise Unsupported("chained comparison " + ast.unparse(e))
            a, b = self.expr(e.left, env), self.expr(e.comparators[0], env)
            op = type(e.ops[0]).__name__
            if op == "Gt":
                return ("cmp", "Lt", b, a)
            if op == "GtE":
                return ("cmp", "LtE", b, a)
            if op in ("In", "NotIn") and b[0] == "l":
                b = ("t", b[1])                  # membership in a literal: list or tuple alike
            return ("cmp", op, a, b)
        if isinstance(e, ast.IfExp):
            return mkif(self.expr(e.test, env), self.expr(e.body, env), self.expr(e.orelse, env))
        if isinstance(e, ast.Lambda):
            return self.make_lambda(e.args, lambda en: self.expr(e.body, en), env)
        if isinstance(e, (ast.ListComp, ast.GeneratorExp)):
            return self.comp(e, env)
        if isinstance(e, ast.JoinedStr):
            parts = []
            for v in e.values:
                if isinstance(v, ast.Constant):
                    parts.append(C(v.value))
                elif isinstance(v, ast.FormattedValue) and v.format_spec is None:
                    parts.append(self.expr(v.value, env))
                else:
                    raise Unsupported("f-string " + ast.unparse(e))
            return mkfstr(parts)
        if isinstance(e, ast.Call):
            return self.call(e, env)
        raise Unsupported("expression " + ast.unparse(e))

    def comp(self, e, env):
        if len(e.generators) != 1 or e.generators[0].is_async:
            raise Unsupported("comprehension with several generators " + ast.unparse(e))
        g = e.generators[0]
        bid = fresh()
        it, bind = self.iter_binding(g.target, self.expr(g.iter, env), bid)
        en = dict(env)
        bind(en)
        n_path = len(self.path)
        conds = tuple(self.expr(c, en) for c in g.ifs)
        elt = self.expr(e.elt, en)
        del self.path[n_path:]
        return mkcomp(bid, elt, it, conds)

    def make_lambda(self, args, body, env):
        if args.vararg or args.kwarg or args.kwonlyargs or args.defaults:
            raise Unsupported("lambda / helper signature")
        ids = []
        en = dict(env)
        for a in args.args:
            i = fresh()
            ids.append(i)
            en[a.arg] = ("bv", i)
            self.bvnames[a.arg] = i
        n_path = len(self.path)
        out = body(en)
        del self.path[n_path:]
        return ("lam", tuple(ids), out)

    def method_as_lambda(self, name, env):
        fn = self.methods[name]
        ids, args = [], {}
        params = [a.arg for a in fn.args.args]
        if not self.is_static(fn):
            params = params[1:]
        if fn.args.vararg or fn.args.kwarg or fn.args.defaults:
            raise Unsupported("method %s used as a value" % name)
        for p in params:
            i = fresh()
            ids.append(i)
            args[p] = ("bv", i)
            self.bvnames[p] = i
        return ("lam", tuple(ids), self.inline(fn, args, env, name))

    @staticmethod
    def is_static(fn):
        return any(isinstance(d, ast.Name) and d.id == "staticmethod" for d in fn.decorator_list)

    def apply(self, f, args):
        """beta-reduce a lambda term"""
        if f[0] != "lam" or len(f[1]) != len(args):
            raise Unsupported("application of a non-lambda")
        return subst(f[2], {("bv", i): a for i, a in zip(f[1], args)})

    def bind_args(self, fn, args, kws, skip_self):
        params = [a.arg for a in fn.args.args]
        if skip_self:
            params = params[1:]
        if fn.args.vararg or fn.args.kwarg or fn.args.kwonlyargs:
            raise Unsupported("helper signature of " + fn.name)
        if len(args) > len(params):
            raise Unsupported("too many arguments for " + fn.name)
        bound = dict(zip(params, args))
        for _, k, v in kws:
            if k not in params or k in bound:
                raise Unsupported("keyword %s of %s" % (k, fn.name))
            bound[k] = v
        defaults = fn.args.defaults
        for p, d in zip(params[len(params) - len(defaults):], defaults):
            if p not in bound:
                if not isinstance(d, ast.Constant):
                    raise Unsupported("default of " + fn.name)
                bound[p] = C(d.value)
        if set(bound) != set(params):
            raise Unsupported("missing argument for " + fn.name)
        return bound

    def inline(self, fn, bound, env, name, closure_env=None):
        if name in self.stack or len(self.stack) > 6:
            raise Unsupported("recursive helper " + name)
        self.stack.append(name)
        en = dict(closure_env) if closure_env is not None else {}
        # attribute stores made so far are visible to / extended by helpers
        for k, v in env.items():
            if k.startswith("self.") or k == "@eff":
                en[k] = v
        en.update(bound)
        n_path = len(self.path)
        tree = self.block(fn.body, en)
        del self.path[n_path:]
        paths = self.done_paths(tree, [])
        if paths:
            # guards of the helper that every normal completion has passed stay in force
            self.path += [l for l in paths[0] if all(l in q for q in paths[1:])]
        ret, fenv = self.finish(tree)
        self.stack.pop()
        if fenv is not None:
            for k, v in fenv.items():
                if k.startswith("self.") or k == "@eff":
                    env[k] = v
        if ret is None:
            raise Unsupported("helper %s always raises" % name)
        return ret

    def call(self, e, env):
        f = e.func
        if isinstance(f, ast.Attribute) and f.attr == "format" and isinstance(f.value, ast.Constant) \
                and isinstance(f.value.value, str) and not e.keywords \
                and not any(isinstance(a, ast.Starred) for a in e.args):
            return fmt_parts(f.value.value, "{", [self.expr(a, env) for a in e.args],
                             ast.unparse(e))
        if any(isinstance(a, ast.Starred) for a in e.args):
            raise Unsupported("star arguments " + ast.unparse(e))
        if isinstance(f, ast.Name) and f.id == "map" and len(e.args) == 2 and not e.keywords \
                and f.id not in env:
            fun = self.fun_value(e.args[0], env)
            bid = fresh()
            return mkcomp(bid, self.apply(fun, (("bv", bid),)), self.expr(e.args[1], env), ())
        args = tuple(self.expr(a, env) for a in e.args)
        kws = tuple(sorted(("kw", k.arg or "**", self.expr(k.value, env)) for k in e.keywords))
        if isinstance(f, ast.Name) and isinstance(env.get(f.id), Closure):
            cl = env[f.id]                                 # local def
            return self.inline(cl.fdef, self.bind_args(cl.fdef, args, kws, False), env,
                               cl.fdef.name, cl.env)
        if self.inlinable(f):
            if isinstance(f, ast.Name):
                fn = self.funcs[f.id]
                return self.inline(fn, self.bind_args(fn, args, kws, False), env, f.id)
            fn = self.methods[f.attr]
            bound = self.bind_args(fn, args, kws, not self.is_static(fn))
            return self.inline(fn, bound, env, "self." + f.attr)
        if isinstance(f, ast.Name) and f.id == "len" and len(args) == 1 and args[0][0] in ("t", "l"):
            return C(len(args[0][1]))
        if isinstance(f, ast.Name) and f.id not in env and not kws:
            if f.id == "isinstance" and len(args) == 2 and args[1][0] == "t":
                # isinstance(x, (A, B)) = isinstance(x, A) or isinstance(x, B)
                return ("or", tuple(("call", ("s", "isinstance"), (args[0], c), ())
                                    for c in args[1][1]))
            if f.id == "list" and not args:
                return ("l", ())
            if f.id == "list" and len(args) == 1 and args[0][0] in ("comp", "l"):
                return args[0]               # a comprehension term already denotes the list
            if f.id == "tuple" and not args:
                return ("t", ())
        ft = self.expr(f, env)
        if ft[0] == "a" and ft[1] == ("s", "np") and ft[2] in NP_SIGS and kws:
            # keyword vs positional passing of the leading numpy parameters
            names = NP_SIGS[ft[2]]
            given = {k: v for _, k, v in kws}
            args = list(args)
            while len(args) < len(names) and names[len(args)] in given:
                args.append(given.pop(names[len(args)]))
            args = tuple(args)
            kws = tuple(sorted(("kw", k, v) for k, v in given.items()))
        if ft[0] == "a" and ft[2] in METHOD_SIGS and args and len(args) <= len(METHOD_SIGS[ft[2]]):
            # positional vs keyword passing of the leading parameters of pandas methods
            names = METHOD_SIGS[ft[2]]
            if not any(k in names[:len(args)] for _, k, _v in kws):
                kws = tuple(sorted(list(kws) + [("kw", n, a) for n, a in zip(names, args)]))
                args = ()
        if ft[0] == "lam":
            if kws:
                raise Unsupported("keywords to a lambda")
            return self.apply(ft, args)
        return simp1(("call", ft, args, kws))

    def fun_value(self, node, env):
        if isinstance(node, ast.Name) and isinstance(env.get(node.id), Closure):
            fdef, cenv = env[node.id].fdef, env[node.id].env
            return self.make_lambda(
                fdef.args,
                lambda en: self.inline(fdef, {a.arg: en[a.arg] for a in fdef.args.args}, env,
                                       fdef.name, cenv), env)
        if isinstance(node, ast.Name) and node.id in self.funcs and node.id not in self.opaque:
            fdef = self.funcs[node.id]
            return self.make_lambda(
                fdef.args,
                lambda en: self.inline(fdef, {a.arg: en[a.arg] for a in fdef.args.args}, env,
                                       fdef.name), env)
        t = self.expr(node, env)
        if t[0] != "lam":
            # any other callable (len, float, np.mean, ..): map(f, xs) = [f(x) for x in xs]
            i = fresh()
            return ("lam", (i,), simp1(("call", t, (("bv", i),), ())))
        return t


# ------------------------------------------------------------------------------------------------
# matching a summary against a reference pattern with holes


def _binders(x):
    if x[0] == "comp":
        return [(1, x[1])]
    if x[0] == "fill":
        return [(2, x[2])]
    if x[0] == "fold":
        return [(1, x[1]), (5, x[5])]
    if x[0] == "lam":
        return [(1, x[1])]
    return []


def canon(t):
    """rename the variables BOUND inside t (in binder order); free ones stay"""
    ren = {}
    for x in walk(t):
        if is_term(x):
            for _, b in _binders(x):
                for i in (b if isinstance(b, tuple) else (b,)):
                    if i not in ren:
                        ren[i] = "k%d" % len(ren)

    def go(x):
        if is_term(x):
            if x[0] == "c":
                return x
            if x[0] == "bv":
                return ("bv", ren.get(x[1], x[1]))
            if x[0] == "st":
                return ("st", ren.get(x[1], x[1]), x[2])
            pos = dict(_binders(x))
            out = []
            for k, y in enumerate(x):
                if k in pos:
                    out.append(tuple(ren[i] for i in y) if isinstance(y, tuple) else ren[y])
                else:
                    out.append(go(y))
            return tuple(out)
        if isinstance(x, tuple):
            return tuple(go(y) for y in x)
        return x
    return go(t)


def is_hole(p):
    return is_term(p) and p[0] == "s" and len(p) == 2 and isinstance(p[1], str) \
        and p[1].startswith("_H_")


class Match:
    def __init__(self):
        self.holes = {}
        self.bv = {}        # pattern binder id -> actual binder id

    def fail(self, what, p, t):
        raise Unsupported("%s: expected %s  found %s" % (what, show(p)[:300], show(t)[:300]))

    def term(self, p, t, what):
        if is_hole(p):
            name = p[1][3:]
            if name in self.holes:
                if canon(self.holes[name]) != canon(t):
                    self.fail(what + " (hole %s bound twice)" % name, self.holes[name], t)
            else:
                self.holes[name] = t
            return
        if is_term(p) and p[0] == "call" and p[1] == ("s", "_AS") and len(p[2]) == 2:
            self.term(p[2][1], t, what)
            self.holes[p[2][0][1]] = t
            return
        if is_term(p) != is_term(t):
            self.fail(what, p, t)
        if not is_term(p):
            if isinstance(p, tuple) and isinstance(t, tuple):
                if len(p) != len(t):
                    self.fail(what, p, t)
                for a, b in zip(p, t):
                    self.term(a, b, what)
                return
            if p != t:
                self.fail(what, p, t)
            return
        if p[0] != t[0] or len(p) != len(t):
            self.fail(what, p, t)
        if p[0] == "bv":
            if self.bv.get(p[1], p[1]) != t[1]:
                self.fail(what + " (bound variable)", p, t)
            return
        if p[0] == "st":
            if self.bv.get(p[1], p[1]) != t[1] or p[2] != t[2]:
                self.fail(what + " (loop state)", p, t)
            return
        if p[0] == "comp":
            self.term(p[3], t[3], what)
            self.bv[p[1]] = t[1]
            self.term(p[2], t[2], what)
            self.term(p[4], t[4], what)
            return
        if p[0] == "fill":
            self.term(p[1], t[1], what)
            self.term(p[3], t[3], what)
            self.bv[p[2]] = t[2]
            self.term(p[4], t[4], what)
            self.term(p[5], t[5], what)
            return
        if p[0] == "fold":
            self.term(p[2], t[2], what)
            self.term(p[3], t[3], what)
            self.bv[p[1]] = t[1]
            self.bv[p[5]] = t[5]
            self.term(p[4], t[4], what)
            return
        if p[0] == "lam":
            if len(p[1]) != len(t[1]):
                self.fail(what, p, t)
            for a, b in zip(p[1], t[1]):
                self.bv[a] = b
            self.term(p[2], t[2], what)
            return
        for a, b in zip(p[1:], t[1:]):
            self.term(a, b, what)

    def summary(self, p, t, what):
        if (p["ret"] is None) != (t["ret"] is None):
            raise Unsupported(what + ": one of the functions never returns")
        if p["ret"] is not None:
            self.term(p["ret"], t["ret"], what + " returned value")
        if set(p["stores"]) != set(t["stores"]):
            raise Unsupported("%s: attributes set on self: expected %s found %s"
                              % (what, sorted(p["stores"]), sorted(t["stores"])))
        for k in sorted(p["stores"]):
            self.term(p["stores"][k], t["stores"][k], "%s self.%s" % (what, k))
        self.term(p["eff"], t["eff"], what + " calls made for effect")
        if len(p["raises"]) != len(t["raises"]):
            raise Unsupported("%s: %d raise sites, expected %d"
                              % (what, len(t["raises"]), len(p["raises"])))
        # raise sites are a SET of (exception, conjunction of literals): pair them up in any order
        left = list(t["raises"])
        for pp, pe in p["raises"]:
            last = None
            for cand in left:
                saved = (dict(self.holes), dict(self.bv))
                try:
                    self.raise_site(pp, pe, cand[0], cand[1], what)
                    left.remove(cand)
                    break
                except Unsupported as e:
                    self.holes, self.bv = saved
                    last = e
            else:
                raise Unsupported("%s: no raise site matches `%s` of the reference (%s)"
                                  % (what, pe, last))

    def raise_site(self, pp, pe, tp, te, what):
        if pe != te or len(pp) != len(tp):
            raise Unsupported("%s: raise %s under %d conditions, expected %s under %d"
                              % (what, te, len(tp), pe, len(pp)))
        # the literals of a conjunction may come in any order: non-hole literals first
        rest = list(tp)
        for pa, ppol in sorted(pp, key=lambda l: is_hole(l[0])):
            for cand in rest:
                ta, tpol = cand
                saved = (dict(self.holes), dict(self.bv))
                try:
                    if is_hole(pa):
                        # a hole stands for the whole literal (with its polarity)
                        self.term(pa, ta if tpol == ppol else mknot(ta), what + " raise condition")
                    else:
                        if ppol != tpol:
                            raise Unsupported(what + ": polarity of a raise condition")
                        self.term(pa, ta, what + " raise condition")
                    rest.remove(cand)
                    break
                except Unsupported:
                    self.holes, self.bv = saved
            else:
                raise Unsupported("%s: raise %s: condition %s not found" % (what, pe, show(pa)))


def show(t):
    """compact rendering for error messages"""
    if not is_term(t):
        if isinstance(t, tuple):
            return "(" + ", ".join(show(x) for x in t) + ")"
        return repr(t)
    k = t[0]
    if k == "c":
        return repr(t[1])
    if k == "s":
        return t[1]
    if k == "bv":
        return "v%s" % (t[1],)
    if k == "a":
        return "%s.%s" % (show(t[1]), t[2])
    if k == "i":
        return "%s[%s]" % (show(t[1]), show(t[2]))
    if k == "call":
        return "%s(%s)" % (show(t[1]), ", ".join([show(x) for x in t[2]]
                                                 + ["%s=%s" % (a, show(b)) for _, a, b in t[3]]))
    if k == "b":
        return "(%s %s %s)" % (show(t[2]), t[1], show(t[3]))
    if k == "cmp":
        return "(%s %s %s)" % (show(t[2]), t[1], show(t[3]))
    if k == "comp":
        return "[%s for v%s in %s%s]" % (show(t[2]), t[1], show(t[3]),
                                         "".join(" if " + show(c) for c in t[4]))
    return "%s(%s)" % (k, ", ".join(show(x) for x in t[1:]))
