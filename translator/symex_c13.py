"""Small symbolic evaluator for straight-line Python method bodies (C13's site extractor).

Purpose: make the tie to the source invariant under behaviour-preserving rewrites.  A method is
not matched statement by statement; it is EVALUATED on symbolic arguments into a term (its return
value) plus the attribute writes it performs on `self`, by data flow:

  * locals are substituted (renamed locals, temporaries introduced or inlined, a repeated
    sub-expression computed once, a loop-invariant hoisted out of a comprehension all give the
    same term);
  * calls to private helpers - `self._helper(...)` resolved through the class and its bases in the
    same file, and module-level functions of the same file - are inlined with argument binding
    (no recursion); tuple returns / tuple unpacking are followed;
  * `if c: return a` followed by the rest == `if c: return a else: rest` (continuation style);
    if/else assignments and conditional expressions give the same `("if", c, a, b)` term;
    `not`, `is not`, `!=` are normalised; a branch that raises is the invalid-input path and is
    dropped (the model is about valid input, like check_series being the identity there);
  * `for v in it: out.append(e)` over an empty list == `[e for v in it]` == generator expression;
  * reads of `self.attr` after a write in the same call see the written term;
  * `getattr(self, "name")` == `self.name`.

Fail closed: any statement or expression outside this subset raises Unsupported; nothing is skipped
silently (docstrings and bare guard calls `self.check_is_fitted()` / `check_series(...)` are the
only expression statements accepted).

Terms are nested tuples (hashable, comparable):
  ("sym", n) symbolic argument | ("name", n) global name | ("const", repr) | ("attr", t, n) |
  ("call", f, (args), ((kw, t), ...)) | ("sub", t, i) | ("slice", lo, hi, st) | ("bin", op, a, b) |
  ("un", op, a) | ("cmp", op, a, b) | ("bool", op, (ts)) | ("if", c, a, b) | ("tuple", (ts)) |
  ("list", (ts)) | ("dict", ((key repr, t), ...)) | ("comp", iter, elt) with the loop variable as
  ("bound", depth)
"""
import ast

from .pyz import Unsupported

NONE = ("const", "None")
SELF = ("sym", "self")

BINOPS = {ast.Add: "+", ast.Sub: "-", ast.Mult: "*", ast.Div: "/", ast.Mod: "%",
          ast.FloorDiv: "//", ast.Pow: "**"}
CMPOPS = {ast.Eq: "==", ast.Is: "is", ast.Lt: "<", ast.LtE: "<=", ast.Gt: ">", ast.GtE: ">=",
          ast.In: "in"}
NEGCMP = {ast.NotEq: "==", ast.IsNot: "is", ast.NotIn: "in"}


def _u(n):
    return ast.unparse(n)


def mk_not(c):
    """negation normal form: double negation removed, De Morgan applied (negations sit on atoms)"""
    if c[0] == "un" and c[1] == "not":
        return c[2]
    if c[0] == "bool":
        return ("bool", "or" if c[1] == "and" else "and", tuple(mk_not(v) for v in c[2]))
    if c == ("const", "True"):
        return ("const", "False")
    if c == ("const", "False"):
        return ("const", "True")
    return ("un", "not", c)


def mk_cmp(op, a, b):
    """symmetric comparisons get their operands in a canonical order"""
    if op in ("==", "is") and repr(b) < repr(a):
        a, b = b, a
    return ("cmp", op, a, b)


def mk_bool(op, vals):
    """flattened and / or"""
    out = []
    for v in vals:
        if v[0] == "bool" and v[1] == op:
            out += list(v[2])
        else:
            out.append(v)
    return ("bool", op, tuple(out))


def norm_comp(it, elt, depth):
    """index loops: [f(S[i]) for i in range(len(S))] == [f(v) for v in S] when i is used only to
    subscript S"""
    b = ("bound", depth)
    if it[0] == "call" and it[1] == ("name", "range") and len(it[2]) == 1 and not it[3]:
        ln = it[2][0]
        if ln[0] == "call" and ln[1] == ("name", "len") and len(ln[2]) == 1 and not ln[3]:
            seq = ln[2][0]
            marker = ("bound-elt", depth)
            e2 = _replace_term(elt, ("sub", seq, b), marker)
            if not _contains(e2, b):
                return seq, _replace_term(e2, marker, b)
    return it, elt


def _replace_term(t, old, new):
    if t == old:
        return new
    if isinstance(t, tuple):
        return tuple(_replace_term(x, old, new) for x in t)
    return t


def _contains(t, x):
    if t == x:
        return True
    return isinstance(t, tuple) and any(_contains(y, x) for y in t)


def mk_if(c, a, b):
    """conditional term in normal form: no negated condition, no trivial choice"""
    if a == b:
        return a
    if c[0] == "un" and c[1] == "not":
        return mk_if(c[2], b, a)
    if c == ("const", "True"):
        return a
    if c == ("const", "False"):
        return b
    return ("if", c, a, b)


def subst_bound(t, depth, value):
    """replace ("bound", depth) by value"""
    if t == ("bound", depth):
        return value
    if isinstance(t, tuple):
        return tuple(subst_bound(x, depth, value) for x in t)
    return t


class State:
    """one path: local environment, attribute writes on self (ordered), pending list builders"""

    def __init__(self, env=None, writes=None):
        self.env = dict(env or {})
        self.writes = dict(writes or {})

    def copy(self):
        return State(self.env, self.writes)


class Evaluator:
    """`classes`: the class and its bases defined in the same module, most derived first (method
    resolution order); `funcs`: module-level functions of that file; `opaque`: names never inlined
    (they stay call terms); `identity`: {callable name: allowed keyword names} - validators that
    return their first argument on valid input."""

    def __init__(self, classes, funcs, opaque=(), identity=None, inline_public=False, what="",
                 decide=None, signature=None):
        self.classes, self.funcs = classes, funcs
        self.opaque = set(opaque)
        self.identity = identity or {}
        self.inline_public = inline_public
        self.what = what
        self.stack = []
        self.depth = 0            # nesting depth of comprehension variables
        self.guards = []          # validator calls seen (as unparsed text), informational
        # signature(callee term) -> parameter names or None: calls of callables whose definition is
        # known are put into all-keyword form, so positional and keyword passing give one term
        self.signature = signature or (lambda f: None)
        self.raised = []          # path conditions (tuples of terms) under which a `raise` is hit
        # decide(condition term) -> True / False / None: assumptions under which the function is
        # evaluated (e.g. "the time points are integers"); a branch decided dead is NOT evaluated
        base = decide or (lambda c: None)

        def dec(c):
            r = base(c)
            if r is not None:
                return r
            if c[0] == "un" and c[1] == "not":
                r = dec(c[2])
                return None if r is None else not r
            if c[0] == "bool":
                rs = [dec(v) for v in c[2]]
                if c[1] == "and":
                    return False if False in rs else (True if all(r is True for r in rs) else None)
                return True if True in rs else (False if all(r is False for r in rs) else None)
            return None
        self.decide = dec

    # ---- lookup --------------------------------------------------------------------------------
    def method(self, name):
        for c in self.classes:
            for n in c.body:
                if isinstance(n, ast.FunctionDef) and n.name == name:
                    return n
        return None

    def fail(self, msg):
        raise Unsupported("%s: %s" % (self.what or "symbolic evaluation", msg))

    # ---- functions -----------------------------------------------------------------------------
    def run(self, fn, args, kwargs, st_writes):
        """evaluate fn on argument terms; returns (return term, writes after)"""
        if fn.name in self.stack:
            self.fail("recursive call of %s" % fn.name)
        a = fn.args
        if a.vararg or a.kwarg or a.kwonlyargs or a.posonlyargs:
            self.fail("%s: unsupported signature" % fn.name)
        names = [x.arg for x in a.args]
        for d in fn.decorator_list:
            if not (_u(d).startswith("if_delegate_has_method") or _u(d) == "staticmethod"):
                self.fail("%s: decorator %s" % (fn.name, _u(d)))
        env = {}
        if len(args) > len(names):
            self.fail("%s: too many arguments" % fn.name)
        for n, v in zip(names, args):
            env[n] = v
        for k, v in kwargs:
            if k not in names or k in env:
                self.fail("%s: keyword argument %s" % (fn.name, k))
            env[k] = v
        defaults = dict(zip(names[len(names) - len(a.defaults):], a.defaults))
        for n in names:
            if n not in env:
                if n not in defaults:
                    self.fail("%s: missing argument %s" % (fn.name, n))
                env[n] = self.expr(defaults[n], State())
        self.stack.append(fn.name)
        try:
            body = list(fn.body)
            if body and isinstance(body[0], ast.Expr) and isinstance(body[0].value, ast.Constant) \
                    and isinstance(body[0].value.value, str):
                body = body[1:]
            res = self.block(body, State(env, st_writes))
        finally:
            self.stack.pop()
        if res[0] == "raise":
            self.fail("%s always raises" % fn.name)
        if res[0] == "fall":
            return NONE, res[1].writes
        return res[1], res[2].writes

    def evaluate(self, name, args):
        """public entry: evaluate method `name` of the class on (self, *args)"""
        fn = self.method(name)
        if fn is None:
            self.fail("no method %s" % name)
        return self.run(fn, [SELF] + list(args), [], {})

    # ---- statements ----------------------------------------------------------------------------
    def block(self, stmts, st, path=()):
        """-> ("ret", term, state) | ("fall", state) | ("raise",)"""
        for i, s in enumerate(stmts):
            rest = stmts[i + 1:]
            if isinstance(s, ast.Return):
                return ("ret", NONE if s.value is None else self.expr(s.value, st), st)
            if isinstance(s, ast.Raise):
                self.raised.append(tuple(path))
                return ("raise",)
            if isinstance(s, ast.Pass):
                continue
            if isinstance(s, ast.Expr):
                if isinstance(s.value, ast.Constant) and isinstance(s.value.value, str):
                    continue
                if isinstance(s.value, ast.Call):
                    # a call evaluated for its effect: validators, inlined helpers that write
                    # state, list.append on a local list builder
                    if self.append_stmt(s.value, st):
                        continue
                    self.expr(s.value, st, effect=True)
                    continue
                self.fail("expression statement %s" % _u(s)[:60])
            if isinstance(s, (ast.Assign, ast.AnnAssign)):
                if isinstance(s, ast.AnnAssign):
                    if s.value is None:
                        continue
                    targets, value = [s.target], s.value
                else:
                    targets, value = s.targets, s.value
                v = self.expr(value, st)
                for t in targets:
                    self.assign(t, v, st)
                continue
            if isinstance(s, ast.If):
                c = self.expr(s.test, st)
                d = self.decide(c)
                if d is not None:
                    return self.block(list(s.body if d else s.orelse) + rest, st, path)
                r1 = self.block(list(s.body) + rest, st.copy(), tuple(path) + (c,))
                r2 = self.block(list(s.orelse) + rest, st.copy(), tuple(path) + (mk_not(c),))
                return self.merge(c, r1, r2, st)
            if isinstance(s, ast.For):
                self.for_loop(s, st)
                continue
            if isinstance(s, ast.Assert):
                continue            # asserts hold on valid input
            self.fail("statement %s" % _u(s)[:60])
        return ("fall", st)

    def merge(self, c, r1, r2, st0):
        if r1[0] == "raise" and r2[0] == "raise":
            return ("raise",)
        if r1[0] == "raise":
            return r2
        if r2[0] == "raise":
            return r1
        if r1[0] != r2[0]:
            self.fail("one branch returns, the other does not")
        s1, s2 = r1[-1], r2[-1]
        out = State()
        for k in list(s1.writes) + [k for k in s2.writes if k not in s1.writes]:
            a = s1.writes.get(k, ("attr", SELF, k))
            b = s2.writes.get(k, ("attr", SELF, k))
            out.writes[k] = mk_if(c, a, b)
        for k in s1.env:
            if k in s2.env:
                out.env[k] = mk_if(c, s1.env[k], s2.env[k])
        if r1[0] == "ret":
            return ("ret", mk_if(c, r1[1], r2[1]), out)
        return ("fall", out)

    def assign(self, t, v, st):
        if isinstance(t, ast.Name):
            st.env[t.id] = v
            return
        if isinstance(t, (ast.Tuple, ast.List)):
            if v[0] not in ("tuple", "list") or len(v[1]) != len(t.elts):
                self.fail("cannot unpack %s" % _u(t))
            for e, x in zip(t.elts, v[1]):
                self.assign(e, x, st)
            return
        if isinstance(t, ast.Attribute) and isinstance(t.value, ast.Name) \
                and st.env.get(t.value.id) == SELF:
            st.writes[t.attr] = v
            return
        self.fail("assignment target %s" % _u(t))

    def append_stmt(self, call, st):
        """`name.append(e)` on a local list literal"""
        f = call.func
        if isinstance(f, ast.Attribute) and f.attr == "append" and isinstance(f.value, ast.Name) \
                and f.value.id in st.env and st.env[f.value.id][0] == "list" \
                and len(call.args) == 1 and not call.keywords:
            cur = st.env[f.value.id]
            st.env[f.value.id] = ("list", cur[1] + (self.expr(call.args[0], st),))
            return True
        return False

    def for_loop(self, s, st):
        """only the list-building loop: `for v in it: [temporaries;] out.append(e)` with `out`
        bound to an empty list == the comprehension [e for v in it]"""
        if s.orelse or not isinstance(s.target, ast.Name):
            self.fail("for loop shape")
        body = list(s.body)
        last = body[-1] if body else None
        ok = (isinstance(last, ast.Expr) and isinstance(last.value, ast.Call)
              and isinstance(last.value.func, ast.Attribute) and last.value.func.attr == "append"
              and isinstance(last.value.func.value, ast.Name)
              and len(last.value.args) == 1 and not last.value.keywords)
        if not ok:
            self.fail("for loop that is not a list-building loop")
        out = last.value.func.value.id
        if st.env.get(out) != ("list", ()):
            self.fail("for loop appends to %s, which is not an empty list" % out)
        it = self.expr(s.iter, st)
        self.depth += 1
        inner = st.copy()
        inner.env[s.target.id] = ("bound", self.depth)
        for b in body[:-1]:
            if not (isinstance(b, ast.Assign) and len(b.targets) == 1
                    and isinstance(b.targets[0], ast.Name)):
                self.fail("statement in list-building loop: %s" % _u(b)[:50])
            inner.env[b.targets[0].id] = self.expr(b.value, inner)
        elt = self.expr(last.value.args[0], inner)
        it, elt = norm_comp(it, elt, self.depth)
        self.depth -= 1
        if inner.writes != st.writes:
            self.fail("loop body writes estimator state")
        st.env[out] = ("comp", it, elt)

    # ---- expressions ---------------------------------------------------------------------------
    def expr(self, e, st, effect=False):
        if isinstance(e, ast.Constant):
            return ("const", repr(e.value))
        if isinstance(e, ast.Name):
            if e.id in st.env:
                return st.env[e.id]
            if e.id in ("True", "False", "None"):
                return ("const", e.id)
            return ("name", e.id)
        if isinstance(e, ast.Attribute):
            b = self.expr(e.value, st)
            if b == SELF and e.attr in st.writes:
                return st.writes[e.attr]
            return ("attr", b, e.attr)
        if isinstance(e, (ast.Tuple, ast.List)):
            return ("tuple" if isinstance(e, ast.Tuple) else "list",
                    tuple(self.expr(x, st) for x in e.elts))
        if isinstance(e, ast.Dict):
            if any(k is None or not isinstance(k, ast.Constant) for k in e.keys):
                self.fail("dict display with non-literal keys")
            return ("dict", tuple((repr(k.value), self.expr(v, st))
                                  for k, v in zip(e.keys, e.values)))
        if isinstance(e, ast.BinOp) and type(e.op) in BINOPS:
            return ("bin", BINOPS[type(e.op)], self.expr(e.left, st), self.expr(e.right, st))
        if isinstance(e, ast.UnaryOp):
            v = self.expr(e.operand, st)
            if isinstance(e.op, ast.Not):
                return mk_not(v)
            if isinstance(e.op, ast.USub):
                return ("un", "-", v)
            self.fail("unary operator in %s" % _u(e))
        if isinstance(e, ast.Compare) and len(e.ops) == 1:
            a, b = self.expr(e.left, st), self.expr(e.comparators[0], st)
            if type(e.ops[0]) in CMPOPS:
                return mk_cmp(CMPOPS[type(e.ops[0])], a, b)
            if type(e.ops[0]) in NEGCMP:
                return mk_not(mk_cmp(NEGCMP[type(e.ops[0])], a, b))
        if isinstance(e, ast.BoolOp):
            return mk_bool("and" if isinstance(e.op, ast.And) else "or",
                           [self.expr(v, st) for v in e.values])
        if isinstance(e, ast.IfExp) and self.decide(self.expr(e.test, st)) is not None:
            return self.expr(e.body if self.decide(self.expr(e.test, st)) else e.orelse, st)
        if isinstance(e, ast.IfExp):
            return mk_if(self.expr(e.test, st), self.expr(e.body, st), self.expr(e.orelse, st))
        if isinstance(e, ast.Subscript):
            return ("sub", self.expr(e.value, st), self.index(e.slice, st))
        if isinstance(e, (ast.ListComp, ast.GeneratorExp)):
            if len(e.generators) != 1:
                self.fail("comprehension with several generators")
            g = e.generators[0]
            if g.ifs or g.is_async or not isinstance(g.target, ast.Name):
                self.fail("comprehension shape %s" % _u(e)[-50:])
            it = self.expr(g.iter, st)
            self.depth += 1
            inner = st.copy()
            inner.env[g.target.id] = ("bound", self.depth)
            elt = self.expr(e.elt, inner)
            it, elt = norm_comp(it, elt, self.depth)
            self.depth -= 1
            return ("comp", it, elt)
        if isinstance(e, ast.Call):
            return self.call(e, st, effect)
        self.fail("expression %s" % _u(e)[:60])

    def index(self, sl, st):
        if isinstance(sl, ast.Slice):
            return ("slice",) + tuple(NONE if x is None else self.expr(x, st)
                                      for x in (sl.lower, sl.upper, sl.step))
        return self.expr(sl, st)

    def call(self, e, st, effect):
        if any(isinstance(a, ast.Starred) for a in e.args) or any(k.arg is None for k in e.keywords):
            self.fail("star arguments in %s" % _u(e)[:50])
        f = self.expr(e.func, st)
        args = [self.expr(a, st) for a in e.args]
        kwargs = [(k.arg, self.expr(k.value, st)) for k in e.keywords]
        # getattr(self, "name") == self.name
        if f == ("name", "getattr") and len(args) == 2 and not kwargs and args[1][0] == "const":
            nm = ast.literal_eval(args[1][1])
            if isinstance(nm, str):
                if args[0] == SELF and nm in st.writes:
                    return st.writes[nm]
                return ("attr", args[0], nm)
        fname = f[1] if f[0] == "name" else (f[2] if f[0] == "attr" and f[1] == SELF else None)
        # validators: identity on their first argument for valid input
        if fname in self.identity and (f[0] == "name" or f[1] == SELF):
            allowed = self.identity[fname]
            bad = [k for k, _ in kwargs if k not in allowed]
            if bad:
                self.fail("%s called with keyword %s" % (fname, bad[0]))
            self.guards.append(_u(e))
            return args[0] if args else NONE
        # the parent constructor: an effect outside the class under evaluation
        if effect and f[0] == "attr" and f[2] == "__init__" and f[1][0] == "call" \
                and f[1][1] == ("name", "super"):
            return NONE
        target = None
        if f[0] == "attr" and f[1] == SELF and fname not in self.opaque:
            m = self.method(fname)
            if m is not None and (fname.startswith("_") and not fname.startswith("__")
                                  or self.inline_public):
                static = any(_u(d) == "staticmethod" for d in m.decorator_list)
                target, args = m, (args if static else [SELF] + args)
        elif f[0] == "name" and fname in self.funcs and fname not in self.opaque:
            target = self.funcs[fname]
        if target is not None:
            ret, writes = self.run(target, args, kwargs, st.writes)
            st.writes = dict(writes)
            return ret
        if effect:
            self.fail("call evaluated for its effect is not understood: %s" % _u(e)[:60])
        return self.canon_call(f, args, kwargs)

    def canon_call(self, f, args, kwargs):
        """all-keyword form when the callee's parameter names are known"""
        params = None
        if f[0] == "attr" and f[1] == SELF:
            m = self.method(f[2])
            if m is not None:
                a = m.args
                if not (a.vararg or a.kwarg or a.kwonlyargs or a.posonlyargs):
                    static = any(_u(d) == "staticmethod" for d in m.decorator_list)
                    params = [x.arg for x in a.args][0 if static else 1:]
        if params is None:
            params = self.signature(f)
        if params is not None:
            if len(args) > len(params):
                self.fail("too many positional arguments for %s" % show(f))
            kw = dict(zip(params, args))
            for k, v in kwargs:
                if k in kw or k not in params:
                    self.fail("argument %s of %s" % (k, show(f)))
                kw[k] = v
            return ("call", f, (), tuple(sorted(kw.items())))
        return ("call", f, tuple(args), tuple(sorted(kwargs)))


# ---- helpers for consumers ---------------------------------------------------------------------


def _find_if(t, under_comp=False):
    """first conditional sub-term (pre-order) that is not inside a comprehension element"""
    if not isinstance(t, tuple) or not t:
        return None
    if t[0] == "if":
        return t
    if t[0] == "comp":
        return _find_if(t[1])
    if t[0] in ("sym", "name", "const", "bound"):
        return None
    for x in (t[1:] if isinstance(t[0], str) else t):
        if isinstance(x, tuple):
            r = _find_if(x)
            if r is not None:
                return r
    return None


def _replace(t, old, new):
    if t == old:
        return new
    if isinstance(t, tuple):
        return tuple(_replace(x, old, new) for x in t)
    return t


def lift_if(t, limit=16):
    """pull conditionals to the top: f(.. (a if c else b) ..) == (f(.. a ..) if c else f(.. b ..))
    (all sub-terms are pure: calls on symbolic values are never executed here)"""
    if limit == 0:
        raise Unsupported("too many nested conditionals")
    if t[0] == "if":
        inner = _find_if(t[1])
        if inner is not None:         # a conditional inside the condition: split on it first
            return mk_if(inner[1],
                         lift_if(("if", _replace(t[1], inner, inner[2]), t[2], t[3]), limit - 1),
                         lift_if(("if", _replace(t[1], inner, inner[3]), t[2], t[3]), limit - 1))
        return mk_if(t[1], lift_if(t[2], limit - 1), lift_if(t[3], limit - 1))
    inner = _find_if(t)
    if inner is None:
        return t
    c = inner[1]
    return mk_if(c, lift_if(_replace(t, inner, inner[2]), limit - 1),
                 lift_if(_replace(t, inner, inner[3]), limit - 1))


def _conds(t, acc):
    if isinstance(t, tuple) and t and t[0] == "if":
        if t[1] not in acc:
            acc.append(t[1])
        _conds(t[2], acc)
        _conds(t[3], acc)
    return acc


def _restrict(t, c, val):
    if isinstance(t, tuple) and t and t[0] == "if":
        if t[1] == c:
            return _restrict(t[2] if val else t[3], c, val)
        return mk_if(t[1], _restrict(t[2], c, val), _restrict(t[3], c, val))
    return t


def normal(t):
    """canonical decision tree of a term: conditionals lifted to the top, tested in a fixed order
    (by rendering), equal branches merged - two terms that choose the same leaves under the same
    conditions get the same normal form however the choices were nested"""
    t = lift_if(t)
    conds = sorted(_conds(t, []), key=repr)

    def build(u, cs):
        if not cs or not (isinstance(u, tuple) and u and u[0] == "if"):
            return u
        c = cs[0]
        return mk_if(c, build(_restrict(u, c, True), cs[1:]), build(_restrict(u, c, False), cs[1:]))
    return build(t, conds)


def show(t):
    """readable rendering of a term (for error messages and generated comments)"""
    k = t[0]
    if k in ("sym", "name"):
        return t[1]
    if k == "const":
        return t[1]
    if k == "bound":
        return "v%d" % t[1]
    if k == "attr":
        return "%s.%s" % (show(t[1]), t[2])
    if k == "call":
        return "%s(%s)" % (show(t[1]), ", ".join([show(a) for a in t[2]]
                                                 + ["%s=%s" % (n, show(v)) for n, v in t[3]]))
    if k == "sub":
        return "%s[%s]" % (show(t[1]), show(t[2]))
    if k == "slice":
        return ":".join("" if x == NONE else show(x) for x in t[1:])
    if k in ("bin", "cmp"):
        return "(%s %s %s)" % (show(t[2]), t[1], show(t[3]))
    if k == "un":
        return "(%s %s)" % (t[1], show(t[2]))
    if k == "bool":
        return "(%s)" % (" %s " % t[1]).join(show(x) for x in t[2])
    if k == "if":
        return "(%s if %s else %s)" % (show(t[2]), show(t[1]), show(t[3]))
    if k in ("tuple", "list"):
        return "(%s)" % ", ".join(show(x) for x in t[1])
    if k == "dict":
        return "{%s}" % ", ".join("%s: %s" % (a, show(b)) for a, b in t[1])
    if k == "comp":
        return "[%s for v in %s]" % (show(t[2]), show(t[1]))
    return repr(t)


def module_parts(mod, cname):
    """(classes most-derived-first following bases defined in the same module, module functions)"""
    by = {n.name: n for n in mod.body if isinstance(n, ast.ClassDef)}
    funcs = {n.name: n for n in mod.body if isinstance(n, ast.FunctionDef)}
    if cname not in by:
        raise Unsupported("class %s not found" % cname)
    out, todo = [], [cname]
    # (module_signatures below resolves the parameter names of imported callables)
    while todo:
        c = todo.pop(0)
        if c in by and by[c] not in out:
            out.append(by[c])
            todo += [_u(b) for b in by[c].bases]
    return out, funcs


def _params(node):
    """parameter names of a function, or of a class's __init__ without self"""
    if isinstance(node, ast.ClassDef):
        for n in node.body:
            if isinstance(n, ast.FunctionDef) and n.name == "__init__":
                p = _params(n)
                return None if p is None else p[1:]
        return None
    a = node.args
    if a.vararg or a.kwarg or a.kwonlyargs or a.posonlyargs:
        return None
    return [x.arg for x in a.args]


def _module_file(repo, dotted):
    import os
    base = os.path.join(repo, *dotted.split("."))
    for p in (base + ".py", os.path.join(base, "__init__.py")):
        if os.path.isfile(p):
            return p
    return None


def _resolve(repo, dotted, name, depth=0):
    """definition of `name` in module `dotted` of the repo, following re-exports"""
    if depth > 4:
        return None
    path = _module_file(repo, dotted)
    if path is None:
        return None
    with open(path) as f:
        mod = ast.parse(f.read())
    for n in mod.body:
        if isinstance(n, (ast.FunctionDef, ast.ClassDef)) and n.name == name:
            return n
    pkg = dotted if path.endswith("__init__.py") else dotted.rsplit(".", 1)[0]
    for n in mod.body:
        if isinstance(n, ast.ImportFrom) and any((a.asname or a.name) == name for a in n.names):
            orig = [a.name for a in n.names if (a.asname or a.name) == name][0]
            if n.level:
                parts = pkg.split(".")
                parts = parts[:len(parts) - (n.level - 1)]
                target = ".".join(parts + ([n.module] if n.module else []))
            else:
                target = n.module
            return _resolve(repo, target, orig, depth + 1)
    return None


def module_signatures(repo, mod, external=None):
    """signature(callee term) for a module: names imported from the repo are resolved to their
    definitions (function parameters / class __init__ parameters); `external` gives the parameter
    names of the few third-party callables the anchored code uses (keyed by their rendering)"""
    external = external or {}
    table = {}
    for n in mod.body:
        if isinstance(n, ast.ImportFrom) and n.level == 0 and n.module \
                and n.module.split(".")[0] == "sktime":
            for a in n.names:
                d = _resolve(repo, n.module, a.name)
                if d is not None and _params(d) is not None:
                    table[a.asname or a.name] = _params(d)
    for n in mod.body:
        if isinstance(n, (ast.FunctionDef, ast.ClassDef)) and _params(n) is not None:
            table[n.name] = _params(n)

    def signature(f):
        if f[0] == "name" and f[1] in table:
            return table[f[1]]
        return external.get(show(f))
    return signature
