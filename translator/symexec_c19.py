"""Symbolic executor shared by translator/orch_c19.py and translator/combine_c17.py.

Python functions are EXECUTED on symbolic values: expressions evaluate to terms (nested tuples),
every call that is not inlined is appended to a trace in evaluation order, an `if` forks the
execution (the statements after it are run in both branches; branches that only assign pure values
are merged into conditional values instead), loops over literal tuples are unrolled, other loops
and comprehensions become one symbolic iteration, private helpers (methods of the same class or of
the given base classes, functions of the same file, `delayed(f)(...)`) are inlined with positional /
keyword / default argument binding.  The result is an execution tree

    ("eff", effect, next) | ("if", cond, then, else) | ("ret", value) | ("cont",) | ("raise", v) | ("end",)

from which the translators read their facts.  Anything outside the supported subset raises
Unsupported (fail closed).
"""
import ast

from .pyz import Unsupported

TAG = ["symexec"]          # prefix of error messages, set by the translator using the executor


def _u(n):
    return ast.unparse(n)


def _fail(msg, node=None):
    where = ""
    if isinstance(node, ast.AST):
        where = " [line %s: %s]" % (getattr(node, "lineno", "?"), _u(node)[:120])
    elif node is not None:
        where = " [%s]" % show(node)[:200]
    raise Unsupported("%s: %s%s" % (TAG[0], msg, where))


# ------------------------------------------------------------------------------------------------
# terms

def C(v):
    return ("const", v)


SLICE_ALL = ("slice", C(None), C(None), C(None))
TRUE, FALSE, NONE = C(True), C(False), C(None)


def show(t):
    if not isinstance(t, tuple) or not t:
        return repr(t)
    k = t[0]
    if k == "const":
        return repr(t[1])
    if k in ("param", "global", "loopvar", "role", "flag"):
        return t[1]
    if k == "self":
        return "self"
    if k == "proj":
        return "%s#%d" % (show(t[1]), t[2])
    if k == "attr":
        return "%s.%s" % (show(t[1]), t[2])
    if k == "call":
        return "%s(%s)" % (show(t[1]), ", ".join([show(a) for a in t[2]] + ["%s=%s" % (n, show(v)) for n, v in t[3]]))
    if k == "sub":
        return "%s[%s]" % (show(t[1]), show(t[2]))
    if k in ("tuple", "list", "genkey"):
        return "%s(%s)" % ("" if k != "genkey" else "key", ", ".join(show(x) for x in t[1]))
    return "%s(%s)" % (k, ", ".join(show(x) if isinstance(x, tuple) else repr(x) for x in t[1:]))


def _is_str(t):
    return (t[0] == "const" and isinstance(t[1], str)) or t[0] == "fstr"


def mk_concat(parts):
    """string concatenation in one normal form, whether written with +, an f-string or both"""
    flat = []
    for p in parts:
        if p[0] == "fstr":
            flat.extend(p[1])
        elif p[0] == "fmt" and p[1][0] == "fstr":
            flat.extend(p[1][1])
        elif p[0] == "fmt" and p[1][0] == "const" and isinstance(p[1][1], str):
            flat.append(p[1])
        elif p[0] == "const" and isinstance(p[1], str):
            flat.append(p)
        else:
            flat.append(p if p[0] == "fmt" else ("fmt", p))
    out = []
    for p in flat:
        if out and out[-1][0] == "const" and p[0] == "const":
            out[-1] = C(out[-1][1] + p[1])
        elif not (p[0] == "const" and p[1] == ""):
            out.append(p)
    if len(out) == 1 and out[0][0] == "const":
        return out[0]
    return ("fstr", tuple(out))


def mk_not(x):
    if x[0] == "not":
        return x[1]
    if x[0] == "const" and isinstance(x[1], bool):
        return C(not x[1])
    if x[0] == "cmp" and x[1] in ("in", "notin"):
        return ("cmp", "notin" if x[1] == "in" else "in", x[2], x[3])
    return ("not", x)


# ------------------------------------------------------------------------------------------------
# execution trees:  ("eff", effect, next) | ("if", cond, then, else) | ("ret", value)
#                   | ("cont",) | ("raise", value) | ("end",)


class Ctx:
    """one module + one class: where helpers are looked up"""

    def __init__(self, mod, clsname=None, primitives=(), hook=None, bases=(), sig_mods=(), helper_mods=()):
        """bases: [(module ast, class name)] whose methods the class inherits (own methods win)"""
        self.mod = mod
        # helpers may live in this module or in the other given modules of the package (a private
        # function that was moved there and is imported by name); this module's definitions win
        self.functions = {}
        for m in list(helper_mods) + [mod]:
            self.functions.update({n.name: n for n in m.body if isinstance(n, ast.FunctionDef)})
        sig_mods = list(sig_mods) + list(helper_mods)
        self.methods = {}
        self.static = set()
        self.ambiguous = set()
        if clsname:
            cls = [n for n in mod.body if isinstance(n, ast.ClassDef) and n.name == clsname]
            if len(cls) != 1:
                _fail("expected exactly one class %s" % clsname)
            for n in cls[0].body:
                if isinstance(n, ast.FunctionDef):
                    if n.name in self.methods:
                        self.ambiguous.add(n.name)           # property + setter ...: never inlined
                    self.methods[n.name] = n
                    if any(_u(d) == "staticmethod" for d in n.decorator_list):
                        self.static.add(n.name)
        for bmod, bname in bases:
            bc = [n for n in bmod.body if isinstance(n, ast.ClassDef) and n.name == bname]
            if len(bc) != 1:
                _fail("expected exactly one base class %s" % bname)
            for n in bc[0].body:
                if isinstance(n, ast.FunctionDef) and n.name not in self.methods:
                    self.methods[n.name] = n
                    if any(_u(d) == "staticmethod" for d in n.decorator_list):
                        self.static.add(n.name)
        # parameter names of functions / methods whose calls stay opaque (primitives of this module,
        # functions of the modules in `sig_mods`): keyword arguments are put into positional order
        self.signatures = {}
        for m in list(sig_mods) + [mod]:
            for n in m.body:
                if isinstance(n, ast.FunctionDef):
                    self.signatures[("global", n.name)] = _sig_of(n, False)
        for name, fn in self.methods.items():
            if name not in self.ambiguous:
                self.signatures[("attr", ("self",), name)] = _sig_of(fn, name not in self.static)
        self.lazy_wrappers = {"delayed"}         # delayed(f)(args) is f(args), run later
        # idempotent set-up a value helper may do conditionally (create the directory it names)
        self.droppable = {"os.makedirs", "os.path.exists", "os.path.isdir", "os.path.join", "str"}
        self.consts = {}
        for n in mod.body:
            if isinstance(n, ast.Assign) and len(n.targets) == 1 and isinstance(n.targets[0], ast.Name):
                try:
                    v = ast.literal_eval(n.value)
                except Exception:
                    continue
                self.consts[n.targets[0].id] = _lit(v)
        self.fresh = 0
        self.primitives = set(primitives)
        self.hook = hook or (lambda t: t)
        self.depth = 0

    def method(self, name):
        if name not in self.methods or name in self.ambiguous:
            _fail("missing (or ambiguous) method %s" % name)
        return self.methods[name]


def _sig_of(fn, drop_self):
    a = fn.args
    if a.vararg or a.kwarg or a.kwonlyargs or a.posonlyargs:
        return None
    names = [x.arg for x in a.args]
    return names[1:] if drop_self else names


def positional(fv, args, kws, signatures):
    """keyword arguments of a call to a function with a known signature, moved into positional
    order as far as the positions are contiguous"""
    sig = signatures.get(fv)
    if not sig or not kws:
        return args, kws
    args, rest = list(args), dict(kws)
    if any(k not in sig for k in rest) or len(args) > len(sig):
        return args, kws
    while len(args) < len(sig) and sig[len(args)] in rest:
        args.append(rest.pop(sig[len(args)]))
    return args, sorted(rest.items())


def format_term(fmt, args, kws):
    """'..{}..{name}..{0!s}'.format(...) as the concatenation an f-string would be, or None"""
    import string
    parts, auto = [], 0
    try:
        fields = list(string.Formatter().parse(fmt))
    except ValueError:
        return None
    kw = dict(kws)
    for literal, name, spec, conv in fields:
        if literal:
            parts.append(C(literal))
        if name is None:
            continue
        if spec or conv not in (None, "s"):
            return None
        if name == "":
            if auto is None or auto >= len(args):
                return None
            v, auto = args[auto], auto + 1
        elif name.isdigit():
            if int(name) >= len(args):
                return None
            v, auto = args[int(name)], None
        elif name in kw:
            v = kw[name]
        else:
            return None
        parts.append(("fmt", v))
    return mk_concat(parts)


def percent_term(fmt, arg):
    """'%s_%s' % (a, b) as a concatenation, or None"""
    import re
    args = list(arg[1]) if arg[0] == "tuple" else [arg]
    pieces = re.split(r"(%[sd%])", fmt)
    parts = []
    for p in pieces:
        if p == "%%":
            parts.append(C("%"))
        elif p in ("%s", "%d"):
            if not args:
                return None
            parts.append(("fmt", args.pop(0)))
        elif "%" in p:
            return None
        elif p:
            parts.append(C(p))
    return mk_concat(parts) if not args else None


def literal_call(fv, args, kws):
    """calls whose value is determined by literal arguments: string formatting, empty containers,
    enumerate / zip / reversed / range / tuple / list over literal sequences"""
    if fv[0] == "attr" and fv[2] == "format" and fv[1][0] == "const" and isinstance(fv[1][1], str):
        return format_term(fv[1][1], args, kws)
    if fv == ("global", "dict") and not args:
        return ("dict", tuple((C(k), v) for k, v in kws))          # dict(a=x, b=y) is {"a": x, "b": y}
    if fv[0] != "global" or kws and fv[1] != "enumerate":
        return None
    n = fv[1]
    seqs = [a for a in args if a[0] in ("tuple", "list")]
    if n in ("list", "tuple", "dict", "set") and not args:
        return ("dict", ()) if n == "dict" else ("list" if n == "list" else "tuple", ()) if n != "set" else None
    if n in ("list", "tuple") and len(args) == 1 and len(seqs) == 1:
        return (n, args[0][1])
    if n == "enumerate" and len(args) in (1, 2) and args[0][0] in ("tuple", "list"):
        start = dict(kws).get("start", args[1] if len(args) == 2 else C(0))
        if start[0] == "const" and isinstance(start[1], int) and set(dict(kws)) <= {"start"}:
            return ("tuple", tuple(("tuple", (C(start[1] + i), x)) for i, x in enumerate(args[0][1])))
    if n == "zip" and args and len(seqs) == len(args) and len({len(a[1]) for a in args}) == 1:
        return ("tuple", tuple(("tuple", tuple(a[1][i] for a in args)) for i in range(len(args[0][1]))))
    if n == "reversed" and len(args) == 1 and seqs:
        return ("tuple", tuple(reversed(args[0][1])))
    if n == "range" and 1 <= len(args) <= 2 and all(a[0] == "const" and isinstance(a[1], int) and not isinstance(a[1], bool) for a in args):
        r = range(*[a[1] for a in args])
        if len(r) <= 8:
            return ("tuple", tuple(C(i) for i in r))
    return None


def _lit(v):
    if isinstance(v, (tuple, list)):
        return ("tuple" if isinstance(v, tuple) else "list", tuple(_lit(x) for x in v))
    return C(v)


def _params(fn, drop_self):
    a = fn.args
    if a.vararg or a.kwarg or a.kwonlyargs or a.posonlyargs:
        _fail("unsupported parameter list of %s" % fn.name, fn)
    names = [x.arg for x in a.args]
    defaults = dict(zip(names[len(names) - len(a.defaults):], a.defaults))
    if drop_self:
        names = names[1:]
    return names, defaults


class Exec:
    def __init__(self, ctx, loop_binder=None):
        self.ctx = ctx
        self.loop_binder = loop_binder       # (for statement, iterable term) -> {name: term} or None
        self.yield_stack = []                # consumers of the generators being inlined

    # ---------------------------------------------------------------- expressions
    def ev(self, e, env, eff):
        """-> term; calls that are not inlined are appended to `eff` in evaluation order"""
        h = self.ctx.hook
        if isinstance(e, ast.Constant):
            return C(e.value)
        if isinstance(e, ast.Name):
            if e.id in env:
                return env[e.id]
            if e.id in self.ctx.consts:
                return self.ctx.consts[e.id]
            return ("global", e.id)
        if isinstance(e, ast.Attribute):
            return h(("attr", self.ev(e.value, env, eff), e.attr))
        if isinstance(e, (ast.Tuple, ast.List)):
            items = []
            for x in e.elts:
                if isinstance(x, ast.Starred):
                    v = self.ev(x.value, env, eff)
                    if v[0] not in ("tuple", "list"):
                        _fail("cannot spread a value of unknown length", x)
                    items.extend(v[1])
                else:
                    items.append(self.ev(x, env, eff))
            return ("tuple" if isinstance(e, ast.Tuple) else "list", tuple(items))
        if isinstance(e, ast.Dict):
            if any(k is None for k in e.keys):
                _fail("dict unpacking", e)
            return ("dict", tuple((self.ev(k, env, eff), self.ev(v, env, eff)) for k, v in zip(e.keys, e.values)))
        if isinstance(e, ast.JoinedStr):
            parts = []
            for p in e.values:
                if isinstance(p, ast.FormattedValue):
                    v = self.ev(p.value, env, eff)
                    if v[0] == "call" and v[1] == ("global", "str") and len(v[2]) == 1 and not v[3]:
                        v = v[2][0]                      # f"{str(x)}" == f"{x}"
                    parts.append(("fmt", v))
                else:
                    parts.append(self.ev(p, env, eff))
            return mk_concat(parts)
        if isinstance(e, ast.BinOp):
            a, b = self.ev(e.left, env, eff), self.ev(e.right, env, eff)
            if isinstance(e.op, ast.Add) and (_is_str(a) or _is_str(b)):
                return h(mk_concat([a, b]))
            if isinstance(e.op, ast.Mod) and a[0] == "const" and isinstance(a[1], str):
                pt = percent_term(a[1], b)
                if pt is not None:
                    return h(pt)
            return h(("add", a, b) if isinstance(e.op, ast.Add) else ("binop", type(e.op).__name__, a, b))
        if isinstance(e, ast.UnaryOp) and isinstance(e.op, ast.Not):
            return mk_not(self.ev(e.operand, env, eff))
        if isinstance(e, ast.UnaryOp) and isinstance(e.op, (ast.USub, ast.UAdd)):
            v = self.ev(e.operand, env, eff)
            if isinstance(e.op, ast.UAdd):
                return v
            if v[0] == "const" and isinstance(v[1], (int, float)) and not isinstance(v[1], bool):
                return C(-v[1])
            return ("neg", v)
        if isinstance(e, ast.BoolOp):
            # (short circuit: operands of the modelled conditions are pure reads)
            k = "and" if isinstance(e.op, ast.And) else "or"
            vals = []
            for x in e.values:
                v = self.ev(x, env, eff)
                vals.extend(v[1] if v[0] == k else [v])
            return (k, tuple(vals))
        if isinstance(e, ast.Compare) and len(e.ops) == 1:
            op = {ast.In: "in", ast.NotIn: "notin", ast.Eq: "eq", ast.NotEq: "ne", ast.Is: "is",
                  ast.IsNot: "isnot", ast.Lt: "lt", ast.LtE: "le", ast.Gt: "gt", ast.GtE: "ge"}.get(type(e.ops[0]))
            if op is None:
                _fail("comparison", e)
            return ("cmp", op, self.ev(e.left, env, eff), self.ev(e.comparators[0], env, eff))
        if isinstance(e, ast.IfExp):
            return ("ite", self.ev(e.test, env, eff), self.ev(e.body, env, eff), self.ev(e.orelse, env, eff))
        if isinstance(e, ast.Slice):
            f = lambda x: NONE if x is None else self.ev(x, env, eff)
            return ("slice", f(e.lower), f(e.upper), f(e.step))
        if isinstance(e, ast.Subscript):
            base, idx = self.ev(e.value, env, eff), self.ev(e.slice, env, eff)
            if base[0] == "dict" and idx[0] == "const":
                hits = [v for k, v in base[1] if k == idx]
                if len(hits) == 1:
                    return hits[0]                       # lookup in a literal table
            if base[0] in ("tuple", "list") and idx[0] == "const" and isinstance(idx[1], int) \
                    and not isinstance(idx[1], bool) and -len(base[1]) <= idx[1] < len(base[1]):
                return base[1][idx[1]]
            return h(("sub", base, idx))
        if isinstance(e, (ast.ListComp, ast.GeneratorExp)):
            return self._comp(e, env, eff)
        if isinstance(e, ast.DictComp):
            if len(e.generators) != 1 or e.generators[0].ifs:
                _fail("dict comprehension form", e)
            g = e.generators[0]
            it = self.ev(g.iter, env, eff)
            if it[0] not in ("tuple", "list"):
                _fail("dict comprehension over something else than a literal tuple", e)
            items = []
            for item in it[1]:
                e2 = dict(env)
                self._bind_target(g.target, item, e2)
                items.append((self.ev(e.key, e2, eff), self.ev(e.value, e2, eff)))
            return ("dict", tuple(items))
        if isinstance(e, ast.Call):
            return self._call(e, env, eff)
        if isinstance(e, ast.Starred):
            _fail("starred expression", e)
        _fail("unsupported expression", e)

    def _comp(self, e, env, eff):
        if len(e.generators) != 1 or e.generators[0].ifs or e.generators[0].is_async:
            return ("opaque", ast.dump(e))
        g = e.generators[0]
        it = self.ev(g.iter, env, eff)
        if it[0] not in ("tuple", "list"):
            # one symbolic element: ("comp", element term, the variable it is a function of, iterable)
            self.ctx.fresh += 1
            var = ("compvar", self.ctx.fresh)
            e2 = dict(env)
            self._bind_target(g.target, var, e2)
            return ("comp", self.ev(e.elt, e2, eff), var, it)
        out = []
        for item in it[1]:
            e2 = dict(env)
            self._bind_target(g.target, item, e2)
            out.append(self.ev(e.elt, e2, eff))
        return ("list", tuple(out))

    def _bind_target(self, tgt, val, env):
        if isinstance(tgt, ast.Name):
            env[tgt.id] = val
        elif isinstance(tgt, (ast.Tuple, ast.List)):
            if val[0] in ("tuple", "list") and len(val[1]) == len(tgt.elts):
                for t, v in zip(tgt.elts, val[1]):
                    self._bind_target(t, v, env)
            else:
                for i, t in enumerate(tgt.elts):
                    self._bind_target(t, ("proj", val, i, len(tgt.elts)), env)
        else:
            _fail("assignment target", tgt)

    def _args(self, e, env, eff):
        args = []
        for a in e.args:
            if isinstance(a, ast.Starred):
                v = self.ev(a.value, env, eff)
                if v[0] not in ("tuple", "list"):
                    _fail("cannot spread an argument list of unknown length", e)
                args.extend(v[1])
            else:
                args.append(self.ev(a, env, eff))
        kws = []
        for kw in e.keywords:
            if kw.arg is None:
                _fail("**kwargs in a call", e)
            kws.append((kw.arg, self.ev(kw.value, env, eff)))
        return args, kws

    def _helper_of(self, e):
        """the FunctionDef to inline for this call, or None"""
        f = e.func
        c = self.ctx
        if isinstance(f, ast.Attribute) and isinstance(f.value, ast.Name) and f.value.id == "self" \
                and f.attr in c.methods and f.attr not in c.primitives and f.attr not in c.ambiguous:
            return c.methods[f.attr], f.attr not in c.static
        if isinstance(f, ast.Name) and f.id in c.functions and f.id not in c.primitives:
            return c.functions[f.id], False
        return None

    def bind_call(self, fn, drop_self, args, kws, env, eff, what):
        names, defaults = _params(fn, drop_self)
        out = {}
        if len(args) > len(names):
            _fail("%s: too many positional arguments" % what, fn)
        for n, a in zip(names, args):
            out[n] = a
        for n, v in kws:
            if n not in names or n in out:
                _fail("%s: keyword %s" % (what, n), fn)
            out[n] = v
        for n in names:
            if n not in out:
                if n not in defaults:
                    _fail("%s: missing argument %s" % (what, n), fn)
                out[n] = self.ev(defaults[n], {}, eff)
        return out

    def _call(self, e, env, eff):
        f = e.func
        if isinstance(f, ast.Call) and isinstance(f.func, ast.Name) and f.func.id in self.ctx.lazy_wrappers \
                and len(f.args) == 1 and not f.keywords:
            inner = ast.Call(func=f.args[0], args=e.args, keywords=e.keywords)
            ast.copy_location(inner, e)
            if self._helper_of(inner):
                if self._is_value_helper(inner, env):
                    e = inner
                else:
                    # a helper with conditional effects cannot be a value here: keep the call opaque
                    # (the caller finds the helper through the call term and examines it separately)
                    fv = self.ev(inner.func, env, eff)
                    args, kws = self._args(inner, env, eff)
                    args, kws = positional(fv, args, kws, self.ctx.signatures)
                    t = self.ctx.hook(("call", fv, tuple(args), tuple(sorted(kws))))
                    if t[0] == "call":
                        eff.append(t)
                    return t
        hp = self._helper_of(e)
        if hp is not None:
            node = self.call_helper(hp, e, env, eff, lambda v: ("ret", v))
            return self._flatten(node, eff, e)
        fv = self.ev(e.func, env, eff)
        args, kws = self._args(e, env, eff)
        lit = literal_call(fv, args, kws)
        if lit is not None:
            return lit
        args, kws = positional(fv, args, kws, self.ctx.signatures)
        t = self.ctx.hook(("call", fv, tuple(args), tuple(sorted(kws))))
        if t[0] == "call":
            eff.append(t)
        elif t[0] == "traced":           # hook: a modelled read/operation with a value of its own
            eff.append(t[1])
            t = t[2]
        return t

    def _is_value_helper(self, e, env):
        """can this helper call be evaluated to ONE value (straight-line effects, or a conditional
        without effects that matter)?  Otherwise its execution tree is grafted into the caller's."""
        saved = (self.ctx.fresh, list(self.yield_stack))
        try:
            self._call(e, env, [])
            return True
        except Unsupported:
            return False
        finally:
            self.ctx.fresh, self.yield_stack = saved[0], saved[1]

    def call_helper(self, hp, e, env, eff, kr):
        fn, drop_self = hp
        if self.ctx.depth > 6:
            _fail("helper nesting too deep (recursion?)", e)
        args, kws = self._args(e, env, eff)
        env2 = self.bind_call(fn, drop_self, args, kws, env, eff, fn.name)
        if drop_self:
            env2["self"] = env.get("self", ("self",))
        self.ctx.depth += 1
        try:
            return self.run(_body(fn), env2, lambda _e: kr(NONE), kr)
        finally:
            self.ctx.depth -= 1

    def _flatten(self, node, eff, where):
        """helper used as a value: straight-line effects then a value, or a pure conditional"""
        while node[0] == "eff":
            eff.append(node[1])
            node = node[2]
        if node[0] == "ret":
            return node[1]
        if node[0] == "if":
            a, b = self._pure(node[2], where), self._pure(node[3], where)
            return simplify_ite(node[1], a, b)
        _fail("helper does not return a value here", where)

    def _pure(self, node, where):
        pend = []
        while node[0] == "eff" and node[1][0] == "call":
            if show(node[1][1]) not in self.ctx.droppable:
                pend.append(node[1])
            node = node[2]
        if node[0] == "ret":
            for e in pend:        # calls whose results only make up the returned value (and cannot touch files)
                r = _call_root(e)
                if not _contains(node[1], e) or (r[0] == "global" and r[1] in UNSAFE_ROOTS) or \
                        (r == ("global", "os") and not show(e[1]).startswith("os.path.")):
                    _fail("a helper with conditional effects is used inside an expression", where)
            return node[1]
        if pend:
            _fail("a helper with conditional effects is used inside an expression", where)
        if node[0] == "if":
            return simplify_ite(node[1], self._pure(node[2], where), self._pure(node[3], where))
        _fail("a helper with conditional effects is used inside an expression", where)

    # ---------------------------------------------------------------- statements
    def run(self, stmts, env, kf, kr, kc=None):
        """execute `stmts`; kf(env) continues after falling off the end, kr(value) after `return`,
        kc(env) after `continue` (None: the symbolic loop's next iteration, terminal ("cont",))"""
        if not stmts:
            return kf(env)
        s, rest = stmts[0], stmts[1:]
        nxt = lambda e2: self.run(rest, e2, kf, kr, kc)
        if isinstance(s, ast.Expr) and isinstance(s.value, ast.Constant):
            return nxt(env)
        if isinstance(s, ast.Pass):
            return nxt(env)
        if isinstance(s, (ast.Import, ast.ImportFrom)):
            return nxt(env)
        if isinstance(s, ast.Expr) and isinstance(s.value, ast.Call) and self._helper_of(s.value):
            eff = []
            node = self.call_helper(self._helper_of(s.value), s.value, env, eff, lambda v: nxt(env))
            return _chain(eff, node)
        if isinstance(s, ast.Expr) and isinstance(s.value, ast.YieldFrom):
            # yield from X  ==  for v in X: yield v
            v = ast.Name(id="_yield_from_item", ctx=ast.Store())
            loop = ast.For(target=v, iter=s.value.value,
                           body=[ast.Expr(value=ast.Yield(value=ast.Name(id="_yield_from_item", ctx=ast.Load())))], orelse=[])
            for n in ast.walk(loop):
                ast.copy_location(n, s)
            return self.run([loop] + rest, env, kf, kr, kc)
        if isinstance(s, ast.Expr) and isinstance(s.value, (ast.Yield, ast.YieldFrom)):
            if isinstance(s.value, ast.YieldFrom) or s.value.value is None:
                _fail("yield form", s)
            eff = []
            v = self.ev(s.value.value, env, eff)
            if self.yield_stack:
                return _chain(eff, self.yield_stack[-1](v, lambda: nxt(env)))
            return _chain(eff + [("yield", v)], nxt(env))
        if isinstance(s, ast.Expr):
            eff = []
            self.ev(s.value, env, eff)
            return _chain(eff, nxt(env))
        if isinstance(s, ast.Assign):
            if len(s.targets) != 1:
                _fail("chained assignment", s)
            tgt = s.targets[0]
            if isinstance(s.value, ast.Call) and self._helper_of(s.value) and isinstance(tgt, (ast.Name, ast.Tuple)) \
                    and not self._is_value_helper(s.value, env):
                eff = []

                def k(v, tgt=tgt):
                    e2 = dict(env)
                    self._bind_target(tgt, v, e2)
                    return nxt(e2)
                node = self.call_helper(self._helper_of(s.value), s.value, env, eff, k)
                return _chain(eff, node)
            eff = []
            v = self.ev(s.value, env, eff)
            if isinstance(tgt, (ast.Name, ast.Tuple, ast.List)):
                e2 = dict(env)
                self._bind_target(tgt, v, e2)
                return _chain(eff, nxt(e2))
            if isinstance(tgt, ast.Attribute):
                eff.append(("setattr", self.ev(tgt.value, env, eff), tgt.attr, v))
                return _chain(eff, nxt(env))
            if isinstance(tgt, ast.Subscript):
                eff.append(("setitem", self.ev(tgt.value, env, eff), self.ev(tgt.slice, env, eff), v))
                return _chain(eff, nxt(env))
            _fail("assignment target", s)
        if isinstance(s, ast.AugAssign):
            eff = []
            v = self.ev(s.value, env, eff)
            if isinstance(s.target, ast.Attribute):
                eff.append(("augattr", self.ev(s.target.value, env, eff), s.target.attr, type(s.op).__name__, v))
                return _chain(eff, nxt(env))
            if isinstance(s.target, ast.Name):
                e2 = dict(env)
                old = env.get(s.target.id, ("global", s.target.id))
                e2[s.target.id] = ("add", old, v) if isinstance(s.op, ast.Add) else ("binop", type(s.op).__name__, old, v)
                return _chain(eff, nxt(e2))
            if isinstance(s.target, ast.Subscript):
                eff.append(("augitem", self.ev(s.target.value, env, eff), self.ev(s.target.slice, env, eff),
                            type(s.op).__name__, v))
                return _chain(eff, nxt(env))
            _fail("augmented assignment target", s)
        if isinstance(s, ast.Return):
            if s.value is not None and isinstance(s.value, ast.Call) and self._helper_of(s.value) \
                    and not self._is_value_helper(s.value, env):
                eff = []
                node = self.call_helper(self._helper_of(s.value), s.value, env, eff, kr)
                return _chain(eff, node)
            eff = []
            v = NONE if s.value is None else self.ev(s.value, env, eff)
            return _chain(eff, kr(v))
        if isinstance(s, ast.Raise):
            eff = []
            v = NONE if s.exc is None else self.ev_quiet(s.exc, env)
            return _chain(eff, ("raise", v))
        if isinstance(s, ast.Continue):
            return kc(env) if kc else ("cont",)
        if isinstance(s, ast.Break):
            _fail("break", s)
        if isinstance(s, ast.If):
            eff = []
            c = self.ev(s.test, env, eff)
            if c == TRUE:
                return _chain(eff, self.run(list(s.body) + rest, env, kf, kr, kc))
            if c == FALSE:
                return _chain(eff, self.run(list(s.orelse) + rest, env, kf, kr, kc))
            merged = self._phi(s, c, env)
            if merged is not None:
                return _chain(eff, nxt(merged))
            a = self.run(list(s.body), env, nxt, kr, kc)
            b = self.run(list(s.orelse), env, nxt, kr, kc)
            return _chain(eff, ("if", c, a, b))
        if isinstance(s, ast.For):
            if s.orelse:
                _fail("for/else", s)
            if isinstance(s.iter, ast.Call) and _u(s.iter.func) in ("product", "itertools.product") \
                    and len(s.iter.args) == 2 and not s.iter.keywords:
                # for t in product(A, B)  ==  for a in A: for b in B: t = (a, b)
                a, b = "_product_item0", "_product_item1"
                bind = ast.Assign(targets=[s.target], value=ast.Tuple(
                    elts=[ast.Name(id=a, ctx=ast.Load()), ast.Name(id=b, ctx=ast.Load())], ctx=ast.Load()))
                inner = ast.For(target=ast.Name(id=b, ctx=ast.Store()), iter=s.iter.args[1], body=[bind] + list(s.body), orelse=[])
                outer = ast.For(target=ast.Name(id=a, ctx=ast.Store()), iter=s.iter.args[0], body=[inner], orelse=[])
                for top in (bind, inner, outer):
                    for n in ast.walk(top):
                        if not hasattr(n, "lineno"):
                            ast.copy_location(n, s)
                return self.run([outer] + rest, env, kf, kr, kc)
            if isinstance(s.iter, ast.Call) and self._helper_of(s.iter) and _is_generator(self._helper_of(s.iter)[0]):
                return self._for_generator(s, rest, env, kf, kr, kc)
            eff = []
            it = self.ev(s.iter, env, eff)
            if it[0] in ("tuple", "list") and len(it[1]) <= 8:
                # a loop over a literal tuple / list (its items may be any values): unroll
                unrolled = [(s.target, item) for item in it[1]]
                return _chain(eff, self._unroll(unrolled, list(s.body), rest, env, kf, kr, kc))
            e2 = dict(env)
            lv = ("loopvar", _u(s.target), id(s))
            bound = self.loop_binder(s, it) if self.loop_binder else None
            if bound is not None:
                e2.update(bound)
            else:
                self._bind_target(s.target, lv, e2)
            # accumulators: local lists that are empty before the loop and only appended to,
            # unconditionally, once per iteration: `acc = []; for x in it: acc.append(f(x))` is the
            # comprehension [f(x) for x in it]
            accs = {}
            for st in s.body:
                if isinstance(st, ast.Expr) and isinstance(st.value, ast.Call) and isinstance(st.value.func, ast.Attribute) \
                        and st.value.func.attr == "append" and isinstance(st.value.func.value, ast.Name) \
                        and env.get(st.value.func.value.id) == ("list", ()) and len(st.value.args) == 1 \
                        and not st.value.keywords:
                    nm = st.value.func.value.id
                    accs[nm] = accs.get(nm, 0) + 1
            uses = {}
            for n in ast.walk(s):
                if isinstance(n, ast.Name) and n.id in accs:
                    uses[n.id] = uses.get(n.id, 0) + 1
            accs = {nm for nm, k in accs.items() if k == 1 and uses.get(nm) == 1}
            for nm in accs:
                e2[nm] = ("acc", nm, id(s))
            body = self.run(list(s.body), e2, lambda _e: ("end",), kr)
            # names assigned in the body are unknown afterwards
            e3 = dict(env)
            for n in ast.walk(s):
                if isinstance(n, ast.Name) and isinstance(n.ctx, ast.Store):
                    e3[n.id] = ("afterloop", n.id, id(s))
            if accs:
                body, elts = _take_appends(body, {("acc", nm, id(s)): nm for nm in accs})
                for nm, elt in elts.items():
                    e3[nm] = ("comp", elt, lv, it)
            eff.append(("for", it, _target_names(s.target), body, lv))
            return _chain(eff, nxt(e3))
        _fail("unsupported statement", s)

    def _for_generator(self, s, rest, env, kf, kr, kc):
        """`for x in self._gen(...): body` with _gen a generator helper: the generator is inlined and
        the loop body runs at each of its yields (so a private generator and the same loops written
        out in the caller give the same tree)"""
        hp = self._helper_of(s.iter)
        fn, drop_self = hp
        eff = []
        args, kws = self._args(s.iter, env, eff)
        env2 = self.bind_call(fn, drop_self, args, kws, env, eff, fn.name)
        if drop_self:
            env2["self"] = env.get("self", ("self",))
        outer = self.yield_stack

        def on_yield(v, resume):
            e2 = dict(env)
            self._bind_target(s.target, v, e2)
            saved, self.yield_stack = self.yield_stack, list(outer)
            try:
                # `continue` and falling off the end of the body resume the generator
                return self.run(list(s.body), e2, lambda _e: resume(), kr, lambda _e: resume())
            finally:
                self.yield_stack = saved

        def done(_v=None):
            e3 = dict(env)
            for n in ast.walk(s):
                if isinstance(n, ast.Name) and isinstance(n.ctx, ast.Store):
                    e3[n.id] = ("afterloop", n.id, id(s))
            saved, self.yield_stack = self.yield_stack, list(outer)
            try:
                return self.run(rest, e3, kf, kr, kc)
            finally:
                self.yield_stack = saved

        self.ctx.depth += 1
        self.yield_stack = list(outer) + [on_yield]
        try:
            node = self.run(_body(fn), env2, lambda _e: done(), done)
        finally:
            self.yield_stack = outer
            self.ctx.depth -= 1
        return _chain(eff, node)

    def _phi(self, s, c, env):
        """`if c: x = a [else: x = b]` with effect-free values: the same as x = a if c else b"""
        def pure_assigns(stmts, e0):
            e1 = dict(e0)
            for st in stmts:
                if isinstance(st, ast.Pass):
                    continue
                if not (isinstance(st, ast.Assign) and len(st.targets) == 1
                        and isinstance(st.targets[0], (ast.Name, ast.Tuple))):
                    return None
                eff = []                             # (a traced call keeps the fork)
                try:
                    v = self.ev(st.value, e1, eff)
                except Unsupported:
                    return None                      # e.g. a helper with conditional effects: fork
                if eff:
                    return None
                self._bind_target(st.targets[0], v, e1)
            return e1
        if not s.body:
            return None
        ea, eb = pure_assigns(s.body, env), pure_assigns(s.orelse, env)
        if ea is None or eb is None:
            return None
        out = dict(env)
        for k in set(ea) | set(eb):
            va, vb = ea.get(k), eb.get(k)
            if va is None or vb is None:
                va = va if va is not None else ("unbound", k)
                vb = vb if vb is not None else ("unbound", k)
            out[k] = va if va == vb else ("ite", c, va, vb)
        return out

    def _unroll(self, items, body, rest, env, kf, kr, kc):
        if not items:
            return self.run(rest, env, kf, kr, kc)
        (tgt, item), more = items[0], items[1:]
        e2 = dict(env)
        self._bind_target(tgt, item, e2)
        again = lambda e3: self._unroll(more, body, rest, e3, kf, kr, kc)
        return self.run(body, e2, again, kr, again)

    def ev_quiet(self, e, env):
        """value of an expression whose calls are not traced (exception constructors, messages)"""
        try:
            return self.ev(e, env, [])
        except Unsupported:
            return ("opaque", _u(e))

    def run_function(self, fn, env):
        return self.run(_body(fn), env, lambda _e: ("ret", NONE), lambda v: ("ret", v))


def _take_appends(node, accs):
    """remove the `acc.append(elt)` operations of the accumulators from a straight-line loop body
    -> (body without them, {name: elt})"""
    effs = []
    n = node
    while n[0] == "eff":
        effs.append(n[1])
        n = n[2]
    if n[0] == "if":
        _fail("a loop that fills a list branches: not a comprehension")
    elts, keep = {}, []
    for e in effs:
        if e[0] == "call" and e[1][0] == "attr" and e[1][2] == "append" and e[1][1] in accs and len(e[2]) == 1 and not e[3]:
            elts[accs[e[1][1]]] = e[2][0]
        else:
            keep.append(e)
    if len(elts) != len(accs):
        _fail("a list filled in a loop is not appended to exactly once per iteration")
    return _chain(keep, n), elts


def _is_generator(fn):
    for n in ast.walk(fn):
        if isinstance(n, (ast.Yield, ast.YieldFrom)):
            return True
    return False


def _target_names(t):
    if isinstance(t, ast.Name):
        return t.id
    if isinstance(t, (ast.Tuple, ast.List)):
        return tuple(_target_names(x) for x in t.elts)
    _fail("loop target", t)


def _chain(eff, node):
    for e in reversed(eff):
        node = ("eff", e, node)
    return node


def _body(fn):
    return list(fn.body)


def is_boolish(c):
    return c[0] in ("cmp", "not", "and", "or") or c in (TRUE, FALSE) or \
        (c[0] == "call" and show(c[1]) in ("os.path.isfile", "os.path.exists", "os.path.isdir", "isinstance", "hasattr")) \
        or c[0] in ("flag", "check")


def simplify_ite(c, a, b):
    if a == b:
        return a
    if a == TRUE and b == FALSE and is_boolish(c):
        return c
    if a == FALSE and b == TRUE and is_boolish(c):
        return mk_not(c)
    return ("ite", c, a, b)


# ------------------------------------------------------------------------------------------------
# walking execution trees

NEUTRAL_CALLS = {"pd.Timestamp.now", "log.warn", "log.warning", "log.info", "log.debug", "os.path.join",
                 "os.path.exists", "os.makedirs", "str", "np.asarray", "list", "set", "len", "warn", "warnings.warn"}


def is_neutral(eff, extra=()):
    if eff[0] == "call":
        n = show(eff[1])
        return n in NEUTRAL_CALLS or n in extra
    return False


def collapse(node):
    """merge branches that only differ in the value they return into one conditional value"""
    if node[0] == "eff":
        return ("eff", node[1], collapse(node[2]))
    if node[0] == "if":
        a, b = collapse(node[2]), collapse(node[3])
        if a[0] == "ret" and b[0] == "ret":
            return ("ret", simplify_ite(node[1], a[1], b[1]))
        return ("if", node[1], a, b)
    return node


def leaves(node, path=()):
    """all (effects, conditions, terminal) paths of a tree"""
    if node[0] == "eff":
        for e, c, t in leaves(node[2], path):
            yield [node[1]] + e, c, t
    elif node[0] == "if":
        for e, c, t in leaves(node[2], path):
            yield e, [(node[1], True)] + c, t
        for e, c, t in leaves(node[3], path):
            yield e, [(node[1], False)] + c, t
    else:
        yield [], [], node


UNSAFE_ROOTS = {"shutil", "open", "dump", "load", "joblib", "pickle", "subprocess", "sys", "exec", "eval"}


def _contains(t, x):
    if t == x:
        return True
    return isinstance(t, tuple) and any(_contains(y, x) for y in t)


def _call_root(t):
    while t[0] in ("attr", "sub", "call"):
        t = t[1]
    return t


def straight(node, what, neutral=()):
    """a tree without branching -> (effects without the neutral ones, terminal).  A call whose result
    only feeds a later operation or the returned value (a file name being put together, ...) is
    part of that operation's term and is not listed on its own - unless it could touch files."""
    effs = []
    while node[0] == "eff":
        if not is_neutral(node[1], neutral):
            effs.append(node[1])
        node = node[2]
    if node[0] == "if":
        _fail("%s: unexpected branching on %s" % (what, show(node[1])))
    out = []
    for i, e in enumerate(effs):
        used = any(_contains(o, e) for o in effs[i + 1:]) or (len(node) > 1 and _contains(node[1], e))
        r = _call_root(e) if e[0] == "call" else None
        safe = e[0] == "call" and not (r[0] == "global" and r[1] in UNSAFE_ROOTS) and \
            not (r == ("global", "os") and not show(e[1]).startswith("os.path."))
        if not (used and safe and e[0] == "call"):
            out.append(e)
    return out, node


def fn_of(term):
    return show(term[1]) if term[0] == "call" else None


def kwget(term, sig, what):
    """arguments of a call term bound against parameter names"""
    out = {}
    if len(term[2]) > len(sig):
        _fail("%s: too many positional arguments" % what, term)
    for n, a in zip(sig, term[2]):
        out[n] = a
    for n, v in term[3]:
        if n not in sig or n in out:
            _fail("%s: keyword %s" % (what, n), term)
        out[n] = v
    return out


