"""C18: site facts of the .ts writer / the three loaders / _load_dataset, regenerated on every run.

Emits build/coq/C18/Gen.v with
  * the header `file.write` items of write_dataframe_to_tsfile (guard + f-string parts, in order),
  * the tag literals of the parser's `line.startswith(...)` chain (in order),
  * the separator / Boolean / missing-value literals both sides use,
  * the literals of the .arff / .tsv loaders and the split order of _load_dataset.
Committed Bridge.v proves these equal to the constants of the hand model and proves the tag
inclusions on the generated lists.

Fail-closed: every statement of the modelled functions is either translated into a fact or is
covered by a PIN of what the hand model was written against.  Two kinds of pins:
  * `nf.<function>`: the sha256 of the PATH NORMAL FORM (translator/pathnorm_c18.py) of the whole
    function: every path with its atomic conditions, effects in order, exit and loop-carried state,
    expressions as values.  Invariant under extracted helpers, guard clauses vs nesting,
    temporaries, renamed locals, enumerate vs range(len()), equivalent slices, ...; any change of
    what a path tests, does or returns changes it.  Used for the .arff / .tsv loaders,
    _load_dataset and the writer.
  * `parser.*`: normalised source text (ast.unparse) of the branches of the big .ts parser loop.
Anything else raises Unsupported -> the harness reports a broken tie.
`python -m translator.tsformat <repo> --nf <function>` prints a normal form.
"""
import ast
import hashlib
import os

from . import pathnorm_c18

SRC_IO = "sktime/utils/data_io.py"
SRC_BASE = "sktime/datasets/base.py"


class Unsupported(Exception):
    pass


def _need(cond, what):
    if not cond:
        raise Unsupported(what)


def _func(mod, name):
    for n in mod.body:
        if isinstance(n, ast.FunctionDef) and n.name == name:
            return n
    raise Unsupported("missing function " + name)


def _nf(mod, fn):
    """pin of the path normal form of a whole function"""
    try:
        text = pathnorm_c18.normal_form_text(mod, fn)
    except pathnorm_c18.Unsupported as e:
        raise Unsupported("normal form of %s: %s" % (fn.name, e))
    return "sha256:" + hashlib.sha256(text.encode()).hexdigest()


def _body(fn):
    b = fn.body
    if b and isinstance(b[0], ast.Expr) and isinstance(b[0].value, ast.Constant) \
            and isinstance(b[0].value.value, str):
        b = b[1:]
    return b


def _is_write(node):
    return (isinstance(node, ast.Call) and isinstance(node.func, ast.Attribute)
            and node.func.attr == "write" and isinstance(node.func.value, ast.Name)
            and node.func.value.id == "file" and len(node.args) == 1 and not node.keywords)


def _write_of(st):
    if isinstance(st, ast.Expr) and _is_write(st.value):
        return st.value.args[0]
    return None


def _has_write(st):
    return any(_is_write(n) for n in ast.walk(st))


HOLES = {
    "problem_name": "HName",
    "str(timestamp).lower()": "HTimestamp",
    "str(univariate).lower()": "HUnivariate",
    "str(equal_length).lower()": "HEqualLength",
    "series_length": "HSeriesLength",
    "space_separated_class_label": "HLabels",
}


def _parts(arg, what):
    """f-string / constant of a header write -> list of ('Lit', s) / ('Hole', name); the trailing
    newline (required) is dropped."""
    parts = []
    if isinstance(arg, ast.Constant) and isinstance(arg.value, str):
        parts.append(("Lit", arg.value))
    elif isinstance(arg, ast.JoinedStr):
        for v in arg.values:
            if isinstance(v, ast.Constant) and isinstance(v.value, str):
                parts.append(("Lit", v.value))
            elif isinstance(v, ast.FormattedValue):
                _need(v.conversion == -1 and v.format_spec is None, what + ": formatted value spec")
                src = ast.unparse(v.value)
                _need(src in HOLES, what + ": unknown expression {%s}" % src)
                parts.append(("Hole", HOLES[src]))
            else:
                raise Unsupported(what + ": f-string part")
    else:
        raise Unsupported(what + ": write argument " + ast.unparse(arg))
    _need(parts and parts[-1][0] == "Lit" and parts[-1][1].endswith("\n"),
          what + ": header write does not end the line")
    last = parts[-1][1][:-1]
    parts = parts[:-1] + ([("Lit", last)] if last else [])
    for k, s in parts:
        _need(k != "Lit" or ("\n" not in s and '"' not in s), what + ": literal with newline/quote")
    _need(parts and parts[0][0] == "Lit", what + ": header line does not start with a literal")
    return parts


def _effects(nf, depth=0, conds=()):
    """(loop depth, conditions of the enclosing paths, effect) for every effect of a normal form"""
    for pc, effects, _exit, _sets in nf:
        c = conds + tuple(pc)
        for e in effects:
            if e[0] == "FOREACH":
                for x in _effects(e[3], depth + 1, c):
                    yield x
            else:
                yield depth, c, e


def _sub(v, pred):
    if isinstance(v, tuple):
        if pred(v):
            yield v
        for x in v:
            for y in _sub(x, pred):
                yield y


def _one(values, what):
    values = set(values)
    _need(len(values) == 1, "%s: %s" % (what, sorted(values)))
    return next(iter(values))


def _lit(k):
    return ast.literal_eval(k[1])


def _writes(nf):
    for depth, conds, e in _effects(nf):
        if e[0] == "CALL" and e[1][0] == "M" and e[1][1] == "write" and len(e[1][3]) == 1:
            yield depth, conds, e[1][3][0]


def _writer_loop_facts(mod, fn):
    try:
        nf = pathnorm_c18.Exec(mod).function(fn)
    except pathnorm_c18.Unsupported as e:
        raise Unsupported("normal form of the writer: %s" % e)
    ws = list(_writes(nf))
    joins = [_lit(j[2]) for d, c, a in ws if d == 2
             for j in _sub(a, lambda v: v[:2] == ("M", "join") and v[2][0] == "K")]
    dim = [_lit(a) for d, c, a in ws if d == 2 and a[0] == "K"
           and any("'univariate'" in at and not pol for at, pol in c)]
    lab = [_lit(a[1][0]) for d, c, a in ws if d == 1 and a[0] == "FSTR" and len(a[1]) == 2
           and a[1][0][0] == "K" and a[1][1][0] == "FMT"]
    _need(joins and dim and lab, "writer: case loop writes not found")
    return {"writer_value_sep": _one(joins, "writer: value separator"),
            "writer_dim_sep": _one(dim, "writer: multivariate separator"),
            "writer_label_sep": _one(lab, "writer: class value separator")}


def _writer(fn, frags, mod):
    frags["nf.write_dataframe_to_tsfile"] = _nf(mod, fn)
    items = []
    facts = {}
    seen_loop = False
    closed = False
    prelude = []
    for st in _body(fn):
        if closed:
            raise Unsupported("writer: statement after file.close()")
        if seen_loop:
            _need(ast.unparse(st) == "file.close()", "writer: statement after the case loop")
            closed = True
            continue
        if isinstance(st, ast.For):
            seen_loop = True
            # the literals of the case loop are read off the normal form (wherever the code that
            # writes them lives): what is joined with what per dimension, what follows a dimension
            # unless univariate, what precedes the class value
            facts.update(_writer_loop_facts(mod, fn))
            continue
        if not _has_write(st):
            prelude.append(ast.unparse(st))
            continue
        arg = _write_of(st)
        if arg is not None:
            items.append(("GAlways", _parts(arg, "writer header")))
            continue
        _need(isinstance(st, ast.If), "writer: write inside " + type(st).__name__)
        test = ast.unparse(st.test)
        if test == "comment":
            _need(not items, "writer: comment block is not first")
            continue
        guards = {"equal_length": "GEqualLength", "series_length > 0": "GSeriesLengthPos"}
        if test in guards:
            _need(len(st.body) == 1 and not st.orelse, "writer: optional header shape")
            arg = _write_of(st.body[0])
            _need(arg is not None, "writer: optional header write")
            items.append((guards[test], _parts(arg, "writer header")))
            continue
        if test == "class_label":
            _need(len(st.body) == 2 and len(st.orelse) == 1, "writer: class label branch shape")
            _need(ast.unparse(st.body[0]) == "space_separated_class_label = ' '.join((str(label) "
                  "for label in class_label))", "writer: class label join")
            a1, a2 = _write_of(st.body[1]), _write_of(st.orelse[0])
            _need(a1 is not None and a2 is not None, "writer: class label writes")
            items.append(("GClassLabel", _parts(a1, "writer header")))
            items.append(("GNoClassLabel", _parts(a2, "writer header")))
            continue
        raise Unsupported("writer: unknown guard `%s`" % test)
    _need(seen_loop and closed, "writer: no case loop / close")
    return items, facts


def _splits(node):
    """target name -> separator literal, for `name = <expr>.split(<const>)` assignments"""
    out = {}
    for n in ast.walk(node):
        if isinstance(n, ast.Assign) and len(n.targets) == 1 and isinstance(n.targets[0], ast.Name) \
                and isinstance(n.value, ast.Call) and isinstance(n.value.func, ast.Attribute) \
                and n.value.func.attr == "split" and len(n.value.args) == 1 \
                and isinstance(n.value.args[0], ast.Constant):
            out.setdefault(n.targets[0].id, set()).add(n.value.args[0].value)
    return out


def _parser(fn, frags):
    facts = {}
    args = fn.args
    names = [a.arg for a in args.args]
    _need("replace_missing_vals_with" in names, "parser: signature")
    d = args.defaults[names.index("replace_missing_vals_with") - (len(names) - len(args.defaults))]
    _need(isinstance(d, ast.Constant) and isinstance(d.value, str), "parser: missing default")
    facts["parser_missing_default"] = d.value
    withs = [s for s in _body(fn) if isinstance(s, ast.With)]
    _need(len(withs) == 1 and len(withs[0].body) == 1 and isinstance(withs[0].body[0], ast.For),
          "parser: with/for shape")
    frags["parser.open"] = ast.unparse(withs[0].items[0])
    loop = withs[0].body[0]
    _need(ast.unparse(loop.target) == "line" and ast.unparse(loop.iter) == "file", "parser: loop")
    _need(len(loop.body) == 3, "parser: loop body shape")
    _need(ast.unparse(loop.body[0]) == "line = line.strip().lower()", "parser: normalisation")
    _need(ast.unparse(loop.body[2]) == "line_num += 1", "parser: line counter")
    top = loop.body[1]
    _need(isinstance(top, ast.If) and ast.unparse(top.test) == "line" and not top.orelse
          and len(top.body) == 1 and isinstance(top.body[0], ast.If), "parser: `if line:` shape")
    node = top.body[0]
    tags = []
    while True:
        t = node.test
        if (isinstance(t, ast.Call) and isinstance(t.func, ast.Attribute)
                and t.func.attr == "startswith" and ast.unparse(t.func.value) == "line"
                and len(t.args) == 1 and isinstance(t.args[0], ast.Constant)
                and isinstance(t.args[0].value, str)):
            tag = t.args[0].value
            _need('"' not in tag and "\n" not in tag, "parser: tag literal")
            tags.append(tag)
            frags["parser.branch[%s]" % tag] = "\n".join(ast.unparse(s) for s in node.body)
            _need(len(node.orelse) == 1 and isinstance(node.orelse[0], ast.If),
                  "parser: startswith chain does not continue with elif")
            node = node.orelse[0]
            continue
        break
    _need(ast.unparse(node.test) == "data_started" and not node.orelse,
          "parser: chain does not end with `elif data_started:` without else")
    body = node.body
    _need(len(body) == 3 and isinstance(body[0], ast.If) and isinstance(body[2], ast.If)
          and ast.unparse(body[2].test) == "timestamps", "parser: data branch shape")
    frags["parser.metadata_check"] = ast.unparse(body[0])
    rep = body[1]
    _need(isinstance(rep, ast.Assign) and ast.unparse(rep.targets[0]) == "line"
          and isinstance(rep.value, ast.Call) and ast.unparse(rep.value.func) == "line.replace"
          and len(rep.value.args) == 2 and isinstance(rep.value.args[0], ast.Constant)
          and ast.unparse(rep.value.args[1]) == "replace_missing_vals_with", "parser: replace")
    facts["parser_missing"] = rep.value.args[0].value
    frags["parser.untimestamped_case"] = "\n".join(ast.unparse(s) for s in body[2].orelse)
    sp = _splits(ast.Module(body=body[2].orelse, type_ignores=[]))
    _need(sp.get("dimensions") and len(sp["dimensions"]) == 1, "parser: dimension split")
    _need(sp.get("data_series") and len(sp["data_series"]) == 1, "parser: value split")
    facts["parser_dim_sep"] = next(iter(sp["dimensions"]))
    facts["parser_value_sep"] = next(iter(sp["data_series"]))
    # header tokens are split on one literal everywhere
    hs = set()
    n = top.body[0]
    for _ in tags:
        for v in _splits(ast.Module(body=n.body, type_ignores=[])).get("tokens", set()):
            hs.add(v)
        n = n.orelse[0]
    _need(len(hs) == 1, "parser: header token separator")
    facts["parser_token_sep"] = next(iter(hs))
    rest = [s for s in _body(fn) if not isinstance(s, ast.With)]
    tail = [s for s in rest if isinstance(s, ast.If)]
    _need(len(tail) == 1 and ast.unparse(tail[0].test) == "line_num", "parser: final section")
    frags["parser.finish"] = ast.unparse(tail[0])
    frags["parser.init"] = "\n".join(ast.unparse(s) for s in rest if not isinstance(s, ast.If))
    return tags, facts


def _consts_in(node, pred):
    return [n.value for n in ast.walk(node) if isinstance(n, ast.Constant)
            and isinstance(n.value, str) and pred(n.value)]


def _arff(fn, frags, mod):
    frags["nf.load_from_arff_to_dataframe"] = _nf(mod, fn)
    try:
        nf = pathnorm_c18.Exec(mod).function(fn)
    except pathnorm_c18.Unsupported as e:
        raise Unsupported("normal form of the .arff loader: %s" % e)
    facts = {}
    # the `<literal> in <line>` tests of the loop
    lits = set()
    for _d, conds, _e in _effects(nf):
        for at, _pol in conds:
            if at.startswith("('CMP', 'In', ('K', "):
                lits.add(ast.literal_eval(ast.literal_eval(at)[2][1]))
    _need(sorted(lits) == ["@attribute", "@data", "relational"], "arff: `in` tests %s" % sorted(lits))
    facts["arff_data_tag"] = "@data"
    # the separator of a univariate data line: what the appended series are split on
    # (the univariate branch appends to instance_list[0], the relational one to instance_list[dim])
    seps = [_lit(sp[3][0]) for d, c, e in _effects(nf) if d == 1 and e[0] == "CALL"
            and e[1][:2] == ("M", "append") and e[1][2][0] == "IDX" and e[1][2][2] == ("K", "0")
            for sp in _sub(e[1][3], lambda v: v[:2] == ("M", "split") and len(v[3]) == 1
                           and v[3][0][0] == "K")]
    _need(seps, "arff: value split")
    facts["arff_value_sep"] = _one(seps, "arff: value split")
    return facts


def _tsv(fn, frags, mod):
    frags["nf.load_from_ucr_tsv_to_dataframe"] = _nf(mod, fn)
    calls = [n for n in ast.walk(fn) if isinstance(n, ast.Call)
             and ast.unparse(n.func) == "pd.read_csv"]
    _need(len(calls) == 1, "tsv: read_csv")
    kw = {k.arg: k.value for k in calls[0].keywords}
    _need(set(kw) == {"sep", "header"} and isinstance(kw["sep"], ast.Constant)
          and ast.unparse(kw["header"]) == "None", "tsv: read_csv arguments")
    return {"tsv_sep": kw["sep"].value}


def _load_dataset(fn, frags, mod):
    # the whole body (which file for which split, concat appending to the accumulated frame, the two
    # return forms) is covered by the normal-form pin; the split order is carried into Gallina
    frags["nf._load_dataset"] = _nf(mod, fn)
    fors = [n for n in ast.walk(fn) if isinstance(n, ast.For)]
    _need(len(fors) == 1 and isinstance(fors[0].target, ast.Name)
          and isinstance(fors[0].iter, (ast.Tuple, ast.List))
          and all(isinstance(e, ast.Constant) and isinstance(e.value, str)
                  for e in fors[0].iter.elts), "_load_dataset: loop over the partitions")
    order = [e.value for e in fors[0].iter.elts]
    return {"split_order": order}


def _loaders(mod, frags):
    """load_<dataset>(split, return_X_y) must all be `return _load_dataset(name, split, return_X_y)`"""
    out = []
    for n in mod.body:
        if isinstance(n, ast.FunctionDef) and n.name.startswith("load_") \
                and [a.arg for a in n.args.args] == ["split", "return_X_y"]:
            # one path, no effect, returning _load_dataset(<literal name>, split, return_X_y)
            try:
                nf = pathnorm_c18.Exec(mod, splice=False).function(n)
            except pathnorm_c18.Unsupported as e:
                raise Unsupported("loader %s: %s" % (n.name, e))
            _need(len(nf) == 1 and not nf[0][0] and not nf[0][1] and nf[0][2][0] == "return",
                  "loader %s shape" % n.name)
            v = nf[0][2][1]
            _need(v[0] == "C" and v[1] == ("S", "_load_dataset"), "loader %s shape" % n.name)
            bound = dict(zip(["name", "split", "return_X_y", "extract_path"], v[2]))
            for k, a in v[3]:
                _need(k not in bound, "loader %s arguments" % n.name)
                bound[k] = a
            nm = bound.get("name", ("?",))
            _need(nm[0] == "K" and bound.get("split") == ("S", "split")
                  and bound.get("return_X_y") == ("S", "return_X_y")
                  and bound.get("extract_path", ("K", "None")) == ("K", "None"),
                  "loader %s arguments" % n.name)
            out.append((n.name, ast.literal_eval(nm[1])))
    _need(out, "no load_<dataset> functions")
    return out


def _stateless(io_mod, base_mod):
    """decorators and global / nonlocal statements of the loader functions (both must be empty for
    the model's `pure_load`: a cache decorator or module-level state makes a call depend on the
    calls before it); the bodies themselves are pinned"""
    decos, globs = [], []
    fns = [_func(base_mod, "_load_dataset"), _func(io_mod, "load_from_tsfile_to_dataframe")]
    fns += [n for n in base_mod.body if isinstance(n, ast.FunctionDef) and n.name.startswith("load_")]
    for fn in fns:
        for d in fn.decorator_list:
            decos.append((fn.name, ast.unparse(d)))
        for n in ast.walk(fn):
            if isinstance(n, (ast.Global, ast.Nonlocal)):
                globs.append((fn.name, ast.unparse(n)))
    return decos, globs


def cstr(s):
    return '"' + s.replace('"', '""') + '"'


def fragments_and_facts(repo):
    with open(os.path.join(repo, SRC_IO)) as f:
        io_mod = ast.parse(f.read())
    with open(os.path.join(repo, SRC_BASE)) as f:
        base_mod = ast.parse(f.read())
    frags = {}
    items, wf = _writer(_func(io_mod, "write_dataframe_to_tsfile"), frags, io_mod)
    tags, pf = _parser(_func(io_mod, "load_from_tsfile_to_dataframe"), frags)
    af = _arff(_func(io_mod, "load_from_arff_to_dataframe"), frags, io_mod)
    tf = _tsv(_func(io_mod, "load_from_ucr_tsv_to_dataframe"), frags, io_mod)
    lf = _load_dataset(_func(base_mod, "_load_dataset"), frags, base_mod)
    loaders = _loaders(base_mod, frags)
    facts = {}
    facts["loader_decorators"], facts["loader_globals"] = _stateless(io_mod, base_mod)
    for d in (wf, pf, af, tf, lf):
        facts.update(d)
    return frags, items, tags, facts, loaders


def translate(repo):
    from . import tsformat_pins
    frags, items, tags, facts, loaders = fragments_and_facts(repo)
    for name in sorted(set(frags) | set(tsformat_pins.PINS)):
        if name not in tsformat_pins.PINS:
            raise Unsupported("unexpected fragment " + name)
        if name not in frags:
            raise Unsupported("fragment %s not found in the source" % name)
        if frags[name] != tsformat_pins.PINS[name]:
            import difflib
            diff = "\n".join(list(difflib.unified_diff(
                tsformat_pins.PINS[name].split("\n"), frags[name].split("\n"), "modelled", "source",
                lineterm="", n=1))[:14])
            raise Unsupported("modelled fragment `%s` changed in the source:\n%s" % (name, diff))
    out = ["(* GENERATED by /verif/translator/tsformat.py from %s and %s -- do not edit *)"
           % (SRC_IO, SRC_BASE),
           "From Coq Require Import List String.", "Require Import SkV.C18.Model.",
           "Import ListNotations.", "Open Scope string_scope.", ""]
    its = []
    for g, parts in items:
        ps = "; ".join("Lit %s" % cstr(s) if k == "Lit" else "Hole %s" % s for k, s in parts)
        its.append("  (%s, [%s])" % (g, ps))
    out.append("Definition gen_writer_header : list (wguard * list wpart) := [\n%s ]."
               % ";\n".join(its))
    out.append("Definition gen_parser_tags : list string := [%s]." % "; ".join(cstr(t) for t in tags))
    for k in ("writer_value_sep", "writer_label_sep", "writer_dim_sep", "parser_token_sep",
              "parser_dim_sep", "parser_value_sep", "parser_missing", "parser_missing_default",
              "arff_data_tag", "arff_value_sep", "tsv_sep"):
        v = facts[k]
        _need(isinstance(v, str) and "\n" not in v, "fact " + k)
        out.append("Definition gen_%s : string := %s." % (k, cstr(v)))
    out.append("Definition gen_split_order : list string := [%s]."
               % "; ".join(cstr(s) for s in facts["split_order"]))
    out.append("Definition gen_loaders : list (string * string) := [%s]."
               % "; ".join("(%s, %s)" % (cstr(a), cstr(b)) for a, b in loaders))
    for k, nm in (("loader_decorators", "gen_loader_decorators"),
                  ("loader_globals", "gen_loader_global_statements")):
        out.append("Definition %s : list (string * string) := [%s]."
                   % (nm, "; ".join("(%s, %s)" % (cstr(a), cstr(b)) for a, b in facts[k])))
    out.append("Definition gen_pinned_fragments : list (string * string) := [%s]." % "; ".join(
        "(%s, %s)" % (cstr(n), cstr(hashlib.sha256(frags[n].encode()).hexdigest()[:16]))
        for n in sorted(frags)))
    return {"C18/Gen.v": "\n".join(out) + "\n"}


if __name__ == "__main__":
    import sys
    repo = sys.argv[1] if len(sys.argv) > 1 else "/repo"
    if len(sys.argv) > 3 and sys.argv[2] == "--nf":
        for src in (SRC_IO, SRC_BASE):
            with open(os.path.join(repo, src)) as f:
                m = ast.parse(f.read())
            for n in m.body:
                if isinstance(n, ast.FunctionDef) and n.name == sys.argv[3]:
                    print(pathnorm_c18.normal_form_text(m, n))
    elif len(sys.argv) > 2 and sys.argv[2] == "--record":
        frags = fragments_and_facts(repo)[0]
        with open(os.path.join(os.path.dirname(__file__), "tsformat_pins.py"), "w") as f:
            f.write('"""Pins of the fragments of data_io.py / base.py the C18 hand model was written '
                    'against: the sha256 of the\npath normal form (translator/pathnorm_c18.py) for '
                    'whole functions (`nf.*`), normalised source text (ast.unparse)\nfor the '
                    'branches of the .ts parser loop.  Recorded with `python -m translator.tsformat '
                    '/repo --record`;\nre-record only after re-validating the model '
                    '(coq/C18/Model.v) against the new source."""\nPINS = {\n')
            for n in sorted(frags):
                f.write("    %r:\n" % n)
                lines = frags[n].split("\n")
                for i, ln in enumerate(lines):
                    f.write("        %r%s\n" % (ln + ("\n" if i < len(lines) - 1 else ""),
                                                "," if i == len(lines) - 1 else ""))
            f.write("}\n")
        print("recorded", len(frags), "fragments")
    else:
        print(translate(repo)["C18/Gen.v"])
