"""C18: site facts of the .ts writer / the three loaders / _load_dataset, regenerated on every run.

Emits build/coq/C18/Gen.v with
  * the header `file.write` items of write_dataframe_to_tsfile (guard + f-string parts, in order),
  * the tag literals of the parser's `line.startswith(...)` chain (in order),
  * the separator / Boolean / missing-value literals both sides use,
  * the literals of the .arff / .tsv loaders and the split order of _load_dataset.
Committed Bridge.v proves these equal to the constants of the hand model and proves the tag
inclusions on the generated lists.

Fail-closed: every statement of the modelled functions is either translated into a fact or is
covered by a PIN of what the hand model was written against.  Two kinds of pins:
  * `nf.<function>`: the sha256 of the PATH NORMAL FORM (translator/pathnorm_c18.py) of the whole
    function: every path with its atomic conditions, effects in order, exit and loop-carried state,
    expressions as values.  Invariant under extracted helpers, guard clauses vs nesting,
    temporaries, renamed locals, enumerate vs range(len()), equivalent slices, ...; any change of
    what a path tests, does or returns changes it.  Used for the .arff / .tsv loaders,
    _load_dataset and the writer.
  * `parser.*`: normalised source text (ast.unparse) of the branches of the big .ts parser loop.
Anything else raises Unsupported -> the harness reports a broken tie.
`python -m translator.tsformat <repo> --nf <function>` prints a normal form.
"""
import ast
import hashlib
import os

from . import pathnorm_c18

SRC_IO = "sktime/utils/data_io.py"
SRC_BASE = "sktime/datasets/base.py"


class Unsupported(Exception):
    pass


def _need(cond, what):
    if not cond:
        raise Unsupported(what)


def _func(mod, name):
    for n in mod.body:
        if isinstance(n, ast.FunctionDef) and n.name == name:
            return n
    raise Unsupported("missing function " + name)


def _nf_tuple(mod, fn, **options):
    try:
        return pathnorm_c18.Exec(mod, **options).function(fn)
    except pathnorm_c18.Unsupported as e:
        raise Unsupported("normal form of %s: %s" % (fn.name, e))


def _nf(mod, fn, **options):
    """pin of the path normal form of a whole function"""
    return _pin(_nf_tuple(mod, fn, **options))


def _pin(nf):
    """sha256 of the normal form with the names of locals made canonical (renaming a local or a
    private helper changes nothing; the extractors below work on the form with the source's names
    but never look a name up: they go by role)"""
    text = pathnorm_c18._fmt(pathnorm_c18.alpha_normal(nf))
    return "sha256:" + hashlib.sha256(text.encode()).hexdigest()


def _body(fn):
    b = fn.body
    if b and isinstance(b[0], ast.Expr) and isinstance(b[0].value, ast.Constant) \
            and isinstance(b[0].value.value, str):
        b = b[1:]
    return b


def _is_write(node):
    return (isinstance(node, ast.Call) and isinstance(node.func, ast.Attribute)
            and node.func.attr == "write" and isinstance(node.func.value, ast.Name)
            and node.func.value.id == "file" and len(node.args) == 1 and not node.keywords)


def _write_of(st):
    if isinstance(st, ast.Expr) and _is_write(st.value):
        return st.value.args[0]
    return None


def _has_write(st):
    return any(_is_write(n) for n in ast.walk(st))


HOLES = {
    "problem_name": "HName",
    "str(timestamp).lower()": "HTimestamp",
    "str(univariate).lower()": "HUnivariate",
    "str(equal_length).lower()": "HEqualLength",
    "series_length": "HSeriesLength",
    "space_separated_class_label": "HLabels",
}


def _parts(arg, what):
    """f-string / constant of a header write -> list of ('Lit', s) / ('Hole', name); the trailing
    newline (required) is dropped."""
    parts = []
    if isinstance(arg, ast.Constant) and isinstance(arg.value, str):
        parts.append(("Lit", arg.value))
    elif isinstance(arg, ast.JoinedStr):
        for v in arg.values:
            if isinstance(v, ast.Constant) and isinstance(v.value, str):
                parts.append(("Lit", v.value))
            elif isinstance(v, ast.FormattedValue):
                _need(v.conversion == -1 and v.format_spec is None, what + ": formatted value spec")
                src = ast.unparse(v.value)
                _need(src in HOLES, what + ": unknown expression {%s}" % src)
                parts.append(("Hole", HOLES[src]))
            else:
                raise Unsupported(what + ": f-string part")
    else:
        raise Unsupported(what + ": write argument " + ast.unparse(arg))
    _need(parts and parts[-1][0] == "Lit" and parts[-1][1].endswith("\n"),
          what + ": header write does not end the line")
    last = parts[-1][1][:-1]
    parts = parts[:-1] + ([("Lit", last)] if last else [])
    for k, s in parts:
        _need(k != "Lit" or ("\n" not in s and '"' not in s), what + ": literal with newline/quote")
    _need(parts and parts[0][0] == "Lit", what + ": header line does not start with a literal")
    return parts


def _effects(nf, depth=0, conds=()):
    """(loop depth, conditions of the enclosing paths, effect) for every effect of a normal form"""
    for pc, effects, _exit, _sets in nf:
        c = conds + tuple(pc)
        for e in effects:
            if e[0] == "FOREACH":
                for x in _effects(e[3], depth + 1, c):
                    yield x
            else:
                yield depth, c, e


def _sub(v, pred):
    if isinstance(v, tuple):
        if v and pred(v):
            yield v
        for x in v:
            for y in _sub(x, pred):
                yield y


def _one(values, what):
    values = set(values)
    _need(len(values) == 1, "%s: %s" % (what, sorted(values)))
    return next(iter(values))


def _lit(k):
    return ast.literal_eval(k[1])


def _writes(nf):
    for depth, conds, e in _effects(nf):
        if e[0] == "CALL" and e[1][0] == "M" and e[1][1] == "write" and len(e[1][3]) == 1:
            yield depth, conds, e[1][3][0]


def _writer_loop_facts(mod, fn):
    try:
        nf = pathnorm_c18.Exec(mod).function(fn)
    except pathnorm_c18.Unsupported as e:
        raise Unsupported("normal form of the writer: %s" % e)
    ws = list(_writes(nf))
    # inside the loop over the cases (at any depth: the loop over the dimensions of a case may be
    # there or, for the one dimension a case has, not)
    joins = [_lit(j[2]) for d, c, a in ws if d >= 1
             for j in _sub(a, lambda v: v[:2] == ("M", "join") and v[2][0] == "K")]
    # what is written after a dimension unless `univariate`: the literal that a case line gets MORE of
    # on the paths where univariate is false than on those where it is true
    import collections
    per_path = {}
    for d, c, a in ws:
        if d >= 1 and a[0] == "K":
            per_path.setdefault(c, collections.Counter())[_lit(a)] += 1
    uni = [cnt for c, cnt in per_path.items()
           if any(_a == ("S", "univariate") and pol for at, pol, _a in c)]
    multi = [cnt for c, cnt in per_path.items()
             if any(_a == ("S", "univariate") and not pol for at, pol, _a in c)]
    dim = [lit for cnt in multi for lit, k in cnt.items()
           if k > max([u.get(lit, 0) for u in uni] or [0])]
    lab = [_lit(a[1][0]) for d, c, a in ws if d >= 1 and a[0] == "FSTR" and len(a[1]) == 2
           and a[1][0][0] == "K" and a[1][1][0] == "FMT"]
    _need(joins and dim and lab, "writer: case loop writes not found")
    return {"writer_value_sep": _one(joins, "writer: value separator"),
            "writer_dim_sep": _one(dim, "writer: multivariate separator"),
            "writer_label_sep": _one(lab, "writer: class value separator")}


def _str_of(name):
    return ("M", "lower", ("C", ("S", "str"), (("S", name),), ()), (), ())


# what may stand in a header line, as a VALUE (however the code names or computes it)
HOLE_VALUES = {
    ("S", "problem_name"): "HName",
    _str_of("timestamp"): "HTimestamp",
    _str_of("univariate"): "HUnivariate",
    _str_of("equal_length"): "HEqualLength",
    ("S", "series_length"): "HSeriesLength",
    ("M", "join", ("K", "' '"), (("COMP", "Comp", ("C", ("S", "str"), (("B", 0),), ()),
                                  ("S", "class_label"), ()),), ()): "HLabels",
}
GUARD_ATOMS = {
    (("S", "equal_length"), True): "GEqualLength",
    (("CMP", "Gt", ("S", "series_length"), ("K", "0")), True): "GSeriesLengthPos",
    (("S", "class_label"), True): "GClassLabel",
    (("S", "class_label"), False): "GNoClassLabel",
}


def _header_parts(v, what):
    """value of a header write -> list of ('Lit', s) / ('Hole', name); the trailing newline
    (required) is dropped"""
    parts = []
    if v[0] == "K":
        parts.append(("Lit", _lit(v)))
    elif v[0] == "FSTR":
        for x in v[1]:
            if x[0] == "K":
                parts.append(("Lit", _lit(x)))
            else:
                _need(x[0] == "FMT" and x[2] == -1 and x[3] is None, what + ": formatted value spec")
                _need(x[1] in HOLE_VALUES, what + ": unknown expression in a header line")
                parts.append(("Hole", HOLE_VALUES[x[1]]))
    else:
        raise Unsupported(what + ": write argument of kind " + v[0])
    _need(all(not (k == "Lit" and not isinstance(t, str)) for k, t in parts), what + ": literal")
    _need(parts and parts[-1][0] == "Lit" and parts[-1][1].endswith("\n"),
          what + ": header write does not end the line")
    last = parts[-1][1][:-1]
    parts = parts[:-1] + ([("Lit", last)] if last else [])
    for k, t in parts:
        _need(k != "Lit" or ("\n" not in t and '"' not in t), what + ": literal with newline/quote")
    _need(parts and parts[0][0] == "Lit", what + ": header line does not start with a literal")
    return parts


def _is_header_value(v):
    first = v if v[0] == "K" else (v[1][0] if v[0] == "FSTR" and v[1] else None)
    return first is not None and first[0] == "K" and isinstance(_lit(first), str) \
        and _lit(first).startswith("@")


def _writer(fn, frags, mod):
    """header items (guard + parts, in order) and the literals of the case loop, read off the normal
    form of the whole writer: which `file.write` of a line starting with "@" happens on which paths,
    in which order, wherever the text of the line is computed"""
    nf = _nf_tuple(mod, fn)
    frags["nf.write_dataframe_to_tsfile"] = _pin(nf)
    ok = [p for p in nf if p[2][0] == "return"]
    _need(ok, "writer: no successful path")
    seqs = []
    for conds, effects, _ex, _sets in ok:
        before, loops = [], 0
        for e in effects:
            if e[0] == "FOREACH":
                loops += 1
            elif loops == 0 and e[0] == "CALL" and e[1][:2] == ("M", "write") \
                    and len(e[1][3]) == 1 and _is_header_value(e[1][3][0]):
                before.append(e[1][3][0])
            elif loops > 0 and e[0] == "CALL" and e[1][:2] == ("M", "write"):
                raise Unsupported("writer: a write after the case loop")
        _need(loops == 1, "writer: exactly one case loop on every successful path")
        seqs.append((set((c[2], c[1]) for c in conds), before))
    values = []
    for _c, before in seqs:
        for v in before:
            if v not in values:
                values.append(v)
    items = []
    for v in values:
        present = [i for i, (_c, before) in enumerate(seqs) if v in before]
        _need(all(seqs[i][1].count(v) == 1 for i in present), "writer: a header line written twice")
        guard = None
        if len(present) == len(seqs):
            guard = "GAlways"
        else:
            for ga, name in GUARD_ATOMS.items():
                if present == [i for i, (c, _b) in enumerate(seqs) if ga in c]:
                    guard = name
        _need(guard is not None, "writer: unknown guard of a header line")
        longest = max(present, key=lambda i: len(seqs[i][1]))
        items.append((seqs[longest][1].index(v), 0 if guard != "GNoClassLabel" else 1, guard,
                      _header_parts(v, "writer header")))
    items.sort(key=lambda t: t[:2])
    # the comment block, if any, comes before every header line: on every path the first write that
    # is not a header line precedes the first header line
    for conds, effects, _ex, _sets in ok:
        kinds = ["h" if _is_header_value(e[1][3][0]) else "c" for e in effects
                 if e[0] == "CALL" and e[1][:2] == ("M", "write") and len(e[1][3]) == 1]
        _need("c" not in kinds[kinds.index("h"):] if "h" in kinds else True,
              "writer: comment block is not first")
    return [(g, parts) for _i, _k, g, parts in items], _writer_loop_facts(mod, fn)


def _splits(node):
    """target name -> separator literal, for `name = <expr>.split(<const>)` assignments"""
    out = {}
    for n in ast.walk(node):
        if isinstance(n, ast.Assign) and len(n.targets) == 1 and isinstance(n.targets[0], ast.Name) \
                and isinstance(n.value, ast.Call) and isinstance(n.value.func, ast.Attribute) \
                and n.value.func.attr == "split" and len(n.value.args) == 1 \
                and isinstance(n.value.args[0], ast.Constant):
            out.setdefault(n.targets[0].id, set()).add(n.value.args[0].value)
    return out


def _line_loop(nf):
    """the body of the one loop over the lines of the file (the same on every path of the function)"""
    bodies = set()
    for _c, effects, _ex, _sets in nf:
        loops = [e for e in effects if e[0] == "FOREACH"]
        if loops:
            bodies.add(loops[0][3])
    _need(len(bodies) == 1, "parser: the loop over the lines differs between paths")
    return next(iter(bodies))


def _values(path):
    """every value a path mentions: conditions, effects, new state"""
    conds, effects, ex, sets = path
    return (tuple(c[2] for c in conds), effects, ex, sets)


def _parser(fn, frags, mod):
    """tags of the startswith chain (in order), separators, missing-value marker: read off the path
    normal form of the whole parser (the branch `timestamps` true is outside the model and is not
    explored); the normal form itself is the pin of everything else the hand model describes"""
    facts = {}
    args = fn.args
    names = [a.arg for a in args.args]
    _need("replace_missing_vals_with" in names, "parser: signature")
    d = args.defaults[names.index("replace_missing_vals_with") - (len(names) - len(args.defaults))]
    _need(isinstance(d, ast.Constant) and isinstance(d.value, str), "parser: missing default")
    facts["parser_missing_default"] = d.value
    nf = _nf_tuple(mod, fn, assume_false=("timestamps",))
    frags["nf.load_from_tsfile_to_dataframe"] = _pin(nf)
    body = _line_loop(nf)

    def sw(c):
        return c[2][:2] == ("M", "startswith") and len(c[2][3]) == 1 and c[2][3][0][0] == "K"
    # the chain: the path on which tag t matches has decided `not startswith(u)` for every tag u
    # that is tested before t
    rank, header_paths, data_paths = {}, [], []
    for path in body:
        pos = [c for c in path[0] if sw(c) and c[1]]
        neg = [c for c in path[0] if sw(c) and not c[1]]
        _need(len(pos) <= 1, "parser: two tags match one line")
        if pos:
            tag = _lit(pos[0][2][3][0])
            _need(isinstance(tag, str) and '"' not in tag and "\n" not in tag, "parser: tag literal")
            _need(rank.setdefault(tag, len(neg)) == len(neg), "parser: tag chain is not a chain")
            header_paths.append(path)
        elif neg:
            data_paths.append(path)
    tags = sorted(rank, key=lambda t: rank[t])
    _need(tags and sorted(rank.values()) == list(range(len(tags))), "parser: tag chain")
    # every line is stripped and lower-cased before anything looks at it
    for path in header_paths:
        for c in path[0]:
            if sw(c):
                recv = c[2][2]
                _need(recv[:2] == ("M", "lower") and recv[2][:2] == ("M", "strip"),
                      "parser: normalisation")
    # data lines: only once @data has been seen (a line matching no tag before that falls through)
    # the flag(s) that the line matching the LAST tag of the chain (the data tag) sets to True
    last_tag = tags[-1]
    set_by_data_tag = None
    for path in header_paths:
        if any(sw(c) and c[1] and _lit(c[2][3][0]) == last_tag for c in path[0]) \
                and path[2] == ("next",):
            names = {nm for nm, val in path[3] if val == ("K", "True")}
            set_by_data_tag = names if set_by_data_tag is None else set_by_data_tag & names
    _need(set_by_data_tag, "parser: the data tag sets no flag")

    def started(path):
        return any(c[1] and c[2][0] == "LS" and c[2][-1] in set_by_data_tag for c in path[0])
    live = [p for p in data_paths if p[2] == ("next",) and started(p)]
    _need(live, "parser: no data branch")
    for path in data_paths:
        if not started(path):
            _need(not path[1], "parser: data read before @data")
    seps_tok = {_lit(v[3][0]) for p in header_paths
                for v in _sub(_values(p), lambda v: v[:2] == ("M", "split") and len(v[3]) == 1
                              and v[3][0][0] == "K")}
    facts["parser_token_sep"] = _one(seps_tok, "parser: header token separator")
    dim, val, miss = set(), set(), set()
    for path in live:
        for depth, _c, e in _effects((path,)):
            for v in _sub(e, lambda v: v[:2] == ("M", "split") and len(v[3]) == 1
                          and v[3][0][0] == "K"):
                # a dimension is what the (missing-value-replaced) line is split into; a value what a
                # stripped dimension is split into
                (dim if v[2][:2] == ("M", "replace") else val).add(_lit(v[3][0]))
        for v in _sub(_values(path), lambda v: v[:2] == ("M", "replace") and len(v[3]) == 2
                      and v[3][1] == ("S", "replace_missing_vals_with")):
            miss.add(_lit(v[3][0]))
    facts["parser_dim_sep"] = _one(dim, "parser: dimension split")
    facts["parser_value_sep"] = _one(val, "parser: value split")
    facts["parser_missing"] = _one(miss, "parser: replace")
    return tags, facts


def _consts_in(node, pred):
    return [n.value for n in ast.walk(node) if isinstance(n, ast.Constant)
            and isinstance(n.value, str) and pred(n.value)]


def _arff(fn, frags, mod):
    frags["nf.load_from_arff_to_dataframe"] = _nf(mod, fn)
    try:
        nf = pathnorm_c18.Exec(mod).function(fn)
    except pathnorm_c18.Unsupported as e:
        raise Unsupported("normal form of the .arff loader: %s" % e)
    facts = {}
    # the `<literal> in <line>` tests of the loop
    lits = set()
    for _d, conds, _e in _effects(nf):
        for _at, _pol, atom in conds:
            if atom[:2] == ("CMP", "In") and atom[2][0] == "K":
                lits.add(_lit(atom[2]))
    _need(sorted(lits) == ["@attribute", "@data", "relational"], "arff: `in` tests %s" % sorted(lits))
    facts["arff_data_tag"] = "@data"
    # the separator of a univariate data line: what the appended series are split on
    # (the univariate branch appends to instance_list[0], the relational one to instance_list[dim])
    seps = [_lit(sp[3][0]) for d, c, e in _effects(nf) if d == 1 and e[0] == "CALL"
            and e[1][:2] == ("M", "append") and e[1][2][0] == "IDX" and e[1][2][2] == ("K", "0")
            for sp in _sub(e[1][3], lambda v: v[:2] == ("M", "split") and len(v[3]) == 1
                           and v[3][0][0] == "K")]
    _need(seps, "arff: value split")
    facts["arff_value_sep"] = _one(seps, "arff: value split")
    return facts


def _tsv(fn, frags, mod):
    frags["nf.load_from_ucr_tsv_to_dataframe"] = _nf(mod, fn)
    calls = [n for n in ast.walk(fn) if isinstance(n, ast.Call)
             and ast.unparse(n.func) == "pd.read_csv"]
    _need(len(calls) == 1, "tsv: read_csv")
    kw = {k.arg: k.value for k in calls[0].keywords}
    _need(set(kw) == {"sep", "header"} and isinstance(kw["sep"], ast.Constant)
          and ast.unparse(kw["header"]) == "None", "tsv: read_csv arguments")
    return {"tsv_sep": kw["sep"].value}


def _load_dataset(fn, frags, mod):
    """the whole body (which file for which split, concat appending to the accumulated frame, the two
    return forms) is covered by the normal-form pin; carried into Gallina: the ORDER in which the
    partitions are read for split=None, from the files that are loaded on that path
    (`<name>_<PARTITION>.ts`, whatever the loop variable or the spelling of the literal is)"""
    nf = _nf_tuple(mod, fn)
    frags["nf._load_dataset"] = _pin(nf)
    both = [p for p in nf if p[2][0] == "return"
            and any(c[1] and c[2] == ("CMP", "Is", ("S", "split"), ("K", "None")) for c in p[0])]
    _need(both, "_load_dataset: no path for split=None")
    orders = set()
    for path in both:
        order = []
        for v in _sub(_values(path), lambda v: v[0] == "C"
                      and v[1] == ("S", "load_from_tsfile_to_dataframe") and len(v[2]) == 1):
            fname = v[2][0][3][-1] if v[2][0][:2] == ("M", "join") else None
            _need(fname is not None and fname[:3] == ("BIN", "Add", ("S", "name"))
                  and fname[3][0] == "K", "_load_dataset: file name of a partition")
            lit = _lit(fname[3])
            _need(isinstance(lit, str) and lit.startswith("_") and lit.endswith(".ts"),
                  "_load_dataset: file name of a partition")
            part = lit[1:-3].lower()
            if part not in order:
                order.append(part)
        orders.add(tuple(order))
    _need(len(orders) == 1, "_load_dataset: partition order differs between paths")
    return {"split_order": list(next(iter(orders)))}


def _loaders(mod, frags):
    """load_<dataset>(split, return_X_y) must all be `return _load_dataset(name, split, return_X_y)`"""
    out = []
    for n in mod.body:
        if isinstance(n, ast.FunctionDef) and n.name.startswith("load_") \
                and [a.arg for a in n.args.args] == ["split", "return_X_y"]:
            # one path, no effect, returning _load_dataset(<literal name>, split, return_X_y)
            try:
                nf = pathnorm_c18.Exec(mod, splice=False).function(n)
            except pathnorm_c18.Unsupported as e:
                raise Unsupported("loader %s: %s" % (n.name, e))
            _need(len(nf) == 1 and not nf[0][0] and not nf[0][1] and nf[0][2][0] == "return",
                  "loader %s shape" % n.name)
            v = nf[0][2][1]
            _need(v[0] == "C" and v[1] == ("S", "_load_dataset"), "loader %s shape" % n.name)
            bound = dict(zip(["name", "split", "return_X_y", "extract_path"], v[2]))
            for k, a in v[3]:
                _need(k not in bound, "loader %s arguments" % n.name)
                bound[k] = a
            nm = bound.get("name", ("?",))
            _need(nm[0] == "K" and bound.get("split") == ("S", "split")
                  and bound.get("return_X_y") == ("S", "return_X_y")
                  and bound.get("extract_path", ("K", "None")) == ("K", "None"),
                  "loader %s arguments" % n.name)
            out.append((n.name, ast.literal_eval(nm[1])))
    _need(out, "no load_<dataset> functions")
    return out


def _stateless(io_mod, base_mod):
    """decorators and global / nonlocal statements of the loader functions (both must be empty for
    the model's `pure_load`: a cache decorator or module-level state makes a call depend on the
    calls before it); the bodies themselves are pinned"""
    decos, globs = [], []
    fns = [_func(base_mod, "_load_dataset"), _func(io_mod, "load_from_tsfile_to_dataframe")]
    fns += [n for n in base_mod.body if isinstance(n, ast.FunctionDef) and n.name.startswith("load_")]
    for fn in fns:
        for d in fn.decorator_list:
            decos.append((fn.name, ast.unparse(d)))
        for n in ast.walk(fn):
            if isinstance(n, (ast.Global, ast.Nonlocal)):
                globs.append((fn.name, ast.unparse(n)))
    return decos, globs


def cstr(s):
    return '"' + s.replace('"', '""') + '"'


def fragments_and_facts(repo):
    with open(os.path.join(repo, SRC_IO)) as f:
        io_mod = ast.parse(f.read())
    with open(os.path.join(repo, SRC_BASE)) as f:
        base_mod = ast.parse(f.read())
    frags = {}
    items, wf = _writer(_func(io_mod, "write_dataframe_to_tsfile"), frags, io_mod)
    tags, pf = _parser(_func(io_mod, "load_from_tsfile_to_dataframe"), frags, io_mod)
    af = _arff(_func(io_mod, "load_from_arff_to_dataframe"), frags, io_mod)
    tf = _tsv(_func(io_mod, "load_from_ucr_tsv_to_dataframe"), frags, io_mod)
    lf = _load_dataset(_func(base_mod, "_load_dataset"), frags, base_mod)
    loaders = _loaders(base_mod, frags)
    facts = {}
    facts["loader_decorators"], facts["loader_globals"] = _stateless(io_mod, base_mod)
    for d in (wf, pf, af, tf, lf):
        facts.update(d)
    return frags, items, tags, facts, loaders


def translate(repo):
    from . import tsformat_pins
    frags, items, tags, facts, loaders = fragments_and_facts(repo)
    for name in sorted(set(frags) | set(tsformat_pins.PINS)):
        if name not in tsformat_pins.PINS:
            raise Unsupported("unexpected fragment " + name)
        if name not in frags:
            raise Unsupported("fragment %s not found in the source" % name)
        if frags[name] != tsformat_pins.PINS[name]:
            import difflib
            diff = "\n".join(list(difflib.unified_diff(
                tsformat_pins.PINS[name].split("\n"), frags[name].split("\n"), "modelled", "source",
                lineterm="", n=1))[:14])
            raise Unsupported("modelled fragment `%s` changed in the source:\n%s" % (name, diff))
    out = ["(* GENERATED by /verif/translator/tsformat.py from %s and %s -- do not edit *)"
           % (SRC_IO, SRC_BASE),
           "From Coq Require Import List String.", "Require Import SkV.C18.Model.",
           "Import ListNotations.", "Open Scope string_scope.", ""]
    its = []
    for g, parts in items:
        ps = "; ".join("Lit %s" % cstr(s) if k == "Lit" else "Hole %s" % s for k, s in parts)
        its.append("  (%s, [%s])" % (g, ps))
    out.append("Definition gen_writer_header : list (wguard * list wpart) := [\n%s ]."
               % ";\n".join(its))
    out.append("Definition gen_parser_tags : list string := [%s]." % "; ".join(cstr(t) for t in tags))
    for k in ("writer_value_sep", "writer_label_sep", "writer_dim_sep", "parser_token_sep",
              "parser_dim_sep", "parser_value_sep", "parser_missing", "parser_missing_default",
              "arff_data_tag", "arff_value_sep", "tsv_sep"):
        v = facts[k]
        _need(isinstance(v, str) and "\n" not in v, "fact " + k)
        out.append("Definition gen_%s : string := %s." % (k, cstr(v)))
    out.append("Definition gen_split_order : list string := [%s]."
               % "; ".join(cstr(s) for s in facts["split_order"]))
    out.append("Definition gen_loaders : list (string * string) := [%s]."
               % "; ".join("(%s, %s)" % (cstr(a), cstr(b)) for a, b in loaders))
    for k, nm in (("loader_decorators", "gen_loader_decorators"),
                  ("loader_globals", "gen_loader_global_statements")):
        out.append("Definition %s : list (string * string) := [%s]."
                   % (nm, "; ".join("(%s, %s)" % (cstr(a), cstr(b)) for a, b in facts[k])))
    out.append("Definition gen_pinned_fragments : list (string * string) := [%s]." % "; ".join(
        "(%s, %s)" % (cstr(n), cstr(hashlib.sha256(frags[n].encode()).hexdigest()[:16]))
        for n in sorted(frags)))
    return {"C18/Gen.v": "\n".join(out) + "\n"}


if __name__ == "__main__":
    import sys
    repo = sys.argv[1] if len(sys.argv) > 1 else "/repo"
    if len(sys.argv) > 3 and sys.argv[2] == "--nf":
        for src in (SRC_IO, SRC_BASE):
            with open(os.path.join(repo, src)) as f:
                m = ast.parse(f.read())
            for n in m.body:
                if isinstance(n, ast.FunctionDef) and n.name == sys.argv[3]:
                    print(pathnorm_c18.normal_form_text(m, n))
    elif len(sys.argv) > 2 and sys.argv[2] == "--record":
        frags = fragments_and_facts(repo)[0]
        with open(os.path.join(os.path.dirname(__file__), "tsformat_pins.py"), "w") as f:
            f.write('"""Pins of the fragments of data_io.py / base.py the C18 hand model was written '
                    'against: the sha256 of the\npath normal form (translator/pathnorm_c18.py) for '
                    'whole functions (`nf.*`), normalised source text (ast.unparse)\nfor the '
                    'branches of the .ts parser loop.  Recorded with `python -m translator.tsformat '
                    '/repo --record`;\nre-record only after re-validating the model '
                    '(coq/C18/Model.v) against the new source."""\nPINS = {\n')
            for n in sorted(frags):
                f.write("    %r:\n" % n)
                lines = frags[n].split("\n")
                for i, ln in enumerate(lines):
                    f.write("        %r%s\n" % (ln + ("\n" if i < len(lines) - 1 else ""),
                                                "," if i == len(lines) - 1 else ""))
            f.write("}\n")
        print("recorded", len(frags), "fragments")
    else:
        print(translate(repo)["C18/Gen.v"])
