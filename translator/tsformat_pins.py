"""Normalised source text (ast.unparse) of the fragments of data_io.py / base.py the C18 hand model
was written against.  Recorded with `python -m translator.tsformat /repo --record`; re-record only after
re-validating the model (coq/C18/Model.v) against the new text."""
PINS = {
    'arff.body':
        'instance_list = []\n'
        'class_val_list = []\n'
        'data_started = False\n'
        'is_multi_variate = False\n'
        'is_first_case = True\n'
        "with open(full_file_path_and_name, 'r') as f:\n"
        '    for line in f:\n'
        '        if line.strip():\n'
        "            if is_multi_variate is False and '@attribute' in line.lower() and ('relational' in line.lower()):\n"
        '                is_multi_variate = True\n'
        "            if '@data' in line.lower():\n"
        '                data_started = True\n'
        '                continue\n'
        '            if data_started:\n'
        "                line = line.replace('?', replace_missing_vals_with)\n"
        '                if is_multi_variate:\n'
        '                    if has_class_labels:\n'
        '                        line, class_val = line.split("\',")\n'
        '                        class_val_list.append(class_val.strip())\n'
        "                    dimensions = line.split('\\\\n')\n"
        '                    dimensions[0] = dimensions[0].replace("\'", \'\')\n'
        '                    if is_first_case:\n'
        '                        for _d in range(len(dimensions)):\n'
        '                            instance_list.append([])\n'
        '                        is_first_case = False\n'
        '                    for dim in range(len(dimensions)):\n'
        "                        instance_list[dim].append(pd.Series([float(i) for i in dimensions[dim].split(',')]))\n"
        '                else:\n'
        '                    if is_first_case:\n'
        '                        instance_list.append([])\n'
        '                        is_first_case = False\n'
        "                    line_parts = line.split(',')\n"
        '                    if has_class_labels:\n'
        '                        instance_list[0].append(pd.Series([float(i) for i in line_parts[:len(line_parts) - 1]]))\n'
        '                        class_val_list.append(line_parts[-1].strip())\n'
        '                    else:\n'
        '                        instance_list[0].append(pd.Series([float(i) for i in line_parts[:len(line_parts)]]))\n'
        'x_data = pd.DataFrame(dtype=np.float32)\n'
        'for dim in range(len(instance_list)):\n'
        "    x_data['dim_' + str(dim)] = instance_list[dim]\n"
        'if has_class_labels:\n'
        '    if return_separate_X_and_y:\n'
        '        return (x_data, np.asarray(class_val_list))\n'
        '    else:\n'
        "        x_data['class_vals'] = pd.Series(class_val_list)\n"
        'return x_data',
    'load_dataset.body':
        'if extract_path is not None:\n'
        '    local_module = os.path.dirname(extract_path)\n'
        '    local_dirname = extract_path\n'
        'else:\n'
        '    local_module = MODULE\n'
        '    local_dirname = DIRNAME\n'
        'if not os.path.exists(os.path.join(local_module, local_dirname)):\n'
        '    os.makedirs(os.path.join(local_module, local_dirname))\n'
        'if name not in _list_downloaded_datasets(extract_path):\n'
        "    url = 'http://timeseriesclassification.com/Downloads/%s.zip' % name\n"
        '    try:\n'
        '        _download_and_extract(url, extract_path)\n'
        '    except zipfile.BadZipFile as e:\n'
        "        raise ValueError('Invalid dataset name. Please make sure the dataset is available on http://timeseriesclassification.com/.') from e\n"
        "if split in ('train', 'test'):\n"
        "    fname = name + '_' + split.upper() + '.ts'\n"
        '    abspath = os.path.join(local_module, local_dirname, name, fname)\n'
        '    X, y = load_from_tsfile_to_dataframe(abspath)\n'
        'elif split is None:\n'
        "    X = pd.DataFrame(dtype='object')\n"
        "    y = pd.Series(dtype='object')\n"
        "    for split in ('train', 'test'):\n"
        "        fname = name + '_' + split.upper() + '.ts'\n"
        '        abspath = os.path.join(local_module, local_dirname, name, fname)\n'
        '        result = load_from_tsfile_to_dataframe(abspath)\n'
        '        X = pd.concat([X, pd.DataFrame(result[0])])\n'
        '        y = pd.concat([y, pd.Series(result[1])])\n'
        'else:\n'
        "    raise ValueError('Invalid `split` value')\n"
        'if return_X_y:\n'
        '    return (X, y)\n'
        'else:\n'
        "    X['class_val'] = pd.Series(y)\n"
        '    return X',
    'parser.branch[@classlabel]':
        'if data_started:\n'
        "    raise TsFileParseException('metadata must come before data')\n"
        "tokens = line.split(' ')\n"
        'token_len = len(tokens)\n'
        'if token_len == 1:\n'
        "    raise TsFileParseException('classlabel tag requires an associated Boolean  value')\n"
        "if tokens[1] == 'true':\n"
        '    class_labels = True\n'
        "elif tokens[1] == 'false':\n"
        '    class_labels = False\n'
        'else:\n'
        "    raise TsFileParseException('invalid classLabel value')\n"
        'if token_len == 2 and class_labels:\n'
        "    raise TsFileParseException('if the classlabel tag is true then class values must be supplied')\n"
        'has_class_labels_tag = True\n'
        'class_label_list = [token.strip() for token in tokens[2:]]\n'
        'metadata_started = True',
    'parser.branch[@data]':
        "if line != '@data':\n"
        "    raise TsFileParseException('data tag should not have an associated value')\n"
        'if data_started and (not metadata_started):\n'
        "    raise TsFileParseException('metadata must come before data')\n"
        'else:\n'
        '    has_data_tag = True\n'
        '    data_started = True',
    'parser.branch[@problemname]':
        'if data_started:\n'
        "    raise TsFileParseException('metadata must come before data')\n"
        "tokens = line.split(' ')\n"
        'token_len = len(tokens)\n'
        'if token_len == 1:\n'
        "    raise TsFileParseException('problemname tag requires an associated value')\n"
        'has_problem_name_tag = True\n'
        'metadata_started = True',
    'parser.branch[@timestamps]':
        'if data_started:\n'
        "    raise TsFileParseException('metadata must come before data')\n"
        "tokens = line.split(' ')\n"
        'token_len = len(tokens)\n'
        'if token_len != 2:\n'
        "    raise TsFileParseException('timestamps tag requires an associated Boolean value')\n"
        "elif tokens[1] == 'true':\n"
        '    timestamps = True\n'
        "elif tokens[1] == 'false':\n"
        '    timestamps = False\n'
        'else:\n'
        "    raise TsFileParseException('invalid timestamps value')\n"
        'has_timestamps_tag = True\n'
        'metadata_started = True',
    'parser.branch[@univariate]':
        'if data_started:\n'
        "    raise TsFileParseException('metadata must come before data')\n"
        "tokens = line.split(' ')\n"
        'token_len = len(tokens)\n'
        'if token_len != 2:\n'
        "    raise TsFileParseException('univariate tag requires an associated Boolean  value')\n"
        "elif tokens[1] == 'true':\n"
        '    pass\n'
        "elif tokens[1] == 'false':\n"
        '    pass\n'
        'else:\n'
        "    raise TsFileParseException('invalid univariate value')\n"
        'has_univariate_tag = True\n'
        'metadata_started = True',
    'parser.finish':
        'if line_num:\n'
        '    if metadata_started and (not (has_problem_name_tag and has_timestamps_tag and has_univariate_tag and has_class_labels_tag and has_data_tag)):\n'
        "        raise TsFileParseException('metadata incomplete')\n"
        '    elif metadata_started and (not data_started):\n'
        "        raise TsFileParseException('file contained metadata but no data')\n"
        '    elif metadata_started and data_started and (len(instance_list) == 0):\n'
        "        raise TsFileParseException('file contained metadata but no data')\n"
        '    data = pd.DataFrame(dtype=np.float32)\n'
        '    for dim in range(0, num_dimensions):\n'
        "        data['dim_' + str(dim)] = instance_list[dim]\n"
        '    if class_labels:\n'
        '        if return_separate_X_and_y:\n'
        '            return (data, np.asarray(class_val_list))\n'
        '        else:\n'
        "            data['class_vals'] = pd.Series(class_val_list)\n"
        '            return data\n'
        '    else:\n'
        '        return data\n'
        'else:\n'
        "    raise TsFileParseException('empty file')",
    'parser.init':
        'metadata_started = False\n'
        'data_started = False\n'
        'has_problem_name_tag = False\n'
        'has_timestamps_tag = False\n'
        'has_univariate_tag = False\n'
        'has_class_labels_tag = False\n'
        'has_data_tag = False\n'
        'previous_timestamp_was_int = None\n'
        'prev_timestamp_was_timestamp = None\n'
        'num_dimensions = None\n'
        'is_first_case = True\n'
        'instance_list = []\n'
        'class_val_list = []\n'
        'line_num = 0',
    'parser.metadata_check':
        'if not has_problem_name_tag or not has_timestamps_tag or (not has_univariate_tag) or (not has_class_labels_tag) or (not has_data_tag):\n'
        "    raise TsFileParseException('a full set of metadata has not been provided before the data')",
    'parser.open':
        "open(full_file_path_and_name, 'r', encoding='utf-8') as file",
    'parser.untimestamped_case':
        "dimensions = line.split(':')\n"
        'if is_first_case:\n'
        '    num_dimensions = len(dimensions)\n'
        '    if class_labels:\n'
        '        num_dimensions -= 1\n'
        '    for _dim in range(0, num_dimensions):\n'
        '        instance_list.append([])\n'
        '    is_first_case = False\n'
        'this_line_num_dim = len(dimensions)\n'
        'if class_labels:\n'
        '    this_line_num_dim -= 1\n'
        'if this_line_num_dim != num_dimensions:\n'
        "    raise TsFileParseException('inconsistent number of dimensions. Expecting ' + str(num_dimensions) + ' but have read ' + str(this_line_num_dim))\n"
        'for dim in range(0, num_dimensions):\n'
        '    dimension = dimensions[dim].strip()\n'
        '    if dimension:\n'
        "        data_series = dimension.split(',')\n"
        '        data_series = [float(i) for i in data_series]\n'
        '        instance_list[dim].append(pd.Series(data_series))\n'
        '    else:\n'
        "        instance_list[dim].append(pd.Series(dtype='object'))\n"
        'if class_labels:\n'
        '    class_val_list.append(dimensions[num_dimensions].strip())',
    'tsv.body':
        "df = pd.read_csv(full_file_path_and_name, sep='\\t', header=None)\n"
        'y = df.pop(0).values\n'
        'df.columns -= 1\n'
        'X = pd.DataFrame()\n'
        "X['dim_0'] = [pd.Series(df.iloc[x, :]) for x in range(len(df))]\n"
        'if return_separate_X_and_y is True:\n'
        '    return (X, y)\n'
        "X['class_val'] = y\n"
        'return X',
    'writer.case_loop':
        'for case, value in itertools.zip_longest(data.iterrows(), class_value_list):\n'
        '    for dimension in case[1:]:\n'
        "        series = dimension[0].to_string(index=False, header=False, na_rep=missing_values).split('\\n')\n"
        "        series = ','.join((obsv for obsv in series))\n"
        '        file.write(str(series))\n'
        '        if not univariate:\n'
        "            file.write(':')\n"
        '    if value is not None:\n'
        "        file.write(f':{value}')\n"
        "    file.write('\\n')",
    'writer.comment_block':
        'if comment:\n'
        "    file.write('\\n# '.join(textwrap.wrap('# ' + comment)))\n"
        "    file.write('\\n')",
    'writer.prelude':
        'if class_value_list is None:\n'
        '    class_value_list = []\n'
        'if not isinstance(data, pd.DataFrame):\n'
        "    raise ValueError('Data provided must be a DataFrame')\n"
        'if len(data.index) != len(class_value_list) and len(class_value_list) > 0:\n'
        "    raise IndexError('The number of cases is not the same as the number of given class values')\n"
        'if equal_length and series_length == -1:\n'
        "    raise ValueError('Please specify the series length for equal length time series data.')\n"
        "dirt = f'{str(path)}/{str(problem_name)}/'\n"
        'try:\n'
        '    os.makedirs(dirt)\n'
        'except os.error:\n'
        '    pass\n'
        "file = open(f'{dirt}{str(problem_name)}_transform.ts', 'w')",
}
