"""Pins of the fragments of data_io.py / base.py the C18 hand model was written against: the sha256 of the
path normal form (translator/pathnorm_c18.py) for whole functions (`nf.*`), normalised source text (ast.unparse)
for the branches of the .ts parser loop.  Recorded with `python -m translator.tsformat /repo --record`;
re-record only after re-validating the model (coq/C18/Model.v) against the new source."""
PINS = {
    'nf._load_dataset':
        'sha256:a8423d8e50137da1b93b170d62a0576f47168d888002d94367e7b1caeb145e09',
    'nf.load_from_arff_to_dataframe':
        'sha256:fbfe341bd3c0d7649e1defa71ccfc5edda31c1f9706f3f193c9f696e0506423d',
    'nf.load_from_tsfile_to_dataframe':
        'sha256:d812c6e942a3249f843e413db7238ba69158eaec7943c1f49323a114714077e3',
    'nf.load_from_ucr_tsv_to_dataframe':
        'sha256:5e71c322548be61687415aa90d228d660aa9fb91abec0f7df87a27b28ffb79b3',
    'nf.write_dataframe_to_tsfile':
        'sha256:22aa1acef3bb26d182a3c8d4969215cc9b9d242dd87d9ae8e4301d2810d2cfb3',
}
