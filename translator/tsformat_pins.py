"""Pins of the fragments of data_io.py / base.py the C18 hand model was written against: the sha256 of the
path normal form (translator/pathnorm_c18.py) for whole functions (`nf.*`), normalised source text (ast.unparse)
for the branches of the .ts parser loop.  Recorded with `python -m translator.tsformat /repo --record`;
re-record only after re-validating the model (coq/C18/Model.v) against the new source."""
PINS = {
    'nf._load_dataset':
        'sha256:00d580334d4c5de87b3579724850421bab5c84e6457a97ce146881095979acf1',
    'nf.load_from_arff_to_dataframe':
        'sha256:5e4ff69970ef7d835739db343cbf5951318aeaa57f391c17ff962b836e73157e',
    'nf.load_from_tsfile_to_dataframe':
        'sha256:8fc7da0af311d6b7d44bf31ec7ce026e9e37bb97756f724b3be56d68126070b3',
    'nf.load_from_ucr_tsv_to_dataframe':
        'sha256:171895c2a809d603e8f74b6514ec1cabd6986d657133c1a54e49039982c32550',
    'nf.write_dataframe_to_tsfile':
        'sha256:fb7591334aa395d68dc03055c7b03aa28045989441746a7421dee8ee4de087d2',
}
