"""Pins of the fragments of data_io.py / base.py the C18 hand model was written against: the sha256 of the
path normal form (translator/pathnorm_c18.py) for whole functions (`nf.*`), normalised source text (ast.unparse)
for the branches of the .ts parser loop.  Recorded with `python -m translator.tsformat /repo --record`;
re-record only after re-validating the model (coq/C18/Model.v) against the new source."""
PINS = {
    'nf._load_dataset':
        'sha256:451221ed92b5559b07a7711a8761ca1ad1c2efbd82a167ec723be4f9e786817e',
    'nf.load_from_arff_to_dataframe':
        'sha256:a5949f745cce58069aff893b9f30ccef6c0c2df7165042cc6feb70ce0d43e912',
    'nf.load_from_ucr_tsv_to_dataframe':
        'sha256:171895c2a809d603e8f74b6514ec1cabd6986d657133c1a54e49039982c32550',
    'nf.write_dataframe_to_tsfile':
        'sha256:dd763613d12d991c35f66b4f6134d863d010fd37fcc183400d9fb1dc325f5699',
    'parser.branch[@classlabel]':
        'if data_started:\n'
        "    raise TsFileParseException('metadata must come before data')\n"
        "tokens = line.split(' ')\n"
        'token_len = len(tokens)\n'
        'if token_len == 1:\n'
        "    raise TsFileParseException('classlabel tag requires an associated Boolean  value')\n"
        "if tokens[1] == 'true':\n"
        '    class_labels = True\n'
        "elif tokens[1] == 'false':\n"
        '    class_labels = False\n'
        'else:\n'
        "    raise TsFileParseException('invalid classLabel value')\n"
        'if token_len == 2 and class_labels:\n'
        "    raise TsFileParseException('if the classlabel tag is true then class values must be supplied')\n"
        'has_class_labels_tag = True\n'
        'class_label_list = [token.strip() for token in tokens[2:]]\n'
        'metadata_started = True',
    'parser.branch[@data]':
        "if line != '@data':\n"
        "    raise TsFileParseException('data tag should not have an associated value')\n"
        'if data_started and (not metadata_started):\n'
        "    raise TsFileParseException('metadata must come before data')\n"
        'else:\n'
        '    has_data_tag = True\n'
        '    data_started = True',
    'parser.branch[@problemname]':
        'if data_started:\n'
        "    raise TsFileParseException('metadata must come before data')\n"
        "tokens = line.split(' ')\n"
        'token_len = len(tokens)\n'
        'if token_len == 1:\n'
        "    raise TsFileParseException('problemname tag requires an associated value')\n"
        'has_problem_name_tag = True\n'
        'metadata_started = True',
    'parser.branch[@timestamps]':
        'if data_started:\n'
        "    raise TsFileParseException('metadata must come before data')\n"
        "tokens = line.split(' ')\n"
        'token_len = len(tokens)\n'
        'if token_len != 2:\n'
        "    raise TsFileParseException('timestamps tag requires an associated Boolean value')\n"
        "elif tokens[1] == 'true':\n"
        '    timestamps = True\n'
        "elif tokens[1] == 'false':\n"
        '    timestamps = False\n'
        'else:\n'
        "    raise TsFileParseException('invalid timestamps value')\n"
        'has_timestamps_tag = True\n'
        'metadata_started = True',
    'parser.branch[@univariate]':
        'if data_started:\n'
        "    raise TsFileParseException('metadata must come before data')\n"
        "tokens = line.split(' ')\n"
        'token_len = len(tokens)\n'
        'if token_len != 2:\n'
        "    raise TsFileParseException('univariate tag requires an associated Boolean  value')\n"
        "elif tokens[1] == 'true':\n"
        '    pass\n'
        "elif tokens[1] == 'false':\n"
        '    pass\n'
        'else:\n'
        "    raise TsFileParseException('invalid univariate value')\n"
        'has_univariate_tag = True\n'
        'metadata_started = True',
    'parser.finish':
        'if line_num:\n'
        '    if metadata_started and (not (has_problem_name_tag and has_timestamps_tag and has_univariate_tag and has_class_labels_tag and has_data_tag)):\n'
        "        raise TsFileParseException('metadata incomplete')\n"
        '    elif metadata_started and (not data_started):\n'
        "        raise TsFileParseException('file contained metadata but no data')\n"
        '    elif metadata_started and data_started and (len(instance_list) == 0):\n'
        "        raise TsFileParseException('file contained metadata but no data')\n"
        '    data = pd.DataFrame(dtype=np.float32)\n'
        '    for dim in range(0, num_dimensions):\n'
        "        data['dim_' + str(dim)] = instance_list[dim]\n"
        '    if class_labels:\n'
        '        if return_separate_X_and_y:\n'
        '            return (data, np.asarray(class_val_list))\n'
        '        else:\n'
        "            data['class_vals'] = pd.Series(class_val_list)\n"
        '            return data\n'
        '    else:\n'
        '        return data\n'
        'else:\n'
        "    raise TsFileParseException('empty file')",
    'parser.init':
        'metadata_started = False\n'
        'data_started = False\n'
        'has_problem_name_tag = False\n'
        'has_timestamps_tag = False\n'
        'has_univariate_tag = False\n'
        'has_class_labels_tag = False\n'
        'has_data_tag = False\n'
        'previous_timestamp_was_int = None\n'
        'prev_timestamp_was_timestamp = None\n'
        'num_dimensions = None\n'
        'is_first_case = True\n'
        'instance_list = []\n'
        'class_val_list = []\n'
        'line_num = 0',
    'parser.metadata_check':
        'if not has_problem_name_tag or not has_timestamps_tag or (not has_univariate_tag) or (not has_class_labels_tag) or (not has_data_tag):\n'
        "    raise TsFileParseException('a full set of metadata has not been provided before the data')",
    'parser.open':
        "open(full_file_path_and_name, 'r', encoding='utf-8') as file",
    'parser.untimestamped_case':
        "dimensions = line.split(':')\n"
        'if is_first_case:\n'
        '    num_dimensions = len(dimensions)\n'
        '    if class_labels:\n'
        '        num_dimensions -= 1\n'
        '    for _dim in range(0, num_dimensions):\n'
        '        instance_list.append([])\n'
        '    is_first_case = False\n'
        'this_line_num_dim = len(dimensions)\n'
        'if class_labels:\n'
        '    this_line_num_dim -= 1\n'
        'if this_line_num_dim != num_dimensions:\n'
        "    raise TsFileParseException('inconsistent number of dimensions. Expecting ' + str(num_dimensions) + ' but have read ' + str(this_line_num_dim))\n"
        'for dim in range(0, num_dimensions):\n'
        '    dimension = dimensions[dim].strip()\n'
        '    if dimension:\n'
        "        data_series = dimension.split(',')\n"
        '        data_series = [float(i) for i in data_series]\n'
        '        instance_list[dim].append(pd.Series(data_series))\n'
        '    else:\n'
        "        instance_list[dim].append(pd.Series(dtype='object'))\n"
        'if class_labels:\n'
        '    class_val_list.append(dimensions[num_dimensions].strip())',
}
